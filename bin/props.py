"""Registry of property checks: which driver part, which TLA+ modules, which MC configs, which corruptions
the binding self-test applies. Used by bin/check."""


def _bump(path, delta=1):
    def fn(e):
        cur = e
        ps = path.split('.')
        for p in ps[:-1]:
            if not isinstance(cur, dict) or p not in cur:
                return None
            cur = cur[p]
        if not isinstance(cur, dict) or ps[-1] not in cur or not isinstance(cur[ps[-1]], int):
            return None
        cur[ps[-1]] += delta
        return e
    return fn


def _setlook(i):
    def fn(e):
        try:
            cur = e['obs']['look'][i]
        except (KeyError, IndexError, TypeError):
            return None
        if e.get('target') in ('word', 'ws', 'word0', 'ws0'):
            return None
        cur[1] = 'B' if cur[1] != 'B' else 'A'
        return e
    return fn


def _dropchar(field):
    def fn(e):
        toks = e.get(field)
        if not toks:
            return None
        for t in toks:
            if len(t[1]) >= 1:
                t[1] = t[1][1:]
                return e
        return None
    return fn


def _bumptok(field, idx):
    def fn(e):
        toks = e.get(field)
        if not toks or e.get('outcome') != 'ok':
            return None
        # only meaningful when the trace spec judges the case: keep it simple, bump the first token
        toks[0][idx] += 1
        return e
    return fn


def _dropfield(fields):
    def fn(e):
        if e.get('op') == 'decode':
            return None
        for f in fields:
            if e.get(f):
                e[f] = e[f][1:]
                return e
        return None
    return fn


def _flip(field):
    def fn(e):
        if isinstance(e.get(field), bool):
            e[field] = not e[field]
            return e
        return None
    return fn


def _bumplist(field, idx):
    def fn(e):
        v = e.get(field)
        if isinstance(v, list) and len(v) > idx and isinstance(v[idx], int):
            v[idx] += 1
            return e
        return None
    return fn


def _flipoutcome(e):
    if e.get('outcome') == 'accepted':
        e['outcome'] = 'rejected'
        e['code'] = 'X'
        return e
    if e.get('outcome') == 'rejected':
        e['outcome'] = 'accepted'
        return e
    return None


def _swapargs(e):
    for c in e.get('calls', []):
        if len(c[1]) >= 2 and c[1][0] != c[1][1]:
            c[1][0], c[1][1] = c[1][1], c[1][0]
            return e
    return None


def _appendout(e):
    if e.get('eval') == 'ok' and e.get('wellformed'):
        e['out'] = e['out'] + [33]
        return e
    return None


def _dropname(e):
    if e.get('op') == 'names' and e.get('set') == 'ok' and e.get('lexok') and len(e.get('names', [])) >= 1:
        e['names'] = e['names'][1:]
        return e
    return None


def _droptokchar(e):
    for t in e.get('toks', []):
        if t[0] in (8, 9) and len(t[1]) >= 1:
            t[1] = t[1][1:]
            return e
    return None


def _bumptoktype(e):
    if e.get('toks') and e.get('outcome') == 'ok':
        e['toks'][0][0] += 1
        return e
    return None


def _sloftype(e):
    try:
        v = e['obs']['vars'][0]
    except (KeyError, IndexError, TypeError):
        return None
    v[0] = 'Boolean' if v[0] != 'Boolean' else 'Null'
    return e


def _bumpr(e):
    r = e.get('r')
    if e.get('op') == 'bin' and e.get('outcome') == 'value' and isinstance(r, dict) and r.get('k') in ('int', 'frac') \
            and e['a'].get('k') in ('int', 'frac') and e['b'].get('k') in ('int', 'frac') and e['a']['t'] == e['b']['t'] \
            and e.get('name') in ('Add', 'Sub'):
        r['n'] += 8
        return e
    return None


def _convtype(e):
    if e.get('op') == 'conv' and e.get('outcome') == 'value' and e.get('to') not in ('Object', 'Null') and e['v']['t'] != e['to']:
        e['r']['t'] = 'Array' if e['r']['t'] != 'Array' else 'Object'
        return e
    return None


def _nilout(e):
    if e.get('op') == 'fn' and e.get('outcome') == 'value':
        e['outcome'] = 'nil'
        return e
    return None


def _neither(e):
    if e.get('outcome') in ('result', 'error', 'returned'):
        e['outcome'] = 'neither'
        return e
    return None


def _chresult(e):
    if e.get('op') == 'finish':
        e['result'] = e['result'] + '!'
        return e
    return None


PROPS = {
    'C11': dict(
        tv=dict(module='ScannerTrace', cfg='ScannerTrace.cfg'),
        mc=[dict(module='ScannerMC', cfg={'quick': 'ScannerMC.quick.cfg', 'thorough': 'ScannerMC.thorough.cfg'})],
        suite=dict(env='VERIF_SCAN_TRACE', drivers={'C13': {'quick': 120000, 'thorough': 1500000}, 'C09': {'quick': 40000, 'thorough': 500000}}),
        gen=[dict(module='ScannerGen', tag='cover', cfg={'quick': 'ScannerGen.cover.quick.cfg', 'thorough': 'ScannerGen.cover.thorough.cfg'}),
             dict(module='ScannerGen', tag='sim', cfg='ScannerGen.sim.cfg', sim={'quick': (300, 43), 'thorough': (5000, 43)})],
        corrupt=[('obs.col+1', _bump('obs.col')), ('obs.pline+1', _bump('obs.pline')), ('ret+1', _bump('ret'))],
        exhaustive_part=True,
        assumptions=['guarded hook StringScanner.VerifCursor returns position+1 (io/verif_hooks.go)', 'guarded hook StringScanner.verifEvent logs each call after its state change, instance numbers under the lock that orders the lines'],
    ),
    'C17': dict(
        tv=dict(module='CharMapTrace', cfg='CharMapTrace.cfg'),
        mc=[dict(module='CharMapMC', cfg={'quick': 'CharMapMC.quick.cfg', 'thorough': 'CharMapMC.thorough.cfg'})],
        gen=[dict(module='CharMapGen', tag='map', cfg={'quick': 'CharMapGen.map.quick.cfg', 'thorough': 'CharMapGen.map.thorough.cfg'}),
             dict(module='CharMapGen', tag='tokenizer', cfg={'quick': 'CharMapGen.tokenizer.quick.cfg', 'thorough': 'CharMapGen.tokenizer.thorough.cfg'}, tiers=('thorough',)),
             dict(module='CharMapGen', tag='word', cfg={'quick': 'CharMapGen.word.quick.cfg', 'thorough': 'CharMapGen.word.thorough.cfg'}),
             dict(module='CharMapGen', tag='sim', cfg='CharMapGen.sim.cfg', sim={'quick': (150, 15), 'thorough': (3000, 15)})],
        corrupt=[('look[3] id', _setlook(3))],
        exhaustive_part=True,
    ),
    'C16': dict(
        tv=dict(module='SymbolTrieTrace', cfg='SymbolTrieTrace.cfg'),
        mc=[dict(module='SymbolTrieMC', cfg={'quick': 'SymbolTrieMC.quick.cfg', 'thorough': 'SymbolTrieMC.thorough.cfg'})],
        gen=[dict(module='SymbolTrieGen', tag='cover', cfg={'quick': 'SymbolTrieGen.cover.quick.cfg', 'thorough': 'SymbolTrieGen.cover.thorough.cfg'}, heap='8g'),
             dict(module='SymbolTrieGen', tag='sim', cfg='SymbolTrieGen.sim.cfg', sim={'quick': (200, 33), 'thorough': (4000, 33)})],
        corrupt=[('obs.type+1', _bump('obs.type')), ('obs.k+1', _bump('obs.k'))],
        exhaustive_part=True,
        assumptions=['guarded hook StringScanner.VerifCursor (consumed characters)'],
    ),
    'C04': dict(
        tv=dict(module='TokenStreamTrace', cfg='TokenStreamTrace.C04.cfg'),
        mc=[dict(module='LexerMC', tag='g', cfg={'quick': 'LexerMC.generic.quick.cfg', 'thorough': 'LexerMC.generic.thorough.cfg'}),
            dict(module='LexerMC', tag='e', cfg={'quick': 'LexerMC.expression.quick.cfg', 'thorough': 'LexerMC.expression.thorough.cfg'})],
        corrupt=[('drop a character of a token value', _dropchar('base'))],
        exhaustive_part=True,
    ),
    'C15': dict(
        tv=dict(module='TokenStreamTrace', cfg='TokenStreamTrace.C15.cfg'),
        mc=[dict(module='LexerMC', tag='g', cfg={'quick': 'LexerMC.generic.quick.cfg', 'thorough': 'LexerMC.generic.thorough.cfg'}),
            dict(module='LexerMC', tag='e', cfg={'quick': 'LexerMC.expression.quick.cfg', 'thorough': 'LexerMC.expression.thorough.cfg'}),
            dict(module='TokenizerLoopMC', cfg='TokenizerLoopMC.cfg', workers=4)],
        corrupt=[('drop a character of an output token', _dropchar('out'))],
        exhaustive_part=True,
    ),
    'C12': dict(
        tv=dict(module='TokenStreamTrace', cfg='TokenStreamTrace.C12.cfg'),
        mc=[dict(module='LexerMC', tag='g', cfg={'quick': 'LexerMC.generic.quick.cfg', 'thorough': 'LexerMC.generic.thorough.cfg'}),
            dict(module='LexerMC', tag='e', cfg={'quick': 'LexerMC.expression.quick.cfg', 'thorough': 'LexerMC.expression.thorough.cfg'})],
        corrupt=[('column of an output token + 1', _bumptok('out', 3))],
        exhaustive_part=True,
    ),
    'C14': dict(
        tv=dict(module='QuoteCodecTrace', cfg='QuoteCodecTrace.cfg'),
        mc=[dict(module='QuoteCodecMC', cfg={'quick': 'QuoteCodecMC.quick.cfg', 'thorough': 'QuoteCodecMC.thorough.cfg'})],
        corrupt=[('drop a character of dec/decoded', _dropfield(['dec', 'decoded']))],
        exhaustive_part=True,
    ),
    'C05': dict(
        tv=dict(module='TokenIteratorTrace', cfg='TokenIteratorTrace.cfg'),
        mc=[dict(module='TokenIteratorMC', cfg='TokenIteratorMC.cfg')],
        corrupt=[('flip has-next answer', _flip('ret')), ('token type + 1', _bumplist('tok', 0))],
        exhaustive_part=True,
    ),
    'C02': dict(
        tv=dict(module='ExprParseTrace', cfg='ExprParseTrace.cfg'),
        mc=[dict(module='ExprGrammarMC', cfg={'quick': 'ExprGrammarMC.quick.cfg', 'thorough': 'ExprGrammarMC.thorough.cfg'}, extra=['-maxSetSize', '6000000'], heap='12g')],
        corrupt=[('flip accepted/rejected', _flipoutcome)],
        exhaustive_part=True,
    ),
    'C01': dict(
        tv=dict(module='ExprEvalTrace', cfg='ExprEvalTrace.cfg'),
        mc=[dict(module='ExprGrammarMC', cfg={'quick': 'ExprGrammarMC.quick.cfg', 'thorough': 'ExprGrammarMC.thorough.cfg'}, extra=['-maxSetSize', '6000000'], heap='12g')],
        corrupt=[('swap operands of a recorded application', _swapargs)],
        exhaustive_part=True,
        harness_prefix='HARNESS:',
    ),
    'C10': dict(
        tv=dict(module='MustacheTrace', cfg='MustacheTrace.C10.cfg'),
        mc=[dict(module='MustacheMC', cfg={'quick': 'MustacheMC.quick.cfg', 'thorough': 'MustacheMC.thorough.cfg'})],
        corrupt=[('append a character to the rendering', _appendout)],
        exhaustive_part=True,
        harness_prefix='HARNESS:',
    ),
    'C18': dict(
        tv=[dict(part='expr', module='ExprNamesTrace', cfg='ExprNamesTrace.cfg'),
            dict(part='coll', module='CollectionsTrace', cfg='CollectionsTrace.cfg'),
            dict(part='tmpl', module='MustacheTrace', cfg='MustacheTrace.C18.cfg')],
        mc=[dict(module='CollectionsMC', cfg='CollectionsMC.cfg')],
        gen=[dict(part='coll', module='CollectionsGen', tag='vars', cfg={'quick': 'CollectionsGen.variables.cfg', 'thorough': 'CollectionsGen.variables.thorough.cfg'}),
             dict(part='coll', module='CollectionsGen', tag='fns', cfg='CollectionsGen.functions.cfg'),
             dict(part='coll', module='CollectionsGen', tag='sim', cfg='CollectionsGen.sim.cfg', sim={'quick': (200, 43), 'thorough': (4000, 43)})],
        corrupt=[('drop a reported name', _dropname)],
        exhaustive_part=True,
        harness_prefix='HARNESS:',
    ),
    'C09': dict(
        tv=dict(module='CsvTrace', cfg='CsvTrace.cfg'),
        mc=[dict(module='CsvMC', cfg={'quick': 'CsvMC.quick.cfg', 'thorough': 'CsvMC.thorough.cfg'}, timeout=1500)],
        corrupt=[('drop a character of a token value', _droptokchar)],
        exhaustive_part=True,
        harness_prefix='HARNESS:',
    ),
    'C13': dict(
        tv=dict(module='LexerTrace', cfg='LexerTrace.cfg'),
        mc=[dict(module='LexemeMC', tag='g', cfg='LexemeMC.generic.cfg'), dict(module='LexemeMC', tag='e', cfg='LexemeMC.expression.cfg')],
        corrupt=[('token type + 1', _bumptoktype)],
        exhaustive_part=True,
        harness_prefix='HARNESS:',
    ),
    'C20': dict(
        tv=dict(module='VariantHeapTrace', cfg='VariantHeapTrace.cfg'),
        mc=[dict(module='VariantHeapMC', cfg='VariantHeapMC.cfg'),
            dict(module='VariantHeapImplMC', cfg={'quick': 'VariantHeapImplMC.quick.cfg', 'thorough': 'VariantHeapImplMC.thorough.cfg'}, workers=8, heap='12g')],
        gen=[dict(module='VariantHeapGen', tag='cover', cfg={'quick': 'VariantHeapGen.quick.cfg', 'thorough': 'VariantHeapGen.thorough.cfg'}, heap='8g'),
             dict(module='VariantHeapGen', tag='sim', cfg='VariantHeapGen.sim.cfg', sim={'quick': (200, 28), 'thorough': (4000, 28)})],
        corrupt=[('change the reported type of a slot', _sloftype)],
        exhaustive_part=True,
    ),
    'C06': dict(
        tv=dict(module='VariantOpsTrace', cfg='VariantOpsTrace.cfg'),
        mc=[dict(module='VariantOpsMC', cfg='VariantOpsMC.cfg')],
        corrupt=[('result number + 1', _bumpr)],
        exhaustive_part=True,
    ),
    'C07': dict(
        tv=dict(module='VariantConvTrace', cfg='VariantConvTrace.cfg'),
        mc=[dict(module='VariantOpsMC', cfg='VariantOpsMC.cfg')],
        corrupt=[('change the result type', _convtype)],
        exhaustive_part=True,
    ),
    'C08': dict(
        tv=dict(module='FunctionsTrace', cfg='FunctionsTrace.cfg'),
        mc=[dict(module='VariantOpsMC', cfg='VariantOpsMC.cfg')],
        corrupt=[('turn a value outcome into nil', _nilout)],
        exhaustive_part=False,
    ),
    'C03': dict(
        tv=dict(module='OutcomeTrace', cfg='OutcomeTrace.cfg'),
        mc=[dict(module='TokenizerLoopMC', cfg='TokenizerLoopMC.cfg', workers=4)],
        corrupt=[('turn a normal return into neither', _neither)],
        exhaustive_part=True,
    ),
    'C19': dict(
        tv=[dict(part='sched', module='ConcurrentEvalTrace', cfg='ConcurrentEvalTrace.cfg'),
            dict(part='race', module='ConcurrentEvalTrace', cfg='ConcurrentEvalTrace.cfg')],
        mc=[dict(module='ConcurrentEvalMC', cfg='ConcurrentEvalMC.cfg', tag='2'), dict(module='ConcurrentEvalMC', cfg='ConcurrentEvalMC3.cfg', tag='3')],
        gen=[dict(part='sched', module='ConcurrentEvalGen', tag='p7', cfg='ConcurrentEvalGen.p7.cfg', label='every schedule of the model'),
             dict(part='sched', module='ConcurrentEvalGen', tag='p3', cfg='ConcurrentEvalGen.p3.cfg', label='every schedule of the model'),
             dict(part='sched', module='ConcurrentEvalGen', tag='p5', cfg='ConcurrentEvalGen.p5.cfg', label='every schedule of the model')],
        corrupt=[('change a concurrent result', _chresult)],
        exhaustive_part=True,
        race=True,
    ),
}

NOT_APPLICABLE = {}

DOC = {
    'C11': dict(
        level='Scanner.tla specifies the cursor (position k over the characters plus one end-of-input slot; line/column = forward '
              'scan LC(content,k)); ScannerMC.tla model-checks with TLC, for every content up to the bound over {x,LF,CR} and call '
              'histories of any length, that the implementation-shaped model ScannerImpl refines it. The real scanner is bound by '
              'trace validation: the driver explores the real object\'s own reachable state graph for every content up to the bound '
              '(every operation from every reachable state) plus random walks, and ScannerTrace.tla checks every return value and all '
              'seven observers after every call.',
        note='Trusted: TLC, the Json module, the recorder, the guarded hook VerifCursor (position+1). Exhaustive only up to the stated '
             'content length; longer contents are sampled by seeded random walks.',
        technique='TLA+ spec + TLC exhaustive refinement check (ScannerMC) + TLC trace validation of the real scanner\'s explored state graph (ScannerTrace)',
    ),
    'C17': dict(
        level='CharMap.tla specifies the map as the list of registrations since the last clear with lookup = latest covering '
              'registration; CharMapMC.tla checks with TLC that the implementation-shaped model (direct table below U+0100, newest-first '
              'interval list above, clamping at U+FFFE) refines it for all histories up to the bound over the boundary endpoints. The '
              'real CharReferenceMap, AbstractTokenizer.Set/Get/ClearCharacterState(s) and the word/whitespace character classes are '
              'driven through all histories of length <= 2 (88 operations each) and random longer ones; CharMapTrace.tla checks the '
              'identity of every looked-up reference at 19 probe characters after every operation.',
        note='Trusted: TLC, Json module, the recorder (pointer identity of the returned reference). Endpoints restricted to the boundary '
             'set of the property and their neighbours; histories longer than 2 are sampled.',
        technique='TLA+ spec + TLC refinement check (CharMapMC) + TLC trace validation of exhaustive/random registration histories (CharMapTrace)',
    ),
    'C16': dict(
        level='SymbolTrie.tla specifies the table as a function symbol -> type with Next = longest registered prefix (else one character '
              'of type Symbol). SymbolTrieMC.tla checks with TLC that the trie model of SymbolRootNode/SymbolNode (valid flags, deepest '
              'read, unwinding to the nearest valid ancestor) refines it for every symbol set over {a,b} up to the bound reached by every '
              'registration order, at every position of every input up to the bound. The real GenericSymbolState is driven with all sets '
              'of <= 2 (quick) / <= 3 (thorough, plus each of the 16384 subsets once) symbols in every order and random larger sets, each '
              'instance tokenizing many inputs in sequence; SymbolTrieTrace.tla checks type, text and consumed length of every token.',
        note='Trusted: TLC, Json module, recorder, hook VerifCursor. Token type 0 (Unknown) is reserved by the implementation as "unset" '
             'and not generated; re-registering one symbol with another type is not driven.',
        technique='TLA+ spec + TLC refinement check over all symbol sets (SymbolTrieMC) + TLC trace validation of the real symbol state (SymbolTrieTrace)',
    ),
    'C04': dict(
        level='TokenStream.tla states losslessness (values concatenate to the input, exactly one empty end-of-input marker at the end, no '
              'other empty token). Every input up to the bound over each tokenizer\'s alphabet of state-selecting characters, a deeper '
              'enumeration over the characters with push-back paths, and random/mutated longer inputs are tokenized by the four real '
              'tokenizers with all options off; TLC evaluates the predicate on every recorded stream (TokenStreamTrace, Check = C04). RefLexer.tla contains reference lexers of the generic and expression tokenizers and the option post-processing as functions; LexerMC.tla model-checks the lossless, option and position predicates on them for every input up to the bound, and every real option-free stream is compared with the reference lexer (differences are reported as SPEC-DRIFT, currently none).',
        note='Trusted: TLC, Json module, recorder. Exhaustive only up to the stated length over the listed alphabets; longer inputs sampled.',
        technique='TLA+ predicate spec (TokenStream) + TLC trace validation of exhaustive small-alphabet and random inputs; TLC design-level check LexerMC on the reference lexers',
    ),
    'C15': dict(
        level='TokenStream.tla states the option relation: an order-preserving alignment of the stream under an option set into the '
              'option-free stream in which every base token is either dropped (only kinds an enabled option may drop) or kept and equal '
              'to its base token after the enabled rewrites (merge, unify, QuoteCodec.Decode), plus the "option on" clauses (no Unknown/'
              'Comment/Eof token, no two adjacent whitespace tokens, single-space whitespace, Number type). The four real tokenizers are '
              'run with options off and under 16 covering option sets (quick) / all 128 (thorough) over all inputs up to the bound and '
              'random multi-line inputs; TLC evaluates the relation on every pair of streams (TokenStreamTrace, Check = C15). RefLexer.tla contains reference lexers of the generic and expression tokenizers and the option post-processing as functions; LexerMC.tla model-checks the lossless, option and position predicates on them for every input up to the bound, and every real option-free stream is compared with the reference lexer (differences are reported as SPEC-DRIFT, currently none).',
        note='Trusted: TLC, Json module, recorder. Which whitespace tokens skip-whitespaces removes is left open (statement). A run that '
             'returns no stream under options although the option-free run does counts as a rejection.',
        technique='TLA+ predicate spec (TokenStream.OptionFails, exists-alignment) + TLC trace validation over option sets x inputs; TLC design-level check LexerMC on the reference lexers and TokenizerLoopMC',
    ),
    'C12': dict(
        level='TokenStream.tla states the position clause on top of the option alignment: a kept token reports LC(input, offset+1) - the '
              'forward-scan coordinates (ScanLC, the same operator that specifies the scanner in C11) of its first character, offsets '
              'taken from the cumulative lengths of the option-free stream - and the end-of-input token one column past the end. Same '
              'drivers as C15 (four tokenizers x option sets x exhaustive small and random multi-line inputs with every line-break style). RefLexer.tla contains reference lexers of the generic and expression tokenizers and the option post-processing as functions; LexerMC.tla model-checks the lossless, option and position predicates on them for every input up to the bound, and every real option-free stream is compared with the reference lexer (differences are reported as SPEC-DRIFT, currently none).',
        note='Trusted: TLC, Json module, recorder. Cases whose option-free stream is not lossless (C04) or not alignable (C15) are not '
             'judged here. Positions inside error messages are not checked.',
        technique='TLA+ predicate spec (TokenStream.PositionFails over ScanLC.LC) + TLC trace validation over option sets x inputs; TLC design-level check LexerMC on the reference lexers',
    ),
    'C14': dict(
        level='QuoteCodec.tla defines Encode/Decode of the generic and the doubled-quote (expression, CSV) states and ReadQuoted; '
              'QuoteCodecMC.tla model-checks the three laws (round trip, totality, read-back of an encoding followed by a tail) for '
              'every string up to the bound over {both quotes, ASCII, 2-, 3- and 4-byte characters, space, LF}. The three real quote '
              'states are driven over the same strings exhaustively and random Unicode beyond; QuoteCodecTrace.tla checks '
              'decode(encode(s)) = s, that DecodeString returns on arbitrary raw text, and that the real expression / CSV tokenizer reads '
              'encode(s) followed by a tail as exactly one token whose decoded value is s.',
        note='Trusted: TLC, Json module, recorder. The exact encoded text is not prescribed (difference from QuoteCodec.Encode is printed '
             'as SPEC-DRIFT only).',
        technique='TLA+ codec spec + TLC model checking of the codec laws (QuoteCodecMC) + TLC trace validation of the real quote states and tokenizers',
    ),
    'C05': dict(
        level='TokenIterator.tla specifies a reused tokenizer as an iterator over fresh(x), the stream a newly constructed instance '
              'produces (has-next changes nothing, next yields each element once in order, a new reader forgets everything); '
              'TokenIteratorMC.tla model-checks these invariants over all interleavings of set-reader / has-next / next. Real instances '
              'of every tokenizer are fed all ordered pairs of a pool (every multi-character symbol, every token class, unterminated '
              'literals) with abandon points at every position, all interleavings of the three calls to a fixed depth, and random longer '
              'histories under several option sets; TokenIteratorTrace.tla validates every call against the iterator. Reused parser, '
              'calculator and template instances are compared with fresh ones step by step (events "reuse").',
        note='Trusted: TLC, Json module, recorder. fresh(x) is itself an observation of the real code (a new instance), as the property '
             'states; triples of inputs only in the thorough tier.',
        technique='TLA+ iterator spec + TLC model checking of all call interleavings (TokenIteratorMC) + TLC trace validation of reused instances against fresh ones',
    ),
    'C02': dict(
        level='ExprGrammar.tla defines the expression grammar as mutually recursive operators returning the post-order program or Rej, '
              'independent of the parser\'s control flow. The real ExpressionParser receives every token sequence up to the bound over a '
              'representative vocabulary and the full vocabulary (ParseTokens, and ParseString on the rendered text with the lexer\'s '
              'actual output as the judged sequence) plus token-level mutations of generated sentences; ExprParseTrace.tla checks '
              'accepted <=> RefParse # Rej, compiled program = RefParse, rejection carries an error code, a panic is neither. ExprParserImpl.tla is a branch-by-branch model of the Go parser (token index, multi-token matcher, argument loop, index sub-parser; variant "orig" reproduces the three defects found); ExprGrammarMC.tla checks ImplParse = RefParse for every token string up to the bound (137 561 strings of length <= 4 in the quick tier).',
        note='Trusted: TLC, Json module, recorder. Error codes/messages and positions are not prescribed; empty input is outside the '
             'statement. The sign binds before the index (-a[1] = (-a)[1]) as the implementation does; the statement leaves that open.',
        technique='TLA+ reference grammar (ExprGrammar.RefParse) + TLC trace validation of exhaustive token strings and mutated sentences; TLC refinement check ExprGrammarMC (ExprParserImpl vs RefParse)',
    ),
    'C01': dict(
        level='ExprEval.tla defines the direct evaluation of a syntax tree as the sequence of variant-operation and function applications '
              'with operand identities (Wire), values left uninterpreted; ExprGrammar.RefParse ties token lists to trees. The real '
              'ExpressionCalculator runs with a recording operations manager and function collection installed through its public API, on '
              'texts printed from generated trees (all ordered pairs of the 27 operator forms in every operand slot, sampled/all triples, '
              'random trees of any depth; minimal, full and random parenthesisation with redundant +, random spacing, comments, keyword '
              'case). ExprEvalTrace.tla checks that the emitted tokens denote the tree (generator validation), that the recorded '
              'applications equal Wire(tree) and that the result is the root\'s value; a second event kind evaluates two renderings of one '
              'tree with the real operations and random values of every type and requires equal results. ExprGrammarMC.tla additionally model-checks, for every token string up to the bound, that the implementation-shaped parser model ExprParserImpl agrees with the reference grammar and that parenthesising a sentence does not change its program.',
        note='Trusted: TLC, Json module, the recording manager (pointer identity of operands), the generator only as far as TLC validates '
             'it (RefParse(tokens) = PostOrder(tree)). Operator semantics are C06\'s subject and deliberately uninterpreted here; LIKE has no '
             'variant operation and must yield an error. A lexer disagreement is C13\'s subject and skipped here.',
        technique='TLA+ evaluation-wiring spec (ExprEval.Wire) + TLC trace validation of the real calculator instrumented through its public operation/function interfaces; TLC model check ExprGrammarMC',
    ),
    'C10': dict(
        level='Mustache.tla gives the reference semantics over templates as lexeme sequences: a three-valued recogniser MParse (well '
              'formed / one of the malformations the property lists / not spoken about) and Render (text verbatim, variables, JSON-style '
              'escaping, sections and inverted sections by presence and non-emptiness, names folded). The real MustacheTemplate is driven '
              'with random well-formed templates of any depth in every spelling (#, #if, ^, #unless, close by name, /if, /unless, double '
              'and triple braces, inner spacing) x random variable maps with arbitrary letter case and Unicode values, all small templates '
              'x four maps, every lexeme string up to the bound over the 12-lexeme alphabet, and lexeme-level mutations; MustacheTrace.tla '
              'checks accept/reject against MParse and the rendering against Render. MustacheImpl.tla models the tokenizer modes, the lexical state machine and the section matcher of the Go front end; MustacheMC.tla checks for every lexeme string up to the bound that it accepts what MParse says must be accepted and rejects what must be rejected (variant "orig": comment tags end in the INTERNAL error branch).',
        note='Trusted: TLC, Json module, recorder, and the generator only as far as TLC validates it (well-formed cases must parse as such '
             'in the specification). Left open: leading/trailing whitespace of the template (trimmed by the engine, avoided by the '
             'generator), case-insensitively colliding keys, closing by a name differing only in case, quoted strings inside tags.',
        technique='TLA+ reference semantics (Mustache.MParse/Render) + TLC trace validation of generated templates x variable maps and exhaustive lexeme strings; TLC check MustacheMC (MustacheImpl vs MParse)',
    ),
    'C18': dict(
        level='Three trace specifications over one registry entry. ExprNamesTrace.tla (with ExprEval\'s trees): reported names = identifiers in '
              'variable position, folded, no exact duplicates, spelled as in the text, in order of first occurrence; automatic variables keep '
              'existing entries/values and add exactly one entry per new folded name; an unresolved variable or function yields an error '
              'naming it. Collections.tla is the ordered-list model (first added wins, case-insensitive), model-checked over all operation '
              'sequences up to the bound (CollectionsMC) and bound to the real VariableCollection / FunctionCollection by validating every '
              'operation of exhaustive short and random long sequences with the full list logged after each step. MustacheTrace (Check=C18) '
              'checks the names and automatic variables of generated templates against Mustache.NameKeys (never if/unless).',
        note='Trusted: TLC, Json module, recorder (object identity via pointers), folding of names done by the recorder with strings.ToLower. '
             'Remove/Get with an invalid index is API misuse and not driven.',
        technique='TLA+ list model + TLC model checking (CollectionsMC) + TLC trace validation of collections, expression names and template names',
    ),
    'C09': dict(
        level='Csv.tla specifies writing (per field raw or quote-encoded with a chosen quote, separators, one line-ending spelling) and '
              'regrouping (rows at end-of-line tokens, fields at separator symbols, a field = its single word/quoted token or empty), with a '
              'reference CSV lexer; CsvMC.tla model-checks Regroup(Lex(Write(t))) = t for every small table, plan and line ending. The real '
              'CsvTokenizer (decoding on) tokenizes texts written from all 2-row tables over the significant characters with every line '
              'ending, and random tables up to 6x6 over the BMP under several separator/quote configurations; CsvTrace.tla first validates '
              'the written text against Csv.Write (generator validation) and then requires the tokens to regroup to exactly the table, '
              'each line ending being one end-of-line token.',
        note='Trusted: TLC, Json module, recorder. A trailing line ending, raw fields containing quote characters and characters above '
             'U+FFFE are outside the statement and not generated; one line-ending style per table.',
        technique='TLA+ framing spec (Csv.Write/Regroup) + TLC model checking of the framing (CsvMC) + TLC trace validation of the real CSV tokenizer',
    ),
    'C13': dict(
        level='Lexer.tla states the lexical grammar of the generic and the expression tokenizer: the lexeme classes, WellFormed(class, text), the '
              'token type each class must be reported with, and CanAbut (two lexemes may be adjacent only if maximal munch cannot join or '
              're-cut them). Lexeme sequences (all sequences of <= 3 over class representatives plus every multi-character symbol and every '
              'keyword spelling; random sequences of any length with random Unicode payloads) are written out and tokenized by the real '
              'tokenizers; LexerTrace.tla first validates the sequence itself (well-formedness and separability - generator validation) and '
              'then requires the token list to be exactly the lexemes with the types of their classes plus the end-of-input marker. LexemeMC.tla model-checks that the two descriptions of the lexical grammar in the specification agree: every separable sequence of up to three pool lexemes is tokenized back by the reference lexer RefLexer into exactly those lexemes.',
        note='Trusted: TLC, Json module, recorder. CanAbut is deliberately conservative (a separator is inserted whenever merging is '
             'conceivable); hexadecimal numbers are not produced by either tokenizer and not generated.',
        technique='TLA+ lexical grammar (Lexer.WellFormed/CanAbut/TypeOf) + TLC trace validation of generated lexeme sequences on the real tokenizers; TLC design-level check LexemeMC',
    ),
    'C20': dict(
        level='VariantHeap.tla is the value model: a variant slot holds <<type, payload>>, an array payload is the variant\'s own sequence of '
              'element references, building from a list / cloning / assigning copy it, index writes past the end grow with nulls; equality '
              'is specified three-valued (must be true / must be false / either, where identity vs value comparison of elements is left '
              'open) and must be symmetric and total. VariantHeapMC.tla model-checks independence of slots and "a clone equals its '
              'original" over all operation sequences up to the bound. Real variants are driven through all histories of 3 (quick) / 4 '
              '(thorough) operations on 2 slots and a caller list and random histories on 4 slots and 2 lists; after every step the type, '
              'payload, element identities of every slot and the equality matrix are validated by VariantHeapTrace.tla. A table of host '
              'values of all 15 Go kinds (with extremes) checks the variant type and the typed accessor.',
        note='Trusted: TLC, Json module, recorder (pointer identity of elements; growth nulls are reported as "nul"). uint values above '
             'MaxInt64 cannot be held by the Long type and are not generated; SetByIndex/SetLength on non-arrays and GetByIndex out of range '
             'are documented precondition panics and not driven.',
        technique='TLA+ value model + TLC model checking (VariantHeapMC) + TLC trace validation of operation histories on real variants',
    ),
    'C06': dict(
        level='VariantOps.tla is the value model: which (operator, first-operand type) cells are defined, which conversions of the second '
              'operand each manager supports, Null propagation, the undefined cases that must be errors (integer division by zero, negative '
              'shift, index out of range), and exact results on the domain TLC can compute (small integers, eighths, booleans, strings by '
              'code point; bitwise operators by bit recursion). Both real managers are called on every ordered pair of a boundary pool '
              '(about 68 values of all 11 types incl. extremes, NaN/Inf, empty string) for all 19 operators, plus comparison-consistency, '
              'algebraic-law (add/sub, xor/xor, div/mod identity, double negation, commutativity - these reach the int64 extremes through '
              'opaque payload strings), membership and indexing events; VariantOpsTrace.tla classifies every recorded outcome. VariantOpsMC.tla model-checks the oracle itself: the comparison-consistency, algebraic and division laws on the exact small-value model and the inclusion of the type-safe conversion matrix in the type-unsafe one.',
        note='Trusted: TLC, Json module, recorder (classification of a value as exactly modelled). Not computed by the model: results of '
             'overflow and of inexact floating-point operations (laws only), shifts by >= the word size, which error code is used, how '
             'Object/Array values are rendered when concatenated to a string, Pow with a non-numeric second operand.',
        technique='TLA+ operator/conversion value model (VariantOps) + TLC trace validation of all operator x operand-pair cells on both managers; TLC check of the value model VariantOpsMC',
    ),
    'C07': dict(
        level='VariantOps.tla holds the conversion matrix of both managers (type-safe: exactly the six numeric widenings plus identity/Object/Null '
              'requests) and VariantConvTrace.tla the clauses: success => requested type (unchanged value for Object / own type); formulas on '
              'the exactly modelled domain (truncation, Boolean <-> 0/1, TimeSpan in milliseconds, DateTime in Unix seconds, decimal text); '
              'type-safe success => same result as type-unsafe; the round trips the statement lists, judged on canonical payload strings so '
              'that the int64 extremes and the 2^53 / 2^24 boundaries are in scope. Both real managers convert every value of a boundary '
              'pool plus seeded random values to all 11 targets, and every two-step chain value -> via -> original type. VariantOpsMC.tla model-checks the oracle itself: the comparison-consistency, algebraic and division laws on the exact small-value model and the inclusion of the type-safe conversion matrix in the type-unsafe one.',
        note='Trusted: TLC, Json module, recorder (flags |v| <= 2^53 and "has no fraction" are facts about the input computed by the recorder). '
             'Left open: the text produced for Float/Double/DateTime/TimeSpan -> String, conversions of unparsable strings.',
        technique='TLA+ conversion matrix and formulas (VariantOps/VariantConvTrace) + TLC trace validation of value x target x manager and of two-step chains; TLC check of the value model VariantOpsMC',
    ),
    'C08': dict(
        level='FunctionsTrace.tla contains the reference semantics of the 37 default functions on the value model of VariantOps: arity sets, '
              'result types, Min/Max/Sum as folds of the specified comparison/addition, If/Choose selection by argument identity, Abs, '
              'Ceil/Floor/Round/Trunc on eighths, Contains, Empty, Array, TimeSpan and Date construction (calendar components read back), '
              'DayOfWeek by Zeller\'s congruence, constants, clock functions within the call interval, random numbers in [0,1), and for the '
              'IEEE functions the result type, the conversion of the argument and exact values at anchor points. Every registered name is '
              'called in four letter cases with every argument count 0..8, targeted and boundary arguments, under both managers, directly '
              'and through an expression (results must agree); a nil result without error, a wrong arity that is not an error and an '
              'inapplicable argument that is not an error are rejections. VariantOpsMC.tla model-checks the oracle itself: the comparison-consistency, algebraic and division laws on the exact small-value model and the inclusion of the type-safe conversion matrix in the type-unsafe one.',
        note='Trusted: TLC, Json module, recorder. Accuracy of the transcendental functions away from the anchor points is outside the model '
             '(only direct = via-expression is checked there); Sqr is checked as the alias of Sqrt it is registered as; Choose(0, ...), '
             'Empty("") and the seventh argument of Date are left open.',
        technique='TLA+ reference semantics of the function library (FunctionsTrace) + TLC trace validation of name x spelling x argument-list x manager calls; TLC check of the value model VariantOpsMC',
    ),
    'C03': dict(
        level='Outcome.tla states the protocol: every public call ends in a normal return, an evaluating call in exactly one of a non-nil '
              'result or a non-nil error; panic, neither, both and hang are the bad terminal states (invariant: never reached). The recorder '
              'runs every call under recover and a watchdog and OutcomeTrace.tla classifies each one. Inputs: every operator, postfix and '
              'function form over variables x 13 boundary assignments of every supported type (division by zero, out-of-range indexes and '
              'shifts, null operands, NaN/Inf, extremes, non-ASCII), every expression / template string up to the bound over the significant '
              'characters, brace structures, the four tokenizers under option sets, the three quote codecs, mutated and random inputs, '
              'every operator and Convert on pairs of the boundary pool under both managers, and every function with 0..8 arguments. TokenizerLoop.tla models the tokenizer main loop as micro-steps; TokenizerLoopMC checks with TLC that every call terminates (liveness under weak fairness) for all abstract inputs up to the bound x all 16 skip-option sets - the variant "orig" (stale loop variable) has the non-progress cycle found in the repository.',
        note='Trusted: TLC, Json module, recorder (recover + 3 s watchdog as the observation of panic / non-termination). Documented '
             'precondition panics of configuration setters and of Variant.As* on the wrong type are API misuse, not untrusted input, and are '
             'not driven. Coverage-guided fuzzing is not used; inputs are exhaustive small alphabets plus seeded random/mutated strings.',
        technique='TLA+ outcome protocol (Outcome) + TLC trace validation of exhaustive small and random inputs executed under recover and a watchdog; TLC liveness check TokenizerLoopMC',
    ),
    'C19': dict(
        level='ConcurrentEval.tla models processes evaluating one compiled program with private stacks; TLC checks over all schedules of 2 and 3 '
              'processes that every result equals the sequential one, that the program is never assigned and that a step touches only its '
              'own process (a variant with a shared scratch stack violates it - the change the check must catch). Binding: goroutines '
              'evaluating one parsed calculator (own variable and function collections, gated at every variable lookup and function call '
              'through the public interfaces) or one parsed template (gated at every token through the guarded hook VerifRenderStep) are '
              'released in every interleaving for short programs and in random ones otherwise; ConcurrentEvalTrace.tla validates program '
              'order, results = sequential results, and equality of the before/after digest of program, constants, variable values and '
              'function table; sequential repetition histories are checked against a memo table; a third part runs free under the Go race '
              'detector (shared calculator, shared template, separate instances) and any report or mismatch is a rejected event.',
        note='Trusted: TLC, Json module, recorder, the hook VerifRenderStep, the Go race detector as the instrument for data races (the gates '
             'create happens-before edges, hence the separate free-running part). Concurrent mutation of one instance (Set... during '
             'Evaluate) is not claimed by the statement and not driven.',
        technique='TLA+ concurrency model + TLC exploration of all schedules (ConcurrentEvalMC) + replay of interleavings on gated goroutines validated by TLC; Go race detector for the free-running part',
    ),
}

# coverage added after the third round of seeded changes (appended to the level texts)
_ADDED = {
    'C01': 'Multi-event segments keep one calculator alive: hundreds of rejected texts between well-formed expressions, pairs of expressions that differ only in the letter case inside string constants, expressions wrapped in 64..2000 pairs of parentheses; keywords are also spelled with the letters whose upper case is an ASCII letter (long s, dotless i); the token list the lexer delivers is taken from a separate tokenizer.',
    'C02': 'One parser per segment: long-lived parsers see hundreds of rejected inputs (45 levels deep) before sentences, the text a parser composed is parsed again by the same parser; nesting, chains and argument lists of 64..2000; words that only look like keywords (Kelvin sign, long s, dotless i).',
    'C03': 'Scale inputs: 8..2000 arguments, nesting and chains of 8..2000, every count 1..140 of open sections / parentheses / array elements, long templates; every rare code point (range ends, characters aliasing ASCII in their low 8/16 bits, letters with length-changing or ASCII case mappings, Unicode digits and spaces, U+FFFD..U+FFFF, supplementary planes) in 32 contexts through expression, template and all nine tokenizer configurations.',
    'C04': 'Also: the rare code points in 32 contexts, inputs of 63..4097 characters around the powers of two, one token of up to 5000 characters of every class, 35 000 repetitions of a two-token unit (70 001 tokens; Covers is a single pass), four additional tokenizer configurations (overlapping non-Latin ranges, non-Latin CSV separator, non-ASCII quote characters, symbols typed Unknown).',
    'C05': 'Also the four additional tokenizer configurations, reused instances given hundreds of rejected inputs before accepted ones, one parser used through ParseTokens / ParseString / its own composed text, and the default function table changed (remove / add / replace) between evaluations, the fresh instance receiving the same changes.',
    'C06': 'A second pool of 77 "wide" values (int64 extremes, float32 rounding midpoints above 2^53, bit patterns shared by Long and Double, denormals, long decimal numerals as strings) runs through every operator; for numeric operands the recorder computes the same operator with the host language\'s own operator on the native type of the first operand (c06host.go) and the trace spec requires equality of type and canonical payload.',
    'C07': 'VariantConvTrace is a state machine for histories on one manager (hstart / hconv / hend, variable held): every conversion must equal the same conversion by a fresh manager on a fresh copy, and every result handed out must be unchanged at the end - pairs over values whose 64-bit payloads coincide across types, a reused source variant changed in place, histories of 70..1100 conversions.',
    'C08': 'Also: argument lists of 9..257 for every function, date-times in zones other than UTC and with a non-UTC host zone (weekday of the value\'s own calendar day), and rndmany events (30 000 draws from each of 40..400 generator states plus 2 x 20..400 million draws; smallest / largest floor(v * 2^24)).',
    'C09': 'Also: a quote character at every offset 0..300 (1100) of a long quoted field, fields / rows / columns of 63..4097, every rare code point up to U+FFFE in fields, non-Latin data with non-Latin separators and quotes, and the setter fed the list the getter returned.',
    'C10': 'Also: literal text of 63..4097 characters, nesting and node counts of 63..1025, rare code points and unusual white space at the edges of the template and of text runs, names whose case mapping changes the UTF-8 length.',
    'C11': 'Also: rare code points next to line breaks, a line break of every style at the offsets around the multiples of 64 (every offset 0..299 in the thorough tier) read through and walked back, multi-unread by 62..1000 from the end-of-input slot, contents up to 1025 characters. LC is evaluated as one iterative pass.',
    'C12': 'Also: line breaks at the offsets around the multiples of 64 after tokens that read them and put them back, the rare code points, four more tokenizer configurations, one line of 70 000 columns and 70 000 lines (Aligned is one iterative pass carrying the position).',
    'C13': 'Also: rare lexemes (non-Latin words starting with characters whose low byte is a symbol character, Unicode digits, 19+ digit integers, 300-character words / literals / comments) before and after every pool lexeme, sequences of 64..600 lexemes, keyword spellings with long s / dotless i, look-alikes with the Kelvin sign.',
    'C14': 'Also: every rare code point inside the string, a quote character at every offset 0..300 (1100), quote-heavy strings of 100..280 (1100) characters whose encoded length crosses 128/256/512.',
    'C15': 'Also: four more tokenizer configurations (non-ASCII quote characters with decoding, symbols typed Unknown with skip-unknown), runs of 129..1030 dropped tokens, the rare code points, long inputs x option sets.',
    'C16': 'Also: 15..50 sibling symbols under one node (extended and re-typed afterwards), non-Latin and supplementary-plane symbol characters, symbols of 64..300 characters with registered prefixes, 200..1024 registrations between two reads of the same input.',
    'C17': 'Also: probes whose low 8 or 16 bits alias a boundary character, U+FFFD, supplementary planes; histories of 33..300 registrations with newer ranges nested in older ones and conversely.',
    'C18': 'Also: names whose upper-case form has another UTF-8 length or is an ASCII letter (collections compared under the library\'s own upper-case rule), collections of 33..300 entries, expressions with 8..130 distinct variables whose late ones recur, quoted identifiers containing quotes and spaces.',
    'C19': 'Also: Sum / Max over 10+ arguments with string constants and variables, shift counts above 64 held in constants and variables, Concat, template maps with keys equal under Unicode folding but not under lower-casing.',
    'C20': 'Also: the caller appending to / shortening its own list (ListAppend / ListCut) around variants built from lists with spare capacity, unset (nil) elements, strings compared byte for byte (ill-formed UTF-8, 64..4097 bytes), the typed constructors and setters next to NewVariant / SetAsObject.',
}
for _k, _v in _ADDED.items():
    DOC[_k]['level'] += ' ' + _v
DOC['C18']['note'] = DOC['C18']['note'].replace('folding of names done by the recorder with strings.ToLower', "folding of names done by the recorder with the library's own rule (strings.ToUpper)")

# coverage added after the fourth round of seeded changes
_ADDED4 = {
    'C01': 'Constants are identified with their type (a string constant and a number constant with the same spelling occur in one expression); the token list is taken from a separate tokenizer.',
    'C02': 'The program, names and tokens of the previous parser are re-inspected after the next parser has worked (Held.tla), the token list given to ParseTokens after later calls; ParseString texts with comments between the tokens.',
    'C03': 'Scripts of public calls over three calculators and two templates that are alive together (set, evaluate, add/remove variables and functions, clear, automatic variables; directed use-change-use triples and seeded walks) and user functions that evaluate on another calculator; a crash that depends on earlier cases is confirmed by re-running the deterministic driver.',
    'C04': 'For a sample of the cases: the returned list is re-inspected after the same tokenizer tokenized another text, the option-free stream of a tokenizer that ran the same text with options before equals that of a new one, the list and tokenizer of the previous case are re-inspected after the next case; two more tokenizer configurations (expression tokenizer with user symbols, a second quote state of another type), user symbols of 9 and 11 characters.',
    'C05': 'Also: options changed between two inputs and directly after the reader was attached, the same scanner object reset and attached again / tokenized as a whole with a look-ahead token pending, symbols registered after the tokenizer has read their first character, earlier whole-buffer results re-inspected, another operations manager installed between two evaluations of one compiled expression.',
    'C06': 'Histories on one manager with operand objects re-assigned in place (every step equals the same call on a new manager with new operand objects; earlier results re-inspected), operands must be unchanged by a call and the same call repeatable, date-times carried in other zones.',
    'C07': 'Also: Unix-second / millisecond conversions compared on decimal texts of any magnitude, instants inside the repeated / skipped hours of zones with daylight saving (also as the host zone), type codes that name no type.',
    'C08': 'Also: the caller\'s argument list must hold the same objects after the call, a second call after the caller scribbled on the first result must return the same, Date compared with the host calendar for carried components under host zones with daylight saving, calendar sweeps (last days of every month in leap and common years, the weekday of every day of four years).',
    'C09': 'Also: a tokenizer that served another dialect before, rejected setter calls in between, separators / quotes listed twice; the token list re-inspected after the same tokenizer went on to another table.',
    'C10': 'Also: the same map object rendered before with other values and changed back in place.',
    'C11': 'Also: two scanners alive at once and used alternately (event switch, variable other), the five queries in six orders, texts given as bytes that are not well-formed UTF-8.',
    'C12': 'Also the configurations expression-custom and generic-2quotes.',
    'C13': 'Also a third tokenizer: the expression tokenizer with the user-registered symbols -> => -- -= (Lexer.MultiSymbols / CanAbut know them).',
    'C14': 'Also: quote characters that mean something to formatting and pattern functions (% \\ $ { * ^ ` |), one long-lived state per segment with earlier results re-inspected.',
    'C15': 'Also the configurations expression-custom and generic-2quotes (a second quote state of another type; decoding is done by the tokenizer\'s own quote state), quoted }} / }}} / {{ inside mustache tags.',
    'C16': 'Also: symbols containing U+0000, type codes beyond 16 bits and negative, the same symbol registered again with another type, instances of the expression symbol state (symbols registered at construction: Preset) following one another.',
    'C17': 'Also: two reference objects with equal contents, a tokenizer with marker states read character by character with the ends of a new range read immediately before and after its registration, ranges lying entirely above U+FFFE.',
    'C18': 'Also: a list returned by GetAll is re-inspected after later operations, the automatic variables must be separate objects (one changed in place, the others unchanged).',
    'C19': 'Also: the default variables of a template are part of the digest and a rendering from the defaults happens between the renderings with explicit maps.',
    'C20': 'Also: times with a monotonic clock reading, typed nil pointers and other uncommon host kinds.',
}
for _k, _v in _ADDED4.items():
    DOC[_k]['level'] += ' ' + _v

# coverage added after the fifth round of seeded changes
_ADDED5 = {
    'C01': 'Names are compared under the library\'s own (upper-case) rule, with pairs of names that only one of the two case mappings identifies.',
    'C02': 'More ways in: SetOriginalTokens, a parser value that no constructor made, operator words delivered as Symbol tokens in any letter case; a throw-away parser\'s constants are scribbled on by the caller after every segment.',
    'C03': 'Values whose host kind is not the variant\'s native one (int32, uint, uint32) and arrays grown by an indexed write as variable values.',
    'C04': 'TokenizeBufferToStrings / TokenizeStreamToStrings must give the values of the tokens the other entry points give.',
    'C05': 'Also: the constructors that take a text or tokens, default variables replaced / removed / cleared between evaluations (the new calculator is brought to the specified state, not through the same history), CSV dialects that follow one another on one tokenizer (also with separators beyond the configured range).',
    'C06': 'The sign of a zero result is compared as well; host oracles for the unary operators and for pairs of time spans, date-times (any zone, before 1970 with a fraction), booleans and strings; indexing into texts that are not well-formed UTF-8.',
    'C07': 'Values built from int32 / uint / uint32, date-times before 1970 with a fraction.',
    'C08': 'The IEEE and rounding functions are compared with the host\'s math library at every numeric argument (exact halves, negative zero, infinities, 2^52 +- 0.5, int64 extremes); the argument list is a prefix of a longer list of the caller\'s whose rest must stay untouched; Date with arguments that cannot be converted.',
    'C09': 'Also with the unify-numbers option on (there are no numbers in CSV).',
    'C11': 'Also VT / FF and other control characters next to line breaks, multi-unread by extreme negative counts.',
    'C12': 'Also keywords spelled with long s / dotless i across line breaks.',
    'C13': 'The custom expression tokenizer also registers ".." with the Special type (class special, Lexer.SymType).',
    'C14': 'Also quote states that no constructor made.',
    'C15': 'The option setters are called in three different orders.',
    'C16': 'Also the CSV symbol state with further line-end symbols, and symbols starting with - . / read through a tokenizer whose number and comment states meet them first.',
    'C17': 'Also plain values (false, 0, "") as references and states of an uncomparable (function) type.',
    'C18': 'Also: the same object added twice, CreateVariables on a collection of the caller\'s, missing names that contain a percent sign.',
    'C19': 'Race part: the type-safe manager inside a shared calculator, the shared default function table, and per goroutine its own parser, CSV tokenizer, quote states and managers; an evaluation nested inside an evaluation of the same calculator (reent); arrays with null elements as operands of IN.',
    'C20': 'Also a variant assigned to / set from itself and floating-point NaN in the equality matrix.',
}
for _k, _v in _ADDED5.items():
    DOC[_k]['level'] += ' ' + _v

# sixth session: specification -> code replay (spec/*Gen.tla), slice-heap model
_ADDED6 = {
    'C11': 'Specification -> code: ScannerGen.tla runs the abstract Scanner with a history variable; TLC prints the history of every transition of its complete state graph (contents up to 4 / 6 over {x, LF, CR}; VIEW hides the history) and random behaviours of depth 40 (-simulate, seeded), each step with the observation the model predicts; verifdrv steps the real scanner through them and ScannerTrace / Held.ExpFails reject a step the implementation does not follow. Code -> specification from inside the library: a guarded call-tracing hook (StringScanner.verifEvent) logs every state-changing call of every scanner while the repository\'s own test-suite (built with the tag) and the tokenizers driven by the C13 / C09 drivers run; the lines are grouped by scanner instance and validated by ScannerTrace.',
    'C17': 'Specification -> code: CharMapGen.tla explores the graph of distinct map VALUES (the function probe -> reference is the VIEW) reachable within 2 / 3 registrations and prints the history of every operation from every such value, with the predicted look-ups, for the map itself, a tokenizer\'s state table (thorough) and the word class; plus random histories of 12 registrations.',
    'C16': 'Specification -> code: SymbolTrieGen.tla explores (symbol table, input, cursor) for up to two registrations of symbols over {a,b}, each under one of two types, with inputs attached at any time, and prints the history of every registration and every read with the predicted type, text and cursor; plus random behaviours of depth 30 with up to 8 symbols.',
    'C18': 'Specification -> code (clause b): CollectionsGen.tla explores every list of up to 3 / 4 entries over {a, A, b} (identities up to renaming are the VIEW) and prints the history of every operation - queries included - from every list, with the predicted list and result, for variable and function collections; plus random behaviours of depth 40.',
    'C19': 'Specification -> code: ConcurrentEvalGen.tla prints every schedule of the model for three programs (2 and 3 evaluations), projected onto the accesses at which the recorder can hold a goroutine; the gated goroutines are released in those orders.',
    'C20': 'Specification -> code: VariantHeapGen.tla explores the value model for up to 4 / 5 operations on three slots and the caller\'s list and prints the history of every transition with the type, payload and elements predicted for every slot. GoSlice.tla + VariantHeapImpl.tla model Variant.go\'s array part over a heap of backing arrays with ANY capacity chosen on growth; VariantHeapImplMC checks that it refines the value model for all sequences of 4 / 5 operations (the variant "orig" - clone/assign copying the slice header - is refuted in 4 steps).',
}
for _k, _v in _ADDED6.items():
    DOC[_k]['level'] += ' ' + _v
    DOC[_k]['technique'] += '; replay of TLC-generated behaviours of the abstract model (transition cover + simulation) on the real code'
DOC['C20']['technique'] += '; TLC refinement check of a slice-heap model (VariantHeapImplMC)'

# coverage added after the seventh round of seeded changes and the allowed-behaviour changes (DESIGN 11.9)
_ADDED7 = {
    'C01': 'The recorder makes the k-th application report an error (with or without a value next to it): the evaluation stops there and fails. Integer literals are written with redundant leading zeros in one of two renderings of a tree (two-digit constants).',
    'C02': 'Integer constants with a redundant leading zero, Keyword-typed tokens whose spelling is no keyword, every ordered pair of operator forms (multi-token forms included) in a chain through ParseTokens and ParseString.',
    'C03': 'Token lists of every small shape (empty, white space only, braces without names ...) handed to the expression and the mustache parser through ParseTokens and SetOriginalTokens.',
    'C04': 'A stream handed over after the caller has read part of it (TokenizeStream / TokenizeStreamToStrings); white space beyond ASCII enabled in a whitespace state; registered symbols typed Quoted.',
    'C05': 'Option setters called again with unchanged values between a has-next query and the fetch; exponent markers without digits before well-formed exponents on one instance; a reused mustache parser.',
    'C06': 'Host values that are uncomparable only through a component (a struct with a slice field, an array of slices); with a text as first operand the second operand\'s text is the manager\'s own conversion; a floating-point NaN / infinity / 2^63-and-beyond that has to become an integer may be an error.',
    'C07': 'A floating-point NaN / infinity / 2^63-and-beyond converted to an integer type may be an error (the host defines no value).',
    'C08': 'Contains against the host\'s byte-wise substring test (texts that are not well-formed UTF-8); E / Pi / Rnd in either floating-point type, "a fixed result type" checked as such (state variable rt); the function table created before the host zone is set.',
    'C09': 'The row-separator property set before the other setters; separators and quote symbols handed over as two views into one array and in one slice that is changed and handed over again.',
    'C10': 'Names with hyphens; values that are not well-formed UTF-8 rendered byte for byte; the same text set a second time gets the same verdict; the escape of the solidus is optional (JSON).',
    'C11': 'Lines of more than 2^16 columns (readmany: n reads as one step).',
    'C14': 'Quote characters from both halves of Latin-1, the rest of the BMP and a supplementary plane for all three states.',
    'C15': 'Registered symbols typed Quoted (a quote token begins with one of the tokenizer\'s quote characters); a token the quote state read may carry its decoded value whatever type the state gave it.',
    'C16': 'Symbols given as bytes that are not well-formed UTF-8.',
    'C17': 'Ranges above, at and across U+FFFE registered in every order of two and sampled three (map, word class, tokenizer); target tokmid: the character states are changed while one reader stays attached.',
    'C18': 'Every third names case starts from an empty default collection; names reported by a parser that parsed something else before (and was cleared every other time); names made of other names joined by a separator, names that differ only in non-letters, missing variables named like default functions.',
    'C19': 'A result overwritten in place by its caller shows in no later evaluation (scrib); results that are the caller\'s own values (date-times in another zone, array elements); every one-argument function over a Double variable; function names in other letter cases with the default table in the digest.',
    'C20': 'A variant set to the very list it handed out; arrays shortened by SetLength, then copied, both growing (a length below the current one is left open: unchanged or cut); the two zeros set over each other with the typed setters; array elements holding uncomparable host values in the equality matrix.',
}
for _k, _v in _ADDED7.items():
    DOC[_k]['level'] += ' ' + _v
