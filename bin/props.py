"""Registry of property checks: which driver part, which TLA+ modules, which MC configs, which corruptions
the binding self-test applies. Used by bin/check."""


def _bump(path, delta=1):
    def fn(e):
        cur = e
        ps = path.split('.')
        for p in ps[:-1]:
            if not isinstance(cur, dict) or p not in cur:
                return None
            cur = cur[p]
        if not isinstance(cur, dict) or ps[-1] not in cur or not isinstance(cur[ps[-1]], int):
            return None
        cur[ps[-1]] += delta
        return e
    return fn


PROPS = {
    'C11': dict(
        tv=dict(module='ScannerTrace', cfg='ScannerTrace.cfg'),
        mc=[dict(module='ScannerMC', cfg={'quick': 'ScannerMC.quick.cfg', 'thorough': 'ScannerMC.thorough.cfg'})],
        corrupt=[('obs.col+1', _bump('obs.col')), ('obs.pline+1', _bump('obs.pline')), ('ret+1', _bump('ret'))],
        exhaustive_part=True,
        assumptions=['guarded hook StringScanner.VerifCursor returns position+1 (io/verif_hooks.go)'],
    ),
}

NOT_APPLICABLE = {}

DOC = {
    'C11': dict(
        level='Scanner.tla specifies the cursor (position k over the characters plus one end-of-input slot; line/column = forward '
              'scan LC(content,k)); ScannerMC.tla model-checks with TLC, for every content up to the bound over {x,LF,CR} and call '
              'histories of any length, that the implementation-shaped model ScannerImpl refines it. The real scanner is bound by '
              'trace validation: the driver explores the real object\'s own reachable state graph for every content up to the bound '
              '(every operation from every reachable state) plus random walks, and ScannerTrace.tla checks every return value and all '
              'seven observers after every call.',
        note='Trusted: TLC, the Json module, the recorder, the guarded hook VerifCursor (position+1). Exhaustive only up to the stated '
             'content length; longer contents are sampled by seeded random walks.',
        technique='TLA+ spec + TLC exhaustive refinement check (ScannerMC) + TLC trace validation of the real scanner\'s explored state graph (ScannerTrace)',
    ),
}
