------------------------------- MODULE Scanner -------------------------------
(***************************************************************************)
(* Abstract specification of io/StringScanner: a cursor over the code      *)
(* points of `content` plus ONE end-of-input slot.                         *)
(*                                                                         *)
(*   k  = number of slots consumed so far, 0 .. Len(content)+1             *)
(*        (slot i <= Len is character i, slot Len+1 is end of input).      *)
(*                                                                         *)
(* Line/column are *functions of the position only*: LC(content,k) is the  *)
(* result of a fresh forward scan that consumes k slots.  This is the      *)
(* statement of property C11; it is also the position oracle of C12.       *)
(***************************************************************************)
EXTENDS ScanLC

VARIABLES content, k
svars == <<content, k>>

TypeOK == k \in 0 .. Len(content) + 1

\* ---- observers as functions of (content, position) ----
PeekOf(s, i)       == CharAt(s, i + 1)
LineOf(s, i)       == LC(s, i)[1]
ColumnOf(s, i)     == LC(s, i)[2]
\* "the peeked line and column are those reported after the next read"
KNextOf(s, i)      == Min(i + 1, Len(s) + 1)
PeekLineOf(s, i)   == LC(s, KNextOf(s, i))[1]
PeekColumnOf(s, i) == LC(s, KNextOf(s, i))[2]

\* ---- the same observers of the current state (they never change it) ----
Peek       == PeekOf(content, k)
Line       == LineOf(content, k)
Column     == ColumnOf(content, k)
KNext      == KNextOf(content, k)
PeekLine   == PeekLineOf(content, k)
PeekColumn == PeekColumnOf(content, k)

\* ---- actions ----
SInit(c)  == content = c /\ k = 0
ReadRet   == CharAt(content, k + 1)          \* value returned by Read in the current state
Read      == k' = KNext /\ UNCHANGED content
Unread    == k' = Max(k - 1, 0) /\ UNCHANGED content
UnreadMany(n) == k' = Max(k - (IF n > 0 THEN n ELSE 0), 0) /\ UNCHANGED content
Reset     == k' = 0 /\ UNCHANGED content
=============================================================================
