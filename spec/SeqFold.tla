------------------------------- MODULE SeqFold -------------------------------
(***************************************************************************)
(* Left fold over a sequence, exported under one name.  The community      *)
(* module SequencesExt is instantiated LOCALly so that none of its other   *)
(* names (Min, Max, ToSet, Contains, ...) reach the modules that extend    *)
(* this one; TLC evaluates FoldLeft iteratively (Java override), which     *)
(* lets the trace specifications walk inputs of any length in one pass.    *)
(***************************************************************************)
LOCAL INSTANCE SequencesExt
FoldL(op(_, _), base, seq) == FoldLeft(op, base, seq)
=============================================================================
