-------------------------- MODULE VariantHeapImplMC --------------------------
(***************************************************************************)
(* Refinement check VariantHeapImpl => VariantHeap: both run in lock step  *)
(* over every operation sequence up to MaxOps on three variant slots and   *)
(* the caller's list; after every step each slot of the slice-heap model   *)
(* must show exactly the type and the element sequence the value model     *)
(* says, and the caller's list exactly its own elements - for EVERY        *)
(* capacity the runtime may choose on growth.  With Variant = "orig" TLC   *)
(* finds the aliasing write (copy, then an indexed write inside the shared *)
(* array) within three operations; with "fixed" the refinement holds.      *)
(***************************************************************************)
EXTENDS VariantHeapImpl
CONSTANT MaxOps
VARIABLES vs, ls, pads, mut, n
A == INSTANCE VariantHeap
Slots == {1, 2, 3}
Elms == {"e1", "e2"}
vars == <<heap, slot, clist, npad, vs, ls, pads, mut, n>>
Init == IInit(Slots) /\ A!HInit(Slots, {"L"}) /\ n = 0
Step ==
  /\ n < MaxOps /\ n' = n + 1
  /\ \/ \E v \in Slots, p \in {"1", "x"} : ISetScalar(v, "String", p) /\ A!SetScalar(v, "String", p)
     \/ \E v \in Slots : IFromList(v) /\ A!FromList(v, "L")
     \/ \E v \in Slots, i \in 0 .. 2, e \in Elms : ISetByIndex(v, i, e) /\ A!SetByIndex(v, i, e)
     \/ \E v \in Slots : ISetLength(v, 2) /\ A!SetLength(v, 2)
     \/ \E v, w \in Slots : v # w /\ ICopyTo(w, v) /\ A!CopyTo(w, v)
     \/ \E v \in Slots : IClear(v) /\ A!ClearV(v)
     \/ \E s \in {<<>>, <<"e1">>, <<"e1", "e2">>} : \E c \in {Len(s), Len(s) + 2} : IListSet(s, c) /\ A!ListSet("L", s)
     \/ \E i \in 0 .. 1, e \in Elms : IListPut(i, e) /\ A!ListPut("L", i, e)
     \/ \E e \in Elms : clist[2] < 3 /\ IListAppend(e) /\ A!ListAppend("L", e)
     \/ \E k \in 0 .. 1 : IListCut(k) /\ A!ListCut("L", k)
Spec == Init /\ [][Step]_vars
\* the two models number their growth elements alike (pad1, pad2, ...) as long as they agree; compare what is seen
Same(x, y) == Len(x) = Len(y) /\ \A i \in 1 .. Len(x) : x[i] = y[i]
Refines ==
  /\ \A v \in Slots : slot[v][1] = vs[v][1]
  /\ \A v \in Slots : vs[v][1] = "Array" => Same(IContents(v), vs[v][2])
  /\ \A v \in Slots : vs[v][1] \notin {"Array", "Null"} => slot[v][2] = vs[v][2]
  /\ Same(IList, ls["L"])
=============================================================================
