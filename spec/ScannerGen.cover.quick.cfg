SPECIFICATION Spec
CONSTANTS
  MaxLen = 4
  Depth = 0
  Mode = "cover"
VIEW View
CHECK_DEADLOCK FALSE
