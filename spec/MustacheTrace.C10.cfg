SPECIFICATION Spec
CONSTANT Check = "C10"
POSTCONDITION Accepted
CHECK_DEADLOCK FALSE
