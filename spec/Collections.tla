------------------------------ MODULE Collections ------------------------------
(***************************************************************************)
(* List model of VariableCollection / FunctionCollection (C18): an ordered *)
(* list of entries <<name, key, id, isnull>> (key = name folded for        *)
(* case-insensitive comparison, id = identity of the entry object, isnull  *)
(* = its value is empty; functions have isnull = FALSE).  Names resolve    *)
(* case-insensitively with the FIRST entry added winning.                  *)
(***************************************************************************)
EXTENDS Integers, Sequences
VARIABLE items
CInit == items = <<>>
Hits(k) == {i \in 1 .. Len(items) : items[i][2] = k}
First(S) == CHOOSE x \in S : \A y \in S : x <= y
FindIndex(k) == IF Hits(k) = {} THEN -1 ELSE First(Hits(k)) - 1          \* 0-based, -1 = absent
FindId(k) == IF Hits(k) = {} THEN "none" ELSE items[First(Hits(k))][3]
Without(i) == SubSeq(items, 1, i - 1) \o SubSeq(items, i + 1, Len(items)) \* 1-based i

Add(n, k, id, nul) == items' = Append(items, <<n, k, id, nul>>)
Locate(n, k, id)   == items' = IF Hits(k) = {} THEN Append(items, <<n, k, id, TRUE>>) ELSE items
Remove(i0)         == items' = IF i0 >= 0 /\ i0 < Len(items) THEN Without(i0 + 1) ELSE items
RemoveByName(k)    == items' = IF Hits(k) = {} THEN items ELSE Without(First(Hits(k)))
Clear              == items' = <<>>
ClearValues        == items' = [i \in 1 .. Len(items) |-> <<items[i][1], items[i][2], items[i][3], TRUE>>]
\* the value belongs to the entry OBJECT: an object that was added twice shows it at both of its positions
SetValue(k)        == items' = [i \in 1 .. Len(items) |->
                           IF Hits(k) # {} /\ items[i][3] = items[First(Hits(k))][3] THEN <<items[i][1], items[i][2], items[i][3], FALSE>> ELSE items[i]]
\* the object at position i0 is added once more: a collection is a list, the object then occurs twice
AddAgain(i0)       == items' = IF i0 >= 0 /\ i0 < Len(items) THEN Append(items, items[i0 + 1]) ELSE items
=============================================================================
