------------------------------- MODULE LexerMC -------------------------------
(***************************************************************************)
(* Design-level model check of the lexical specifications, for every input *)
(* up to MaxLen over the alphabet of state-selecting characters and every  *)
(* option set of OptSets:                                                  *)
(*  C04  the reference token stream is lossless;                           *)
(*  C15  the post-processed stream satisfies the option relation;          *)
(*  C12  with positions computed by the forward scan, the position clause; *)
(*  C13  (LexemeMC below) a separable sequence of well-formed lexemes is   *)
(*       tokenized back into exactly those lexemes with their classes.     *)
(***************************************************************************)
EXTENDS RefLexer, TLC
CONSTANTS MaxLen, Kind
VARIABLE input
AlphaG == {97, 49, 46, 45, 39, 60, 61, 35, 32, 10, 1046, 128512}
AlphaE == {97, 49, 46, 45, 47, 42, 39, 34, 60, 61, 101, 32, 128512}
Alpha == IF Kind = "generic" THEN AlphaG ELSE AlphaE
RECURSIVE Strs(_)
Strs(n) == IF n = 0 THEN {<<>>} ELSE LET S == Strs(n - 1) IN S \cup {Append(x, c) : x \in {t \in S : Len(t) = n - 1}, c \in Alpha}
OptSets == {{}, {"skipUnknown", "skipWhitespaces", "skipComments", "skipEof", "mergeWhitespaces", "unifyNumbers", "decodeStrings"},
            {"skipWhitespaces", "skipComments"}, {"skipUnknown", "mergeWhitespaces"}, {"decodeStrings", "unifyNumbers", "skipEof"}}
Init == input \in Strs(MaxLen)
Next == UNCHANGED input
Spec == Init /\ [][Next]_input
Base == WithPos(input, RefTokens(Kind, input), 1, 0)
LosslessInv == Lossless(input, Base)
OptionInv == \A o \in OptSets : OptionFails(o, Kind, input, Base, Post(o, Kind, Base, 1, TUnknown)) = ""
PositionInv == \A o \in OptSets : PositionFails(o, Kind, input, Base, Post(o, Kind, Base, 1, TUnknown)) = ""
=============================================================================
