SPECIFICATION Spec
CONSTANT Check = "C15"
POSTCONDITION Accepted
CHECK_DEADLOCK FALSE
