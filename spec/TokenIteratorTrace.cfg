SPECIFICATION Spec
POSTCONDITION Accepted
INVARIANT TypeOK
CHECK_DEADLOCK FALSE
