---------------------------- MODULE CollectionsTrace ----------------------------
(***************************************************************************)
(* Trace validation of the real VariableCollection / FunctionCollection    *)
(* against the list model.  Every event carries the operation, its         *)
(* arguments (names with their folded key), its result, and the complete   *)
(* list after it: "list":[[name,key,id,isnull]..].                         *)
(***************************************************************************)
EXTENDS Collections, Json, TLC, Held
VARIABLE l
Trace == ndJsonDeserialize("trace.ndjson")
F(ok, name) == IF ok THEN "" ELSE name \o "; "

Apply(e) ==
  CASE e.op = "new"          -> items' = <<>>
    [] e.op = "add"          -> Add(e.name, e.key, e.id, e.isnull)
    [] e.op = "locate"       -> Locate(e.name, e.key, e.ret)
    [] e.op = "remove"       -> Remove(e.index)
    [] e.op = "addagain"     -> AddAgain(e.index)
    [] e.op = "removebyname" -> RemoveByName(e.key)
    [] e.op = "clear"        -> Clear
    [] e.op = "clearvalues"  -> ClearValues
    [] e.op = "setvalue"     -> SetValue(e.key)
    [] OTHER                 -> UNCHANGED items

RetFails(e) ==   \* evaluated on the state BEFORE the call
  CASE e.op = "findindex" -> F(e.ret = FindIndex(e.key), "find-index does not return the first entry with that name (case-insensitively)")
    [] e.op = "find"      -> F(e.ret = FindId(e.key), "find does not return the first entry with that name (case-insensitively)")
    [] e.op = "locate"    -> F(Hits(e.key) = {} \/ e.ret = FindId(e.key), "locate did not return the existing entry")
    [] e.op = "length"    -> F(e.ret = Len(items), "length")
    [] e.op = "get"       -> F(IF e.index < 0 \/ e.index >= Len(items) THEN e.ret = "none" ELSE e.ret = items[e.index + 1][3], "get(index) is not the entry at that position")
    [] OTHER              -> ""

Init == l = 1 /\ items = <<>>
Step ==
  /\ l <= Len(Trace)
  /\ l' = l + 1
  /\ LET e == Trace[l] IN
     /\ Apply(e)
     /\ LET f == RetFails(e) \o F(e.list = items', "the collection is not the ordered list the operations describe") IN
        Report(l, f, Trace[l])
Spec == Init /\ [][Step]_<<l, items>>
Accepted == TLCGet("stats").diameter - 1 = Len(Trace)
=============================================================================
