--------------------------- MODULE VariantConvTrace ---------------------------
(***************************************************************************)
(* Trace validation for C07 on the conversions of the two real managers.   *)
(*  {"op":"conv","mgr":M,"v":V,"to":T,"outcome":O,"r":V}                    *)
(*  {"op":"both","v":V,"to":T,"so":O,"sr":V,"uo":O,"ur":V}  the same       *)
(*        request to the type-safe (s) and the type-unsafe (u) manager      *)
(*  {"op":"chain","v":V,"via":T,"o1":O,"r1":V,"o2":O,"r2":V,"le53":B,       *)
(*   "integral":B}   type-unsafe Convert(Convert(v, via), type of v);       *)
(*        le53: |v| <= 2^53 (numeric v), integral: v has no fraction        *)
(* Clauses: (a) success => requested type, or the unchanged value for       *)
(* Object / own type; (b) the listed widening conversions round-trip;       *)
(* (c) the type-safe manager allows exactly the numeric widenings;          *)
(* (d) where it succeeds it agrees with the type-unsafe manager; plus the   *)
(* conversion formulas on the exactly modelled domain (units: TimeSpan in   *)
(* milliseconds, DateTime in Unix seconds).                                 *)
(***************************************************************************)
EXTENDS VariantOps, Json, TLC, Held
VARIABLES l, held      \* held: type and payload of every result the long-lived manager of the current history has handed out
Trace == ndJsonDeserialize("trace.ndjson")
F(ok, name) == IF ok THEN "" ELSE name \o "; "

\* decimal numerals
RECURSIVE DigitsVal(_, _)
DigitsVal(c, acc) == IF c = <<>> THEN acc ELSE DigitsVal(Tail(c), 10 * acc + (Head(c) - 48))
IsNumeral(c) == LET d == IF c # <<>> /\ c[1] = 45 THEN Tail(c) ELSE c IN
                Len(d) >= 1 /\ Len(d) <= 6 /\ \A i \in 1 .. Len(d) : d[i] >= 48 /\ d[i] <= 57
NumeralVal(c) == IF c[1] = 45 THEN -DigitsVal(Tail(c), 0) ELSE DigitsVal(c, 0)

\* formula clauses on the exactly modelled domain
FormulaFails(v, to, r) ==
  IF Exact(v) /\ v.t \in Numeric \cup {"Boolean", "DateTime", "TimeSpan"}
  THEN CASE to \in Integral -> F(r.k = "int" /\ 8 * r.n = ConvNum8(v, to)[2], "conversion to an integer type is not the truncated value (DateTime in Unix seconds, TimeSpan in milliseconds)")
         [] to \in {"Float", "Double"} -> F(r.k = "frac" /\ r.n = Num8(v), "conversion to a floating-point type changed the value")
         [] to = "TimeSpan" /\ v.t \in Integral -> F(r.k = "int" /\ r.n = v.n, "an integer converted to a time span is not that many milliseconds")
         [] to = "DateTime" /\ v.t \in Integral -> F(r.k = "int" /\ r.n = v.n, "an integer converted to a date-time is not that many Unix seconds")
         [] to = "Boolean" /\ v.t \in Numeric -> F(r.k = "bool" /\ (r.n = 1) = (Num8(v) # 0), "a number converted to Boolean is not 'non-zero'")
         [] to = "String" /\ v.t \in Integral \cup {"Boolean"} -> F(r.c = v.c, "an integer / boolean converted to String is not its decimal / true-false text")
         [] OTHER -> ""
  ELSE IF v.t = "String" /\ IsNumeral(v.c) /\ to \in Integral
  THEN F(r.k = "int" /\ r.n = NumeralVal(v.c), "a decimal numeral converted to an integer type has the wrong value")
  ELSE IF v.t = "String" /\ to = "Boolean" /\ v.c \in {<<116, 114, 117, 101>>, <<102, 97, 108, 115, 101>>}
  THEN F(r.k = "bool" /\ (r.n = 1) = (v.c = <<116, 114, 117, 101>>), "'true'/'false' converted to Boolean has the wrong value")
  ELSE ""

\* unit clauses on the decimal texts (any magnitude): DateTime <-> integer = Unix seconds, TimeSpan <-> integer = milliseconds
UnitFails(v, to, r) ==
  IF v.t = "DateTime" /\ to \in Integral THEN F(r.s = v.u, "a date-time converted to an integer type is not its Unix time in seconds")
  ELSE IF v.t = "TimeSpan" /\ to \in Integral /\ v.u # "" THEN F(r.s = v.u, "a time span converted to an integer type is not its length in milliseconds")
  ELSE IF v.t \in Integral /\ to = "DateTime" THEN F(r.u = v.s, "an integer converted to a date-time is not that many Unix seconds")
  ELSE ""
ConvFails(e) ==
  IF e.outcome = "panic" THEN "the conversion crashed; "
  ELSE IF e.outcome \in {"nil", "both"} THEN "the conversion returned neither exactly a value nor exactly an error; "
  ELSE IF ~ConvOK(e.mgr, e.v.t, e.to)
       \* (the type-safe manager must refuse; which further conversions the type-unsafe manager offers is not stated - if it
       \* delivers something, it is a value of the requested type)
       THEN (IF e.mgr = "safe" THEN F(e.outcome = "error", "the type-safe manager performed a conversion other than a numeric widening")
             ELSE F(e.outcome = "error" \/ (e.outcome = "value" /\ e.r.t = e.to), "a conversion the manager does not offer yielded neither an error nor a value of the requested type"))
  \* a floating-point value without an integer part that 64 bits can hold (NaN, an infinity, 2^63 and beyond): the host language
  \* defines no result for converting it to an integer type, so an error is as good as a value
  ELSE IF e.outcome = "error" /\ "vfits" \in DOMAIN e /\ ~e.vfits /\ e.v.t \in {"Float", "Double"} /\ e.to \in {"Integer", "Long", "TimeSpan", "DateTime"} THEN ""
  \* a text that spells no number: what its conversion to a number is (zero, an error) is not stated
  ELSE IF e.outcome = "error" /\ "vfits" \in DOMAIN e /\ ~e.vfits /\ e.v.t = "String" /\ e.to \in {"Integer", "Long", "Float", "Double", "TimeSpan", "DateTime"} THEN ""
  ELSE F(e.outcome = "value", "a supported conversion yielded an error")
    \o (IF e.outcome # "value" THEN ""
        ELSE IF ConvIdentity(e.v.t, e.to) THEN F(e.r.t = e.v.t /\ e.r.s = e.v.s, "requesting Object or the value's own type did not return the unchanged value")
        ELSE F(e.r.t = e.to, "the result does not have the requested type") \o (IF e.r.t = e.to /\ e.to # "Null" THEN FormulaFails(e.v, e.to, e.r) \o UnitFails(e.v, e.to, e.r) ELSE ""))

BothFails(e) ==
  IF e.so = "panic" \/ e.uo = "panic" THEN "a conversion crashed; "
  ELSE IF e.so # "value" THEN ""
  ELSE F(e.uo = "value" /\ e.ur.t = e.sr.t /\ e.ur.s = e.sr.s, "where the type-safe manager converts, the type-unsafe manager gives a different result")

\* does the statement promise a lossless round trip v -> via -> type of v ?
RoundTrips(e) ==
  LET f == e.v.t  via == e.via  v == e.v IN
  \/ f \in Integral /\ via \in Integral
  \/ f \in Integral /\ via = "Double" /\ e.le53
  \/ f = "Double" /\ via = "Long" /\ e.le53 /\ e.integral
  \/ f = "Float" /\ via = "Double"
  \/ f = "Boolean" /\ via \in Numeric
  \/ f \in Numeric /\ via = "Boolean" /\ Exact(v) /\ Num8(v) \in {0, 8}
  \/ f \in Integral /\ via = "TimeSpan" /\ v.k = "int"
  \/ f = "TimeSpan" /\ via \in Integral /\ (v.k = "int" \/ v.w)        \* whole milliseconds, any magnitude
  \/ f \in Integral /\ via = "DateTime" /\ e.le53
  \/ f = "DateTime" /\ via \in Integral /\ (v.k = "int" \/ v.w)        \* whole seconds, any magnitude
  \/ f \in Integral \cup {"Boolean"} /\ via = "String"
ChainFails(e) ==
  IF e.o1 = "panic" \/ e.o2 = "panic" THEN "a conversion crashed; "
  ELSE IF ~RoundTrips(e) THEN ""
  ELSE F(e.o1 = "value" /\ e.o2 = "value", "a widening conversion or its way back is not available")
    \o (IF e.o1 = "value" /\ e.o2 = "value" THEN F(e.r2.t = e.v.t /\ e.r2.s = e.v.s, "a widening conversion does not round-trip to the original value") ELSE "")

AliasFails(e) ==
  IF e.o1 = "panic" \/ e.o2 = "panic" THEN "a conversion crashed; "
  ELSE IF ~e.scribbled THEN ""
  ELSE F(e.o2 = e.o1 /\ e.r2.t = e.r1.t /\ e.r2.s = e.r1.s, "a conversion hands out a shared result: what a caller does to one result changes later results")
\* History on one manager (hstart, hconv*, hend): a conversion is a function of its argument alone - it equals what a fresh
\* manager returns for a fresh copy of the value - and a result, once handed out, is a value of its own that no later call changes.
HConvFails(e) ==
  IF e.outcome = "panic" THEN "the conversion crashed; "
  ELSE F(e.outcome = e.fo /\ (e.outcome = "value" => e.r.t = e.fr.t /\ e.r.s = e.fr.s),
         "a conversion on a long-lived manager differs from the same conversion on a fresh manager (it depends on earlier calls or on the identity of the argument)")
HEndFails(e, h) == F(e.now = h, "a result handed out earlier was changed by later conversions on the same manager")
Fails(e) == CASE e.op = "hconv" -> HConvFails(e) [] e.op = "hend" -> HEndFails(e, held) [] e.op = "alias" -> AliasFails(e) [] e.op = "conv" -> ConvFails(e) [] e.op = "both" -> BothFails(e) [] e.op = "chain" -> ChainFails(e) [] OTHER -> ""
Init == l = 1 /\ held = <<>>
Next ==
  /\ l <= Len(Trace)
  /\ l' = l + 1
  /\ held' = LET e == Trace[l] IN
             CASE e.op = "hstart" -> <<>>
               [] e.op = "hconv" -> IF e.keep THEN Append(held, <<e.r.t, e.r.s>>) ELSE held
               [] OTHER -> held
  /\ LET f == Fails(Trace[l]) IN Report(l, f, Trace[l])
Spec == Init /\ [][Next]_<<l, held>>
Accepted == TLCGet("stats").diameter - 1 = Len(Trace)
=============================================================================
