SPECIFICATION Spec
CONSTANTS
  MaxRows = 2
  MaxCols = 1
  MaxField = 2
INVARIANT RoundTrip
CHECK_DEADLOCK FALSE
