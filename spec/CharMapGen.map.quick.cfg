SPECIFICATION Spec
CONSTANTS
  Depth = 2
  Mode = "cover"
  Target = "map"
VIEW View
CHECK_DEADLOCK FALSE
