SPECIFICATION Spec
CONSTANTS
  MaxSym = 2
  MaxIn = 2
  MaxRegs = 3
  Variant = "orig"
  Reads = TRUE
INVARIANTS Refines
CHECK_DEADLOCK FALSE
