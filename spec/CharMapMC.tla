------------------------------ MODULE CharMapMC ------------------------------
(***************************************************************************)
(* Exhaustive refinement check CharMapImpl => CharMap for ALL histories of *)
(* AddInterval / AddDefaultInterval / Clear up to Depth, endpoints from    *)
(* the boundary set {0,'a',0xFF,0x100,0x101,0x2000,0xFFFE}, references     *)
(* {A, B, none}; after every operation every probe (endpoints and their    *)
(* neighbours) must look up the same reference in both.                    *)
(***************************************************************************)
EXTENDS Integers, Sequences, FiniteSets, TLC
CONSTANTS Depth, Variant
Ends   == {0, 97, 255, 256, 257, 8192, 65534}
Probes == {p \in UNION {{e - 1, e, e + 1} : e \in Ends} : p >= 0}
LowProbes == {p \in Probes : p < 256}
Refs   == {"A", "B", "nil"}

VARIABLES regs, table, intervals, n
A == INSTANCE CharMap
I == INSTANCE CharMapImpl

vars == <<regs, table, intervals, n>>
Init == A!CInit /\ I!IInit /\ n = 0
Next == /\ n < Depth /\ n' = n + 1
        /\ \/ \E lo \in Ends, hi \in Ends, r \in Refs :
                 lo <= hi /\ A!AddInterval(lo, hi, r) /\ I!IAddInterval(lo, hi, r)
           \/ \E r \in Refs : A!AddDefault(r) /\ I!IAddDefault(r)
           \/ A!Clear /\ I!IClear
Spec == Init /\ [][Next]_vars
Refines == \A p \in Probes : I!ILookup(p) = A!Lookup(p)
\* the clauses of C17 on the abstract map itself
LatestWins == regs # <<>> =>
   LET r == regs[Len(regs)] IN \A p \in Probes : A!Covers(r, p) => A!Lookup(p) = r[3]
ClearedIsEmpty == regs = <<>> => \A p \in Probes : A!Lookup(p) = "nil"
=============================================================================
