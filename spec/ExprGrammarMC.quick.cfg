SPECIFICATION Spec
CONSTANTS
  MaxLen = 4
  Variant = "fixed"
INVARIANTS Refines WellFormedProgram ParenNeutral
CHECK_DEADLOCK FALSE
