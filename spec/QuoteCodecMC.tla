---------------------------- MODULE QuoteCodecMC ----------------------------
(***************************************************************************)
(* Model-checks the codec laws of C14 on the specification's own operators *)
(* for every string up to MaxLen over {q, other quote, a, U+00E9, U+20AC,  *)
(* U+1F600, space, LF} and both quote characters: one initial state per    *)
(* (state, string, quote); the laws are invariants.                        *)
(***************************************************************************)
EXTENDS QuoteCodec, TLC
CONSTANT MaxLen
VARIABLES st, s, q
Alpha == {39, 34, 97, 233, 8364, 128512, 32, 10}
RECURSIVE Strs(_)
Strs(n) == IF n = 0 THEN {<<>>}
           ELSE LET S == Strs(n - 1) IN S \cup {Append(x, c) : x \in {t \in S : Len(t) = n - 1}, c \in Alpha}
Init == st \in {"generic", "expression", "csv"} /\ s \in Strs(MaxLen) /\ q \in {39, 34}
Next == UNCHANGED <<st, s, q>>
Spec == Init /\ [][Next]_<<st, s, q>>
RoundTrip == Decode(st, Encode(st, s, q), q) = s
\* decode is total and idempotent on anything that is not wrapped
DecodeTotal == Decode(st, s, q) \in Seq(Alpha)
\* the encoding followed by any tail that does not start with the quote is read back as exactly the encoding
Tails == {<<>>, <<32, 97>>, <<44>>, <<10, q>>}
ReadBack == st # "generic" =>
   \A t \in Tails : ReadQuoted(Encode(st, s, q) \o t, 0) = Encode(st, s, q)
=============================================================================
