----------------------------- MODULE VariantHeapMC -----------------------------
(***************************************************************************)
(* All operation sequences up to MaxOps over three variant slots and one   *)
(* caller list: the independence clauses of C20 as action properties of    *)
(* the value model (an operation on one slot or on the caller's list       *)
(* changes no other slot), and "a clone equals its original".              *)
(***************************************************************************)
EXTENDS VariantHeap, TLC
CONSTANT MaxOps
VARIABLES n, last
Slots == {1, 2, 3}
Elems == {"e1", "e2"}
Init == HInit(Slots, {"L"}) /\ n = 0 /\ last = <<"init", 0, 0>>
Step == /\ n < MaxOps /\ n' = n + 1
        /\ \/ \E v \in Slots, p \in {"1", "x"} : SetScalar(v, "String", p) /\ last' = <<"set", v, v>>
           \/ \E v \in Slots : FromList(v, "L") /\ last' = <<"fromlist", v, v>>
           \/ \E v \in Slots, i \in 0 .. 2, e \in Elems : SetByIndex(v, i, e) /\ last' = <<"setbyindex", v, v>>
           \/ \E v \in Slots : SetLength(v, 2) /\ last' = <<"setlength", v, v>>
           \/ \E v, w \in Slots : v # w /\ CopyTo(w, v) /\ last' = <<"copy", w, v>>
           \/ \E v \in Slots : ClearV(v) /\ last' = <<"clear", v, v>>
           \/ \E v \in Slots, i \in 0 .. 2 : MutElem(v, i) /\ last' = <<"mutelem", 0, 0>>
           \/ \E s \in {<<>>, <<"e1">>, <<"e1", "e2">>} : ListSet("L", s) /\ last' = <<"listset", 0, 0>>
           \/ \E i \in 0 .. 1, e \in Elems : ListPut("L", i, e) /\ last' = <<"listput", 0, 0>>
           \/ \E e \in Elems : Len(ls["L"]) < 3 /\ ListAppend("L", e) /\ last' = <<"listappend", 0, 0>>
           \/ \E k \in 0 .. 1 : ListCut("L", k) /\ last' = <<"listcut", 0, 0>>
Spec == Init /\ [][Step]_<<vs, ls, pads, mut, n, last>>
\* an operation changes at most its target slot; list operations change no slot
Independence == [][\A s \in Slots : (last'[2] # s) => vs'[s] = vs[s]]_<<vs, ls, pads, mut, n, last>>
CloneEquals == last[1] = "copy" => EqualsExpect(last[2], last[3]) = "yes"
Symmetric == \A a, b \in Slots : EqualsExpect(a, b) = EqualsExpect(b, a)
=============================================================================
