-------------------------- MODULE ConcurrentEvalGen --------------------------
(***************************************************************************)
(* Schedule generator for C19 (specification -> code).  ConcurrentEval     *)
(* runs with a history of the process ids that took the steps at which an  *)
(* evaluation reads a variable (the accesses at which the recorder can     *)
(* hold a goroutine of the real calculator; constant pushes and operator   *)
(* applications run on with the access before them).  TLC explores every   *)
(* interleaving of the model and prints each completed schedule as a       *)
(* "start" event in the recorder's format; verifdrv releases the gated     *)
(* goroutines in that order and ConcurrentEvalTrace judges the run.        *)
(***************************************************************************)
EXTENDS ConcurrentEval, Json, FiniteSets
CONSTANT Text
VARIABLE sched
Emit(h) == PrintT("BEHAV " \o ToJson(h))
GInit == Init /\ sched = <<>>
Done == \A p \in Procs : pc[p] > Len(prog)
GNext == \/ \E p \in Procs : /\ Step(p)
                             /\ sched' = IF prog[pc[p]][1] = "var" THEN Append(sched, p) ELSE sched
         \/ /\ Done /\ UNCHANGED <<vars, sched>>
            /\ Emit(<<[op |-> "start", what |-> "calc", text |-> Text, procs |-> Cardinality(Procs), schedule |-> sched]>>)
GSpec == GInit /\ [][GNext]_<<vars, sched>>
\* the property the schedules are generated under: every completed schedule yields the sequential results
GResults == ResultsSequential
P7 == << <<"var", "a">>, <<"var", "b">>, <<"var", "c">>, <<"op", "*">>, <<"op", "+">>, <<"var", "d">>, <<"op", "-">> >>
P3 == << <<"var", "a">>, <<"var", "b">>, <<"op", "+">> >>
P5 == << <<"var", "c">>, <<"const", 2>>, <<"op", "^">>, <<"var", "a">>, <<"op", "+">> >>
=============================================================================
