SPECIFICATION GSpec
CONSTANTS
  Procs = {1, 2}
  Program <- P7
  Sharing = "none"
  Text = "a + b * c - d"
INVARIANT GResults
CHECK_DEADLOCK FALSE
