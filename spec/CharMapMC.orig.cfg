SPECIFICATION Spec
CONSTANTS
  Depth = 2
  Variant = "orig"
INVARIANTS Refines LatestWins ClearedIsEmpty
CHECK_DEADLOCK FALSE
