SPECIFICATION Spec
CONSTANT Kind = "generic"
INVARIANTS AllWellFormed TokenizesBack
CHECK_DEADLOCK FALSE
