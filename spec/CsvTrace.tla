------------------------------- MODULE CsvTrace -------------------------------
(***************************************************************************)
(* Trace validation for C09 on the real CsvTokenizer (string decoding on). *)
(*  {"op":"csv","seps":[c..],"quotes":[c..],"eol":[c..],                   *)
(*   "table":[[[cp..]..]..],"plans":[[[mode,q,sep]..]..],"text":[cp..],    *)
(*   "toks":[[type,[cp..]]..],"outcome":"ok"|"panic"|"hang"}               *)
(* (H) the text is the specification's Write of the table under the plan   *)
(* and the plan is legal (validates the driver's writer); then: the tokens *)
(* regroup to exactly the table, and every line ending is ONE end-of-line  *)
(* token spelled LF, CR, CRLF or LFCR.                                     *)
(***************************************************************************)
EXTENDS Csv, Json, TLC, Held
VARIABLE l
Trace == ndJsonDeserialize("trace.ndjson")
F(ok, name) == IF ok THEN "" ELSE name \o "; "
ToSet(s) == {s[i] : i \in 1 .. Len(s)}

Fails(e) ==
  LET cfg == [seps |-> ToSet(e.seps), quotes |-> ToSet(e.quotes)] IN
  IF ~PlanOK(cfg, e.table, e.plans, e.eol) \/ e.text # Write(cfg, e.table, e.plans, e.eol)
  THEN "HARNESS: the generated text is not the specified writing of the table; "
  ELSE IF e.outcome # "ok" THEN "tokenizing the CSV text did not return normally; "
  ELSE LET toks == [i \in 1 .. Len(e.toks) |-> <<e.toks[i][1], e.toks[i][2]>>]
           r == Rows(cfg, toks)
       IN F(r[1] = "ok", "tokens do not regroup into rows of single-token fields")
       \o (IF r[1] # "ok" THEN "" ELSE F(r[2] = e.table, "the recovered rows and fields differ from the written table"))
       \o F(EolTokensOK(toks), "a line ending is not one end-of-line token")

Init == l = 1
Next ==
  /\ l <= Len(Trace)
  /\ l' = l + 1
  /\ LET f == Fails(Trace[l]) IN Report(l, f, Trace[l])
Spec == Init /\ [][Next]_l
Accepted == TLCGet("stats").diameter - 1 = Len(Trace)
=============================================================================
