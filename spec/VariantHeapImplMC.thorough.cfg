SPECIFICATION Spec
CONSTANTS
  MaxOps = 5
  MaxCap = 4
  Variant = "fixed"
INVARIANT Refines
CHECK_DEADLOCK FALSE
