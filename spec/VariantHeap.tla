------------------------------ MODULE VariantHeap ------------------------------
(***************************************************************************)
(* Value model of variants (C20).  A variant slot holds <<type, payload>>; *)
(* for type "Array" the payload is the variant's OWN sequence of element   *)
(* references (ids); for scalars an opaque canonical string.  Caller-owned *)
(* lists are sequences of element references too.  Building a variant from *)
(* a list, cloning and assigning COPY the sequence: no later change to the *)
(* list or to one variant is visible through another.                      *)
(***************************************************************************)
EXTENDS Integers, Sequences, FiniteSets, TLC
VARIABLES vs, ls,         \* vs: [slot -> <<type, payload>>], ls: [list name -> sequence of element ids]
          pads, mut       \* pads: ids of the Null elements created by growth; mut: those changed in place since
hvars == <<vs, ls, pads, mut>>
NullV == <<"Null", "">>
IsArr(v) == vs[v][1] = "Array"
\* growth appends NEW Null elements, each an object of its own: "pad1", "pad2", ...
PadId(k) == "pad" \o ToString(k)
Grow(s, n) == IF Len(s) >= n THEN s ELSE s \o [i \in 1 .. n - Len(s) |-> PadId(Cardinality(pads) + i)]
NewPads(s, n) == IF Len(s) >= n THEN {} ELSE {PadId(Cardinality(pads) + i) : i \in 1 .. n - Len(s)}

HInit(slots, lists) == vs = [s \in slots |-> NullV] /\ ls = [x \in lists |-> <<>>] /\ pads = {} /\ mut = {}
SetScalar(v, t, p)  == vs' = [vs EXCEPT ![v] = <<t, p>>] /\ UNCHANGED <<ls, pads, mut>>
FromList(v, L)      == vs' = [vs EXCEPT ![v] = <<"Array", ls[L]>>] /\ UNCHANGED <<ls, pads, mut>>          \* own copy
\* index writes past the end grow the array with new Null elements
SetByIndex(v, i, e) == /\ IsArr(v)
                       /\ vs' = [vs EXCEPT ![v] = <<"Array", [Grow(vs[v][2], i + 1) EXCEPT ![i + 1] = e]>>]
                       /\ pads' = pads \cup NewPads(vs[v][2], i + 1)
                       /\ UNCHANGED <<ls, mut>>
SetLength(v, n) == /\ IsArr(v) /\ vs' = [vs EXCEPT ![v] = <<"Array", Grow(vs[v][2], n)>>]
                   /\ pads' = pads \cup NewPads(vs[v][2], n) /\ UNCHANGED <<ls, mut>>
\* A length BELOW the current one: the property speaks of growing only. Leaving the array as it is and cutting it to that
\* length (the variant's own elements, nobody else's) are both accepted; `cut` says which one was observed.
SetLengthDown(v, n, cut) == /\ IsArr(v) /\ n >= 0 /\ n < Len(vs[v][2])
                            /\ vs' = [vs EXCEPT ![v] = <<"Array", IF cut THEN SubSeq(vs[v][2], 1, n) ELSE vs[v][2]>>]
                            /\ UNCHANGED <<ls, pads, mut>>
\* a caller changes, in place, the Null element that growth put at position i (elements are shared by reference
\* between an array and its shallow copies, so exactly the arrays holding THAT element see it)
MutElem(v, i) == /\ mut' = IF IsArr(v) /\ i >= 0 /\ i < Len(vs[v][2]) /\ vs[v][2][i + 1] \in pads THEN mut \cup {vs[v][2][i + 1]} ELSE mut
                 /\ UNCHANGED <<vs, ls, pads>>
\* what an observer sees of an element: named elements by name, growth elements as "nul" or, once changed, "other"
Seen(id, pp, mm) == IF id \in pp THEN (IF id \in mm THEN "other" ELSE "nul") ELSE id
CopyTo(w, v)        == vs' = [vs EXCEPT ![w] = vs[v]] /\ UNCHANGED <<ls, pads, mut>>                      \* Clone / Assign / SetAsObject(*Variant)
ClearV(v)           == vs' = [vs EXCEPT ![v] = NullV] /\ UNCHANGED <<ls, pads, mut>>
ListSet(L, s)       == ls' = [ls EXCEPT ![L] = s] /\ UNCHANGED <<vs, pads, mut>>
ListPut(L, i, e)    == i < Len(ls[L]) /\ ls' = [ls EXCEPT ![L][i + 1] = e] /\ UNCHANGED <<vs, pads, mut>>   \* the caller mutates its own list

ListAppend(L, e)    == ls' = [ls EXCEPT ![L] = Append(ls[L], e)] /\ UNCHANGED <<vs, pads, mut>>               \* ... appends to it
ListCut(L, n)       == n <= Len(ls[L]) /\ ls' = [ls EXCEPT ![L] = SubSeq(ls[L], 1, n)] /\ UNCHANGED <<vs, pads, mut>>   \* ... shortens it
\* Equality: scalars by type and payload; arrays element-wise. "yes"/"no"/"either" (identity vs value comparison of
\* elements is left open: equal references => yes; different lengths => no; otherwise either)
EqualsExpectIn(vv, a, b) ==
  IF vv[a][1] # "Array" /\ vv[b][1] # "Array"
  THEN (IF vv[a][1] = "Null" \/ vv[b][1] = "Null" THEN (IF vv[a][1] = vv[b][1] THEN "yes" ELSE "no")
        ELSE IF vv[a] = <<"Double", "NaN">> \/ vv[b] = <<"Double", "NaN">> THEN "no"        \* NaN equals nothing, itself included
        \* the two zeros of a floating-point type: whether they count as equal is left open
        ELSE IF vv[a][1] = vv[b][1] /\ vv[a][1] \in {"Float", "Double"} /\ {vv[a][2], vv[b][2]} = {"0", "-0"} THEN "either"
        \* the same number held in two numeric types: whether such variants count as equal is left open
        ELSE IF vv[a][1] # vv[b][1] /\ vv[a][2] = vv[b][2] /\ {vv[a][1], vv[b][1]} \subseteq {"Integer", "Long", "Float", "Double"} THEN "either"
        ELSE IF vv[a] = vv[b] THEN "yes" ELSE "no")
  ELSE IF vv[a][1] # vv[b][1] THEN "no"
  ELSE IF vv[a][2] = vv[b][2] THEN "yes"
  ELSE IF Len(vv[a][2]) # Len(vv[b][2]) THEN "no" ELSE "either"
EqualsExpect(a, b) == EqualsExpectIn(vs, a, b)
=============================================================================
