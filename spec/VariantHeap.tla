------------------------------ MODULE VariantHeap ------------------------------
(***************************************************************************)
(* Value model of variants (C20).  A variant slot holds <<type, payload>>; *)
(* for type "Array" the payload is the variant's OWN sequence of element   *)
(* references (ids); for scalars an opaque canonical string.  Caller-owned *)
(* lists are sequences of element references too.  Building a variant from *)
(* a list, cloning and assigning COPY the sequence: no later change to the *)
(* list or to one variant is visible through another.                      *)
(***************************************************************************)
EXTENDS Integers, Sequences
VARIABLES vs, ls          \* vs: [slot -> <<type, payload>>], ls: [list name -> sequence of element ids]
hvars == <<vs, ls>>
NullV == <<"Null", "">>
IsArr(v) == vs[v][1] = "Array"
Grow(s, n, nul) == IF Len(s) >= n THEN s ELSE s \o [i \in 1 .. n - Len(s) |-> nul]

HInit(slots, lists) == vs = [s \in slots |-> NullV] /\ ls = [x \in lists |-> <<>>]
SetScalar(v, t, p)  == vs' = [vs EXCEPT ![v] = <<t, p>>] /\ UNCHANGED ls
FromList(v, L)      == vs' = [vs EXCEPT ![v] = <<"Array", ls[L]>>] /\ UNCHANGED ls          \* own copy
\* index writes past the end grow the array with fresh Null elements (their identities are new, written "n")
SetByIndex(v, i, e, nul) == /\ IsArr(v)
                            /\ vs' = [vs EXCEPT ![v] = <<"Array", [Grow(vs[v][2], i + 1, nul) EXCEPT ![i + 1] = e]>>]
                            /\ UNCHANGED ls
SetLength(v, n, nul) == IsArr(v) /\ vs' = [vs EXCEPT ![v] = <<"Array", Grow(vs[v][2], n, nul)>>] /\ UNCHANGED ls
CopyTo(w, v)        == vs' = [vs EXCEPT ![w] = vs[v]] /\ UNCHANGED ls                      \* Clone / Assign / SetAsObject(*Variant)
ClearV(v)           == vs' = [vs EXCEPT ![v] = NullV] /\ UNCHANGED ls
ListSet(L, s)       == ls' = [ls EXCEPT ![L] = s] /\ UNCHANGED vs
ListPut(L, i, e)    == i < Len(ls[L]) /\ ls' = [ls EXCEPT ![L][i + 1] = e] /\ UNCHANGED vs   \* the caller mutates its own list

\* Equality: scalars by type and payload; arrays element-wise. "yes"/"no"/"either" (identity vs value comparison of
\* elements is left open: equal references => yes; different lengths => no; otherwise either)
EqualsExpectIn(vv, a, b) ==
  IF vv[a][1] # "Array" /\ vv[b][1] # "Array"
  THEN (IF vv[a][1] = "Null" \/ vv[b][1] = "Null" THEN (IF vv[a][1] = vv[b][1] THEN "yes" ELSE "no")
        ELSE IF vv[a] = vv[b] THEN "yes" ELSE "no")
  ELSE IF vv[a][1] # vv[b][1] THEN "no"
  ELSE IF vv[a][2] = vv[b][2] THEN "yes"
  ELSE IF Len(vv[a][2]) # Len(vv[b][2]) THEN "no" ELSE "either"
EqualsExpect(a, b) == EqualsExpectIn(vs, a, b)
=============================================================================
