SPECIFICATION Spec
CONSTANTS
  MaxLen = 3
  Kind = "expression"
INVARIANTS LosslessInv OptionInv PositionInv
CHECK_DEADLOCK FALSE
