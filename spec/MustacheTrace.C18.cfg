SPECIFICATION Spec
CONSTANT Check = "C18"
POSTCONDITION Accepted
CHECK_DEADLOCK FALSE
