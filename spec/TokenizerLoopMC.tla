---------------------------- MODULE TokenizerLoopMC ----------------------------
(***************************************************************************)
(* All abstract inputs up to MaxLen over {k, c, w, u} x all 16 option sets *)
(* of the four skip options, as one specification: an initial choice, then *)
(* the loop.                                                               *)
(***************************************************************************)
EXTENDS Integers, Sequences, TLC
CONSTANTS MaxLen, Variant
VARIABLES Input, Opts, pos, token, last, pc, out, calls
L == INSTANCE TokenizerLoop
RECURSIVE Strs(_)
Strs(n) == IF n = 0 THEN {<<>>} ELSE LET S == Strs(n - 1) IN S \cup {Append(x, c) : x \in {t \in S : Len(t) = n - 1}, c \in {"k", "c", "w", "u"}}
Init == Input \in Strs(MaxLen) /\ Opts \in SUBSET {"skipUnknown", "skipComments", "skipWhitespaces", "skipEof"} /\ L!Init
Next == L!Next
vars == <<Input, Opts, pos, token, last, pc, out, calls>>
Spec == Init /\ [][Next]_vars /\ WF_vars(L!Step /\ UNCHANGED <<Input, Opts>>)
Terminates == L!Terminates
NoSkipped == L!NoSkipped
Consumes == L!Consumes
=============================================================================
