------------------------------- MODULE ScanLC -------------------------------
(***************************************************************************)
(* Pure operators shared by Scanner (C11) and TokenStream (C12): the       *)
(* end-of-input marker, the line-break rule and LC(s,k), the <<line,       *)
(* column>> that a fresh forward scan reports after consuming k slots.     *)
(***************************************************************************)
EXTENDS Integers, Sequences, SeqFold

EOFCH == -1
LF    == 10
CR    == 13

CharAt(s, i) == IF i < 1 \/ i > Len(s) THEN EOFCH ELSE s[i]

\* A character starts a new line: LF always, CR unless it is adjacent to an LF
\* (so CRLF and LFCR count once, through their LF).
IsLine(b, c, a) == (c = LF \/ c = CR) /\ ~(c = CR /\ (b = LF \/ a = LF))
\* A character occupies a column unless it is CR or LF.
IsCol(c) == c # LF /\ c # CR

\* <<line, column>> after consuming k slots in a forward scan.
\* (a left fold over the consumed characters, which TLC evaluates iteratively: contents of any length;
\* the end-of-input slot changes nothing)
\* one step of the forward scan: <<line, column>> p after consuming slot i (1 <= i <= Len(s))
LCStep(s, p, i) == LET c == s[i]
                       q == IF IsLine(CharAt(s, i - 1), c, CharAt(s, i + 1)) THEN <<p[1] + 1, 0>> ELSE p
                   IN IF IsCol(c) THEN <<q[1], q[2] + 1>> ELSE q
\* p = LC(s, from)  =>  LCAdv(s, p, from, to) = LC(s, to)      (from <= to)
LCAdv(s, p, from, to) ==
  LET n == IF to > Len(s) THEN Len(s) ELSE to IN
  IF from >= n THEN p ELSE FoldL(LAMBDA q, i : LCStep(s, q, i), p, [i \in 1 .. n - from |-> from + i])
LC(s, k) == LCAdv(s, <<1, 0>>, 0, k)

\* Characters that some conventions count as line breaks as well (VT, FF, NEL, LS, PS). The properties speak of LF, CR, CRLF and
\* LFCR only; whether a scanner counts these five is left open, so line/column clauses are not applied to texts containing them.
OtherBreaks == {11, 12, 133, 8232, 8233}
HasOtherBreak(s) == \E i \in 1 .. Len(s) : s[i] \in OtherBreaks
Min(a, b) == IF a < b THEN a ELSE b
Max(a, b) == IF a > b THEN a ELSE b
=============================================================================
