--------------------------- MODULE VariantHeapImpl ---------------------------
(***************************************************************************)
(* Implementation-shaped model of the array part of variants/Variant.go    *)
(* over the Go slice heap of module GoSlice: a variant slot holds          *)
(* <<type, payload>>, an Array payload is a slice HEADER; the caller's     *)
(* list is a slice header too (with spare capacity, as a caller may have). *)
(* One action per method, as written:                                      *)
(*   SetAsArray / SetAsObject([]*Variant)  make + copy (exact capacity)    *)
(*   SetByIndex / SetLength                append of new Null elements in  *)
(*                                         a loop, then the indexed store  *)
(*   Assign / SetAsObject(a variant) / Clone / NewVariant(a variant)         *)
(*      Variant = "orig":  the payload is copied as it is - for an array   *)
(*                         the slice header, so both variants share the    *)
(*                         backing array (the defect repaired by a5eb394); *)
(*      Variant = "fixed": append([]*Variant{}, a...) - an array of its    *)
(*                         own.                                            *)
(* VariantHeapImplMC checks that the observable contents refine the value  *)
(* model VariantHeap for every growth policy of the runtime.               *)
(***************************************************************************)
EXTENDS GoSlice, FiniteSets, TLC
CONSTANT Variant
VARIABLES heap, slot, clist, npad   \* heap of arrays; slot -> <<type, payload>>; the caller's list (a slice); number of pads made
ivars == <<heap, slot, clist, npad>>
INull == <<"Null", "">>
IIsArr(v) == slot[v][1] = "Array"
Pad(k) == "pad" \o ToString(k)
IContents(v) == IF IIsArr(v) THEN Elems(heap, slot[v][2]) ELSE <<>>
IList == Elems(heap, clist)

IInit(slots) == heap = <<>> /\ slot = [s \in slots |-> INull] /\ clist = NilSlice /\ npad = 0
ISetScalar(v, t, p) == slot' = [slot EXCEPT ![v] = <<t, p>>] /\ UNCHANGED <<heap, clist, npad>>
IClear(v) == slot' = [slot EXCEPT ![v] = INull] /\ UNCHANGED <<heap, clist, npad>>
\* SetAsArray(list): a := make([]*Variant, len(value)); copy(a, value)
IFromList(v) == LET r == CopyExact(heap, clist) IN
                heap' = r[1] /\ slot' = [slot EXCEPT ![v] = <<"Array", r[2]>>] /\ UNCHANGED <<clist, npad>>
\* for len(a) < n { a = append(a, &Variant{Null}) }: the set of <<heap, slice, pads made>> outcomes
RECURSIVE GrowTo(_, _, _, _)
GrowTo(h, s, n, k) == IF s[2] >= n THEN {<<h, s, k>>}
                      ELSE UNION {GrowTo(r[1], r[2], n, k + 1) : r \in AppendResults(h, s, Pad(k + 1))}
ISetByIndex(v, i, e) ==
  /\ IIsArr(v)
  /\ \E g \in GrowTo(heap, slot[v][2], i + 1, npad) :
       /\ heap' = Store(g[1], g[2], i, e)
       /\ slot' = [slot EXCEPT ![v] = <<"Array", g[2]>>]
       /\ npad' = g[3]
  /\ UNCHANGED clist
ISetLength(v, n) ==
  /\ IIsArr(v)
  /\ \E g \in GrowTo(heap, slot[v][2], n, npad) : heap' = g[1] /\ slot' = [slot EXCEPT ![v] = <<"Array", g[2]>>] /\ npad' = g[3]
  /\ UNCHANGED clist
\* Clone / Assign / SetAsObject(a variant)
ICopyTo(w, v) ==
  /\ UNCHANGED <<clist, npad>>
  /\ IF IIsArr(v) /\ Variant # "orig"
     THEN \E r \in CopyResults(heap, slot[v][2]) : heap' = r[1] /\ slot' = [slot EXCEPT ![w] = <<"Array", r[2]>>]
     ELSE heap' = heap /\ slot' = [slot EXCEPT ![w] = slot[v]]          \* the header (or the scalar) as it is
\* the caller: a list of its own with spare capacity, stores into it, appends to it, shortens it
IListSet(xs, c) == heap' = Alloc(heap, xs, c) /\ clist' = <<Fresh(heap), Len(xs)>> /\ UNCHANGED <<slot, npad>>
IListPut(i, e) == i < clist[2] /\ heap' = Store(heap, clist, i, e) /\ UNCHANGED <<slot, clist, npad>>
IListAppend(e) == \E r \in AppendResults(heap, clist, e) : heap' = r[1] /\ clist' = r[2] /\ UNCHANGED <<slot, npad>>
IListCut(n) == n <= clist[2] /\ clist' = Reslice(clist, n) /\ UNCHANGED <<heap, slot, npad>>
=============================================================================
