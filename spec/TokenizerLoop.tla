----------------------------- MODULE TokenizerLoop -----------------------------
(***************************************************************************)
(* The main loop of AbstractTokenizer.ReadNextToken as micro-steps, over   *)
(* an abstract input: a sequence of character classes                      *)
(*   "k" a character with a state that yields an ordinary token,           *)
(*   "c" a comment, "w" whitespace, "u" a character WITHOUT a state.       *)
(* Variables: pos (characters consumed), token (the loop variable), last   *)
(* (LastTokenType), pc (control point), out (tokens returned so far).      *)
(* One call returns one token or "nil" (end).  Properties: the call        *)
(* terminates (C03) under every option set, and the returned stream is the *)
(* option-free stream with whole tokens dropped (C15).                     *)
(* Variant "orig" keeps the token of the previous iteration when the next  *)
(* character has no state (the defect found in the repository: a skipped   *)
(* token is seen again, nothing is consumed, forever) and records skipped  *)
(* tokens as LastTokenType; "fixed" is the repaired loop.                  *)
(***************************************************************************)
EXTENDS Integers, Sequences, TLC
CONSTANT Variant
VARIABLES Input, Opts,                   \* chosen initially, never changed; Opts \subseteq {"skipUnknown","skipComments","skipWhitespaces","skipEof"}
          pos, token, last, pc, out, calls
vars == <<Input, Opts, pos, token, last, pc, out, calls>>
None == "none"
TypeOf(c) == CASE c = "k" -> "Word" [] c = "c" -> "Comment" [] c = "w" -> "Whitespace" [] OTHER -> "Unknown"

Init == pos = 0 /\ token = None /\ last = "Unknown" /\ pc = "call" /\ out = <<>> /\ calls = 0
\* enter ReadNextToken
Call == pc = "call" /\ pc' = "top" /\ token' = None /\ calls' = calls + 1 /\ UNCHANGED <<pos, last, out>>
\* loop head: peek; at end leave the loop with token = nil
Top == /\ pc = "top"
       /\ IF pos >= Len(Input) THEN pc' = "after" /\ token' = None /\ UNCHANGED pos
          ELSE LET c == Input[pos + 1] IN
               IF c # "u"                              \* a state exists: it reads the whole token
               THEN token' = TypeOf(c) /\ pos' = pos + 1 /\ pc' = "post"
               ELSE IF Variant = "orig" /\ token # None
                    THEN UNCHANGED <<token, pos>> /\ pc' = "post"      \* stale token of the previous iteration, nothing read
                    ELSE token' = "Unknown" /\ pos' = pos + 1 /\ pc' = "post"
       /\ UNCHANGED <<last, out, calls>>
\* post-processing chain: skip (continue) or break
Post == /\ pc = "post"
        /\ IF token = "Unknown" /\ "skipUnknown" \in Opts
           THEN pc' = "top" /\ last' = (IF Variant = "orig" THEN token ELSE last) /\ (IF Variant = "orig" THEN UNCHANGED token ELSE token' = None)
           ELSE IF token = "Comment" /\ "skipComments" \in Opts
           THEN pc' = "top" /\ last' = (IF Variant = "orig" THEN token ELSE last) /\ (IF Variant = "orig" THEN UNCHANGED token ELSE token' = None)
           ELSE IF token = "Whitespace" /\ last = "Whitespace" /\ "skipWhitespaces" \in Opts
           THEN pc' = "top" /\ UNCHANGED last /\ (IF Variant = "orig" THEN UNCHANGED token ELSE token' = None)
           ELSE pc' = "after" /\ UNCHANGED <<last, token>>
        /\ UNCHANGED <<pos, out, calls>>
\* after the loop: end-of-input token unless skipped / already sent; bookkeeping; return
After == /\ pc = "after"
         /\ LET t == IF token = None /\ last # "Eof" /\ "skipEof" \notin Opts THEN "Eof" ELSE token IN
            /\ out' = Append(out, IF t = None THEN "nil" ELSE t)
            /\ last' = (IF t = None THEN "Eof" ELSE t)
            /\ pc' = IF t = None THEN "done" ELSE "call"
         /\ token' = None /\ UNCHANGED <<pos, calls>>
Step == Call \/ Top \/ Post \/ After
Next == (Step /\ UNCHANGED <<Input, Opts>>) \/ (pc = "done" /\ UNCHANGED vars)
Spec == Init /\ [][Next]_vars /\ WF_vars(Step /\ UNCHANGED <<Input, Opts>>)

\* C03: every tokenization terminates
Terminates == <>(pc = "done")
\* C15 (on this abstraction): with an option on no token of that kind is returned, and no two whitespace tokens in a row
NoSkipped == /\ "skipUnknown" \in Opts => \A i \in 1 .. Len(out) : out[i] # "Unknown"
             /\ "skipComments" \in Opts => \A i \in 1 .. Len(out) : out[i] # "Comment"
             /\ "skipWhitespaces" \in Opts => \A i \in 1 .. Len(out) - 1 : ~(out[i] = "Whitespace" /\ out[i + 1] = "Whitespace")
             /\ "skipEof" \in Opts => \A i \in 1 .. Len(out) : out[i] # "Eof"
\* nothing is consumed twice and nothing is left behind
Consumes == pc = "done" => pos = Len(Input)
=============================================================================
