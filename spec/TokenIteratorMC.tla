--------------------------- MODULE TokenIteratorMC ---------------------------
(***************************************************************************)
(* All interleavings of SetReader / HasNext / Next over two abstract       *)
(* streams: the iterator invariants of C05 on the specification itself     *)
(* (HasNext changes nothing, Next yields the elements of the current       *)
(* stream in order exactly once, a new reader forgets the old stream).     *)
(* `got` is the history of tokens handed out since the last SetReader.     *)
(***************************************************************************)
EXTENDS TokenIterator, TLC
CONSTANT MaxOps
VARIABLES got, n
Streams == {<<>>, << <<"a">> >>, << <<"a">>, <<"b">>, <<"eof">> >>, << <<"c">>, <<"eof">> >>}   \* tokens are tuples, like NoToken
Init == IInit /\ got = <<>> /\ n = 0
Step == /\ n < MaxOps /\ n' = n + 1
        /\ \/ \E s \in Streams : SetReader(s) /\ got' = <<>>
           \/ HasNext /\ UNCHANGED got
           \/ Next /\ got' = (IF NextRet = NoToken THEN got ELSE Append(got, NextRet))
Spec == Init /\ [][Step]_<<stream, i, got, n>>
\* what has been handed out is always a prefix of the current stream, in order, each once
PrefixInv == got = SubSeq(stream, 1, i)
HasNextPure == [][HasNext => UNCHANGED <<stream, i>>]_<<stream, i, got, n>>
=============================================================================
