---------------------------- MODULE SymbolTrieGen ----------------------------
(***************************************************************************)
(* Behaviour generator for C16 (specification -> code).  The abstract      *)
(* symbol table runs with a history variable; its state is (registered     *)
(* symbols with their types, current input, cursor).  TLC explores the     *)
(* complete graph for up to MaxSyms registrations from Symbols (with a     *)
(* type of its own per symbol, and re-registration under another type),    *)
(* every input of Inputs attached at any time (registration may follow     *)
(* reading), and prints the history of every transition that registers a   *)
(* symbol or reads a token: "BEHAV [..]" in the recorder's format, `exp`   *)
(* = type, text and cursor the model predicts for the token read.          *)
(***************************************************************************)
EXTENDS SymbolTrie, Json, TLC
CONSTANTS MaxSyms, MaxSymLen, MaxInLen, Mode, Depth
VARIABLES input, k, nadd, hist

RECURSIVE Strings(_, _)
Strings(A, n) == IF n = 0 THEN {<<>>}
                 ELSE LET S == Strings(A, n - 1) IN S \cup {Append(s, c) : s \in {t \in S : Len(t) = n - 1}, c \in A}
Symbols == Strings({97, 98}, MaxSymLen) \ {<<>>}
Inputs  == Strings({97, 98, 99}, MaxInLen) \ {<<>>}
\* a type of its own for every symbol (100 + a number read off its characters), or the second type 200 + ...
TypeOf(s, alt) == (IF alt THEN 200 ELSE 100) + Len(s) * 10 + (IF s[1] = 97 THEN 0 ELSE 1) + (IF s[Len(s)] = 97 THEN 0 ELSE 2)

Emit(h) == PrintT("BEHAV " \o ToJson(h))
Init == TInit /\ input = <<>> /\ k = 0 /\ nadd = 0 /\ hist = <<[op |-> "new"]>>

DoAdd == /\ nadd < MaxSyms
         /\ \E s \in Symbols, alt \in BOOLEAN :
              /\ (s \in DOMAIN syms => syms[s] = TypeOf(s, alt))     \* (a symbol registered again under ANOTHER type: which one it then has is not stated)
              /\ Add(s, TypeOf(s, alt))
              /\ hist' = Append(hist, [op |-> "add", sym |-> s, type |-> TypeOf(s, alt)])
         /\ nadd' = nadd + 1 /\ UNCHANGED <<input, k>>
DoScan == /\ \E i \in Inputs : input' = i /\ hist' = Append(hist, [op |-> "scan", input |-> i])
          /\ k' = 0 /\ UNCHANGED <<syms, nadd>>
DoNext == /\ k < Len(input)
          /\ LET r == Next(input, k) IN
               /\ k' = r[3]
               /\ hist' = Append(hist, [op |-> "next", exp |-> [type |-> r[1], text |-> r[2], k |-> r[3]]])
          /\ UNCHANGED <<syms, input, nadd>>

Next_ == IF Mode = "cover"
         THEN \/ DoAdd /\ Emit(hist')
              \/ DoScan
              \/ DoNext /\ Emit(hist')
         ELSE IF Len(hist) <= Depth THEN DoAdd \/ DoScan \/ DoNext
              ELSE Emit(hist) /\ UNCHANGED <<syms, input, k, nadd, hist>>
Spec == Init /\ [][Next_]_<<syms, input, k, nadd, hist>>
View == <<syms, input, k, nadd>>
=============================================================================
