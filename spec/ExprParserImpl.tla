---------------------------- MODULE ExprParserImpl ----------------------------
(***************************************************************************)
(* Implementation-shaped model of calculator/parsers/ExpressionParser.go:  *)
(* the seven level procedures with an explicit token index, the            *)
(* multi-token matcher, the call-argument loop and the index sub-parser,   *)
(* transliterated branch by branch.  Every procedure returns               *)
(* <<program, index, ok>>.  The constant Variant selects the code as first *)
(* found ("orig": the matcher lets the LAST listed type decide, the error  *)
(* for a missing ']' is computed but not returned, a ')' right after a     *)
(* comma ends the argument list) or as repaired ("fixed").                 *)
(* ExprGrammarMC checks  ImplParse = RefParse  for every token string up   *)
(* to a bound.                                                             *)
(***************************************************************************)
EXTENDS ExprGrammar
CONSTANT Variant

Fail == <<<<>>, 0, FALSE>>
More(ts, i) == i <= Len(ts)                       \* hasMoreTokens

\* matchTokensWithTypes(types...) at index i: does the token run match?
MatchTypes(ts, i, types) ==
  IF Variant = "orig"
  THEN i + Len(types) - 1 <= Len(ts) /\ K(ts, i + Len(types) - 1) = types[Len(types)]   \* only the last type decides
  ELSE \A j \in 1 .. Len(types) : K(ts, i + j - 1) = types[j]

RECURSIVE P0(_, _), P0L(_, _, _), P1(_, _), P2(_, _), P2L(_, _, _), P3(_, _), P3L(_, _, _),
          P4(_, _), P4L(_, _, _), P5(_, _), P5L(_, _, _), P6(_, _), PArgs(_, _, _, _)

P0(ts, i) == IF ~More(ts, i) THEN Fail ELSE LET r == P1(ts, i) IN IF ~r[3] THEN Fail ELSE P0L(ts, r[1], r[2])
P0L(ts, out, i) ==
  IF More(ts, i) /\ K(ts, i) \in L0
  THEN LET r == P1(ts, i + 1) IN IF ~r[3] THEN Fail ELSE P0L(ts, out \o r[1] \o <<Op(K(ts, i))>>, r[2])
  ELSE <<out, i, TRUE>>
P1(ts, i) ==
  IF ~More(ts, i) THEN Fail
  ELSE IF K(ts, i) = "Not"
       THEN LET r == P2(ts, i + 1) IN IF ~r[3] THEN Fail ELSE <<r[1] \o <<Op("Not")>>, r[2], TRUE>>
       ELSE P2(ts, i)
P2(ts, i) == IF ~More(ts, i) THEN Fail ELSE LET r == P3(ts, i) IN IF ~r[3] THEN Fail ELSE P2L(ts, r[1], r[2])
P2L(ts, out, i) ==
  IF More(ts, i) /\ K(ts, i) \in L2
  THEN LET r == P3(ts, i + 1) IN IF ~r[3] THEN Fail ELSE P2L(ts, out \o r[1] \o <<Op(K(ts, i))>>, r[2])
  ELSE <<out, i, TRUE>>
P3(ts, i) == IF ~More(ts, i) THEN Fail ELSE LET r == P4(ts, i) IN IF ~r[3] THEN Fail ELSE P3L(ts, r[1], r[2])
P3L(ts, out, i) ==
  IF ~More(ts, i) THEN <<out, i, TRUE>>
  ELSE IF K(ts, i) \in L3
  THEN LET r == P4(ts, i + 1) IN IF ~r[3] THEN Fail ELSE P3L(ts, out \o r[1] \o <<Op(K(ts, i))>>, r[2])
  ELSE IF MatchTypes(ts, i, <<"Not", "Like">>)
  THEN LET r == P4(ts, i + 2) IN IF ~r[3] THEN Fail ELSE P3L(ts, out \o r[1] \o <<Op("NotLike")>>, r[2])
  ELSE IF MatchTypes(ts, i, <<"Is", "Null">>) THEN P3L(ts, out \o <<Op("IsNull")>>, i + 2)
  ELSE IF MatchTypes(ts, i, <<"Is", "Not", "Null">>) THEN P3L(ts, out \o <<Op("IsNotNull")>>, i + 3)
  ELSE IF MatchTypes(ts, i, <<"Not", "In">>)
  THEN LET r == P4(ts, i + 2) IN IF ~r[3] THEN Fail ELSE P3L(ts, out \o r[1] \o <<Op("NotIn")>>, r[2])
  ELSE <<out, i, TRUE>>
P4(ts, i) == IF ~More(ts, i) THEN Fail ELSE LET r == P5(ts, i) IN IF ~r[3] THEN Fail ELSE P4L(ts, r[1], r[2])
P4L(ts, out, i) ==
  IF More(ts, i) /\ K(ts, i) \in L4
  THEN LET r == P5(ts, i + 1) IN IF ~r[3] THEN Fail ELSE P4L(ts, out \o r[1] \o <<Op(K(ts, i))>>, r[2])
  ELSE <<out, i, TRUE>>
P5(ts, i) == IF ~More(ts, i) THEN Fail ELSE LET r == P6(ts, i) IN IF ~r[3] THEN Fail ELSE P5L(ts, r[1], r[2])
P5L(ts, out, i) ==
  IF More(ts, i) /\ K(ts, i) \in L5
  THEN LET r == P6(ts, i + 1) IN IF ~r[3] THEN Fail ELSE P5L(ts, out \o r[1] \o <<Op(K(ts, i))>>, r[2])
  ELSE <<out, i, TRUE>>

\* the argument loop of a call: i = index of '(' ; returns <<program of the arguments, index of the token the loop stopped at, count>>
PArgs(ts, i, out, n) ==
  LET j == i + 1 IN                                       \* moveToNextToken
  IF ~More(ts, j) THEN <<out, j, n, TRUE>>
  ELSE IF K(ts, j) = "RightBrace" /\ (Variant = "orig" \/ n = 0) THEN <<out, j, n, TRUE>>
  ELSE LET r == P0(ts, j) IN
       IF ~r[3] THEN <<out, j, n, FALSE>>
       ELSE IF More(ts, r[2]) /\ K(ts, r[2]) = "Comma" THEN PArgs(ts, r[2], out \o r[1], n + 1)
       ELSE <<out \o r[1], r[2], n + 1, TRUE>>

P6(ts, i) ==
  IF ~More(ts, i) THEN Fail
  ELSE LET neg == K(ts, i) = "Minus"
           j == IF K(ts, i) \in {"Plus", "Minus"} THEN i + 1 ELSE i
       IN IF ~More(ts, j) THEN Fail
          ELSE LET prim ==
                 CASE K(ts, j) = "Constant" -> << <<ts[j]>>, j + 1, TRUE>>
                   [] K(ts, j) = "Variable" /\ K(ts, j + 1) # "LeftBrace" -> << <<ts[j]>>, j + 1, TRUE>>
                   [] K(ts, j) = "LeftBrace" ->
                        LET r == P0(ts, j + 1) IN
                        IF ~r[3] \/ ~More(ts, r[2]) \/ K(ts, r[2]) # "RightBrace" THEN Fail ELSE <<r[1], r[2] + 1, TRUE>>
                   [] K(ts, j) = "Variable" /\ K(ts, j + 1) = "LeftBrace" ->
                        LET a == PArgs(ts, j + 1, <<>>, 0) IN
                        IF ~a[4] \/ ~More(ts, a[2]) \/ K(ts, a[2]) # "RightBrace" THEN Fail
                        ELSE <<a[1] \o << <<"Constant", ToString(a[3])>>, <<"Function", ts[j][2]>> >>, a[2] + 1, TRUE>>
                   [] OTHER -> Fail
               IN IF ~prim[3] THEN Fail
                  ELSE LET out1 == IF neg THEN prim[1] \o <<Op("Unary")>> ELSE prim[1]
                           k == prim[2]
                       IN IF More(ts, k) /\ K(ts, k) = "LeftSquareBrace"
                          THEN LET r == P0(ts, k + 1) IN
                               IF ~r[3] \/ ~More(ts, r[2]) THEN Fail
                               ELSE IF K(ts, r[2]) # "RightSquareBrace" /\ Variant # "orig" THEN Fail
                               ELSE <<out1 \o r[1] \o <<Op("Element")>>, r[2] + 1, TRUE>>      \* orig: the error was dropped
                          ELSE <<out1, k, TRUE>>

\* performParsing: lexical errors (unknown symbols) first, then the whole input must be consumed
ImplParse(ts) ==
  IF ts = <<>> \/ \E i \in 1 .. Len(ts) : ts[i][1] = "Unknown" THEN Rej
  ELSE LET r == P0(ts, 1) IN IF ~r[3] \/ More(ts, r[2]) THEN Rej ELSE r[1]
=============================================================================
