SPECIFICATION Spec
CONSTANTS
  MaxLen = 6
  Kind = "variables"
  Mode = "sim"
  Depth = 40
CHECK_DEADLOCK FALSE
