------------------------------ MODULE SymbolTrie ------------------------------
(***************************************************************************)
(* Abstract specification of the symbol state (C16): the table is a        *)
(* function from registered symbols (non-empty code-point sequences) to    *)
(* token types.  Reading at position k of an input returns the LONGEST     *)
(* registered symbol that is a prefix of the remaining input, with its own *)
(* type and text, and consumes exactly its length; if no registered symbol *)
(* is a prefix, the single next character with type Symbol.                *)
(* By construction independent of registration order and of earlier reads. *)
(***************************************************************************)
EXTENDS Integers, Sequences, FiniteSets

SymbolType == 7          \* tokenizers.Symbol

VARIABLE syms            \* function: registered symbol -> type
IsPrefixAt(s, input, k) == k + Len(s) <= Len(input) /\ SubSeq(input, k + 1, k + Len(s)) = s
Matches(tab, input, k) == {s \in DOMAIN tab : IsPrefixAt(s, input, k)}
Longest(S) == CHOOSE s \in S : \A t \in S : Len(t) <= Len(s)
\* <<type, text, new position>>; defined for k < Len(input)
NextIn(tab, input, k) ==
  LET m == Matches(tab, input, k) IN
  IF m = {} THEN <<SymbolType, <<input[k + 1]>>, k + 1>>
  ELSE LET s == Longest(m) IN <<tab[s], s, k + Len(s)>>
Next(input, k) == NextIn(syms, input, k)

TInit == syms = <<>>     \* the empty function
AddTo(tab, s, t) == [x \in DOMAIN tab \cup {s} |-> IF x = s THEN t ELSE tab[x]]
Add(s, t) == Len(s) >= 1 /\ syms' = AddTo(syms, s, t)
=============================================================================
