---------------------------- MODULE ExprNamesTrace ----------------------------
(***************************************************************************)
(* Trace validation of the expression clauses of C18 on the real           *)
(* ExpressionCalculator:                                                   *)
(*  {"op":"names","nodes":..,"root":n,"toks":..,"lexok":B,"set":S,         *)
(*   "names":[[spelling,key]..],         reported variable names           *)
(*   "before":[[name,key,id]..],"after":[[name,key,id]..]}   the default   *)
(*        collection before / after SetExpression with auto-variables on   *)
(*  {"op":"missing","what":"variable"|"function","key":k,"outcome":O,      *)
(*   "named":B}    evaluation with that one name unresolved                *)
(***************************************************************************)
EXTENDS ExprEval, Json, Held
VARIABLE l
Trace == ndJsonDeserialize("trace.ndjson")
F(ok, name) == IF ok THEN "" ELSE name \o "; "
ToSet(s) == {s[i] : i \in 1 .. Len(s)}

\* identifiers in variable position (never function names, constants, keywords), folded, in order of first occurrence
RECURSIVE VarKeys(_, _, _)
VarKeys(ns, leaves, seen) ==
  IF leaves = <<>> THEN seen
  ELSE LET n == Head(leaves) IN
       IF ns[n].k = "var" /\ ~(\E j \in 1 .. Len(seen) : seen[j] = ns[n].key)
       THEN VarKeys(ns, Tail(leaves), Append(seen, ns[n].key))
       ELSE VarKeys(ns, Tail(leaves), seen)
RECURSIVE Leaves(_, _), LeavesAll(_, _, _)
LeavesAll(ns, kids, i) == IF i > Len(kids) THEN <<>> ELSE Leaves(ns, kids[i]) \o LeavesAll(ns, kids, i + 1)
Leaves(ns, n) == IF ns[n].k \in {"const", "var"} THEN <<n>> ELSE LeavesAll(ns, ns[n].kids, 1)
Spellings(ns, key) == {ns[i].text : i \in {j \in 1 .. Len(ns) : ns[j].k = "var" /\ ns[j].key = key}}

RECURSIVE Dedup(_, _)
Dedup(s, acc) == IF s = <<>> THEN acc
                 ELSE IF \E k \in 1 .. Len(acc) : acc[k] = Head(s) THEN Dedup(Tail(s), acc)
                 ELSE Dedup(Tail(s), Append(acc, Head(s)))

NameListFails(nodes, names, want, who) ==
  LET got == [i \in 1 .. Len(names) |-> names[i][2]]
  IN   F(ToSet(got) = ToSet(want), who \o "reported variable names are not exactly the identifiers in variable position")
    \o F(\A i, j \in 1 .. Len(names) : i # j => names[i][1] # names[j][1], who \o "a variable name is reported twice")
    \o F(\A i \in 1 .. Len(names) : names[i][1] \in Spellings(nodes, names[i][2]), who \o "a reported name is not spelled as in the expression")
    \o F(ToSet(got) # ToSet(want) \/ Dedup(got, <<>>) = want, who \o "variable names are not reported in order of first occurrence")
NamesFails(e) ==
  IF RefParse(e.toks) # PostOrder(e.nodes, e.root) THEN "HARNESS: the generated tokens do not denote the generated tree; "
  ELSE IF ~e.lexok \/ e.set # "ok" THEN ""
  ELSE LET want == VarKeys(e.nodes, Leaves(e.nodes, e.root), <<>>)
           got  == [i \in 1 .. Len(e.names) |-> e.names[i][2]]
           newk == [i \in Len(e.before) + 1 .. Len(e.after) |-> e.after[i][2]]
           oldk == {e.before[i][2] : i \in 1 .. Len(e.before)}
       IN NameListFails(e.nodes, e.names, want, "")
       \o (IF "names_reused" \in DOMAIN e THEN NameListFails(e.nodes, e.names_reused, want, "a parser that parsed another expression before: ") ELSE "")
       \o F(Len(e.after) >= Len(e.before) /\ SubSeq(e.after, 1, Len(e.before)) = e.before,
            "automatic variables changed entries or values that were already in the collection")
       \o F(Len(e.after) < Len(e.before) \/
            (/\ \A i \in DOMAIN newk : newk[i] \notin oldk
             /\ \A i, j \in DOMAIN newk : i # j => newk[i] # newk[j]
             /\ {newk[i] : i \in DOMAIN newk} = ToSet(want) \ oldk),
            "automatic variables are not exactly one new entry per discovered name not already present")

MissingFails(e) ==
  F(e.outcome = "error", "a missing " \o e.what \o " did not surface as an error")
  \o (IF e.outcome # "error" THEN "" ELSE F(e.named, "the error for a missing " \o e.what \o " does not name it"))

Fails(e) == CASE e.op = "names" -> NamesFails(e) [] e.op = "missing" -> MissingFails(e) [] OTHER -> ""
Init == l = 1
Next ==
  /\ l <= Len(Trace)
  /\ l' = l + 1
  /\ LET f == Fails(Trace[l]) IN Report(l, f, Trace[l])
Spec == Init /\ [][Next]_l
Accepted == TLCGet("stats").diameter - 1 = Len(Trace)
=============================================================================
