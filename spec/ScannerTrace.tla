---------------------------- MODULE ScannerTrace ----------------------------
(***************************************************************************)
(* Trace validation for C11: every call recorded on the real               *)
(* io.StringScanner (by verifdrv C11) must be a step of Scanner, and every *)
(* observation logged after the call must equal the abstract observer.     *)
(*                                                                         *)
(* One NDJSON line per call:                                               *)
(*   {"seg":n,"op":"new","content":[cp..],"obs":O}                         *)
(*   {"seg":n,"op":"read","ret":cp,"obs":O}                                *)
(*   {"seg":n,"op":"unread"|"reset","obs":O}                               *)
(*   {"seg":n,"op":"unreadmany","n":i,"obs":O}                             *)
(* O = {k,line,col,peek,pline,pcol,k2,line2,col2}: cursor (guarded hook    *)
(* VerifCursor = position+1), Line(), Column(), then the three peeks, then *)
(* cursor/Line/Column again (peeks must not move anything).                *)
(* A failing line is printed and the run continues (see TraceBase idiom).  *)
(* The same events are also recorded INSIDE the library (guarded hook      *)
(* StringScanner.verifEvent, one line per state-changing call at its       *)
(* return) while the repository's own test-suite and the tokenizers of     *)
(* another check's driver run: bin/check groups them by scanner instance   *)
(* into segments of this format (without "ret").                           *)
(***************************************************************************)
EXTENDS Scanner, Json, TLC, Held

VARIABLES l, other,    \* other: <<content, position>> of a second scanner that stays alive while the current one is used
          last         \* what the current scanner reported after the previous call: <<TRUE, peeked line, peeked column>>, or <<FALSE, 0, 0>>
Trace == ndJsonDeserialize("trace.ndjson")

\* Each clause contributes its name when it fails; "" means the event is accepted.
F(ok, name) == IF ok THEN "" ELSE name \o "; "

ObsFails(o, s, i) ==   \* s, i: content and position AFTER the call
  LET open == HasOtherBreak(s)
      lc   == IF open THEN <<0, 0>> ELSE LC(s, i)                       \* one forward scan for the position ...
      plc  == IF open THEN <<0, 0>> ELSE LCAdv(s, lc, i, KNextOf(s, i))  \* ... continued by one slot for the peeked one
  IN
     F(o.k = i, "cursor position")
  \o F(open \/ (o.line = lc[1] /\ o.col = lc[2]), "line/column is not that of a forward scan to the position")
  \o F(o.peek = PeekOf(s, i), "peek")
  \o F(open \/ (o.pline = plc[1] /\ o.pcol = plc[2]),
       "peeked line/column differ from those after the next read")
  \o F(o.k2 = o.k /\ o.line2 = o.line /\ o.col2 = o.col, "a peek moved the cursor")

Apply(e) ==
  CASE e.op = "new"        -> content' = e.content /\ k' = 0 /\ other' = IF e.first THEN <<<<>>, 0>> ELSE other
    [] e.op = "read"       -> Read /\ UNCHANGED other
    [] e.op = "unread"     -> Unread /\ UNCHANGED other
    [] e.op = "unreadmany" -> UnreadMany(e.n) /\ UNCHANGED other
    [] e.op = "reset"      -> Reset /\ UNCHANGED other
    [] e.op = "readmany"   -> k' = Min(k + e.n, Len(content) + 1) /\ UNCHANGED <<content, other>>    \* n reads in one step
    \* the two scanners change places: each is exactly where it was left, whatever was done with the other one meanwhile
    [] e.op = "switch"     -> content' = other[1] /\ k' = other[2] /\ other' = <<content, k>>

\* (calls traced inside the library - the repository's own tests and the tokenizers as clients, hook verifEvent - carry no
\* return value: they are judged by what the scanner reports after them)
\* "the peeked line and column are those reported after the next read" - whatever the text is made of (also characters whose
\* counting as line breaks is left open): a read reports the line and column that were peeked just before it
PeekThenReadFails(e) == F(e.op = "read" /\ last[1] => e.obs.line = last[2] /\ e.obs.col = last[3],
                          "the line/column reported after a read are not those peeked before it")
RetFails(e) == F(e.op = "read" /\ "ret" \in DOMAIN e => e.ret = ReadRet, "read returned the wrong character")
            \o F(e.op = "readmany" /\ e.n >= 1 => e.ret = CharAt(content, k + e.n), "read returned the wrong character")

Init == l = 1 /\ content = <<>> /\ k = 0 /\ other = <<<<>>, 0>> /\ last = <<FALSE, 0, 0>>
Next ==
  /\ l <= Len(Trace)
  /\ l' = l + 1
  /\ LET e == Trace[l] IN
     /\ Apply(e)
     /\ last' = IF e.op = "switch" THEN <<FALSE, 0, 0>> ELSE <<TRUE, e.obs.pline, e.obs.pcol>>
     /\ LET f == RetFails(e) \o PeekThenReadFails(e) \o ObsFails(e.obs, content', k') IN
        Report(l, f, Trace[l])
Spec == Init /\ [][Next]_<<l, content, k, other, last>>
Accepted == TLCGet("stats").diameter - 1 = Len(Trace)
=============================================================================
