SPECIFICATION Spec
CONSTANTS
  MaxLen = 4
  Variant = "orig"
INVARIANTS NoSkipped Consumes
PROPERTY Terminates
