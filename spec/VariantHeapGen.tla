---------------------------- MODULE VariantHeapGen ----------------------------
(***************************************************************************)
(* Behaviour generator for C20 (specification -> code).  The value model   *)
(* of variants runs with a history variable over NSlots variant slots, one *)
(* caller-owned list and two named elements; TLC explores every state      *)
(* reachable within MaxOps operations (each expanded once, from a shortest *)
(* history) and prints the history of every transition.  `exp` = what the  *)
(* model predicts every slot to show afterwards: type, scalar payload, and *)
(* the elements of an array (growth elements as "nul", "other" once        *)
(* changed in place).  The way a list becomes a variant and a variant is   *)
(* copied (SetAsArray / SetAsObject / VariantFromArray / NewVariant; Clone *)
(* / Assign / SetAsObject / NewVariant) is varied with the slots involved. *)
(***************************************************************************)
EXTENDS VariantHeap, Json
CONSTANTS NSlots, MaxOps, Mode, Depth
VARIABLES n, hist
Slots == 1 .. NSlots
Elems == {"e1", "e2"}
ListHow(v, k) == <<"SetAsArray", "NewVariant", "VariantFromArray", "SetAsObject">>[((v + k) % 4) + 1]
CopyHow(w, v, k) == <<"Clone", "Assign", "SetAsObject", "NewVariant">>[((w + 2 * v + k) % 4) + 1]
Emit(h) == PrintT("BEHAV " \o ToJson(h))
Shown(vv, pp, mm) == [s \in 1 .. 4 |-> IF s \in DOMAIN vv
                        THEN <<vv[s][1], IF vv[s][1] \in {"Array", "Null"} THEN "" ELSE vv[s][2],
                               IF vv[s][1] = "Array" THEN [k \in 1 .. Len(vv[s][2]) |-> Seen(vv[s][2][k], pp, mm)] ELSE <<>> >>
                        ELSE <<"Null", "", <<>> >>]
Init == HInit(1 .. 4, {"L1", "L2"}) /\ n = 0 /\ hist = <<[op |-> "new"]>>
Do(ev, act) == act /\ hist' = Append(hist, IF Mode = "cover" THEN ev @@ [exp |-> [vars |-> Shown(vs', pads', mut')]] ELSE ev)
Step ==
  /\ n' = n + 1
  /\ \/ \E v \in Slots, p \in {"1", "x"} : Do([op |-> "setscalar", v |-> v, type |-> "String", payload |-> p], SetScalar(v, "String", p))
     \/ \E v \in Slots : Do([op |-> "fromlist", v |-> v, list |-> "L1", how |-> ListHow(v, n)], FromList(v, "L1"))
     \/ \E v \in Slots, i \in 0 .. 2, e \in Elems : IsArr(v) /\ Do([op |-> "setbyindex", v |-> v, i |-> i, e |-> e], SetByIndex(v, i, e))
     \/ \E v \in Slots, k \in {0, 2} : IsArr(v) /\ k >= Len(vs[v][2]) /\ Do([op |-> "setlength", v |-> v, n |-> k], SetLength(v, k))
     \/ \E v, w \in Slots : v # w /\ Do([op |-> "copy", w |-> w, v |-> v, how |-> CopyHow(w, v, n)], CopyTo(w, v))
     \/ \E v \in Slots : Do([op |-> "clear", v |-> v], ClearV(v))
     \/ \E v \in Slots, i \in 0 .. 2 : IsArr(v) /\ i < Len(vs[v][2]) /\ vs[v][2][i + 1] \in pads /\ (\A w \in Slots \ {v} : IF IsArr(w) THEN \A k \in 1 .. Len(vs[w][2]) : vs[w][2][k] # vs[v][2][i + 1] ELSE TRUE) /\ Do([op |-> "mutelem", v |-> v, i |-> i], MutElem(v, i))
     \/ \E s \in {<<>>, <<"e1">>, <<"e1", "e2">>} : Do([op |-> "listset", list |-> "L1", elems |-> s], ListSet("L1", s))
     \/ \E i \in 0 .. 1, e \in Elems : i < Len(ls["L1"]) /\ Do([op |-> "listput", list |-> "L1", i |-> i, e |-> e], ListPut("L1", i, e))
     \/ \E e \in Elems : Len(ls["L1"]) < 3 /\ Do([op |-> "listappend", list |-> "L1", e |-> e], ListAppend("L1", e))
     \/ \E k \in 0 .. 1 : k <= Len(ls["L1"]) /\ Do([op |-> "listcut", list |-> "L1", n |-> k], ListCut("L1", k))
Next == IF Mode = "cover" THEN n < MaxOps /\ Step /\ Emit(hist')
        ELSE IF n < Depth THEN Step ELSE Emit(hist) /\ UNCHANGED <<vs, ls, pads, mut, n, hist>>
Spec == Init /\ [][Next]_<<vs, ls, pads, mut, n, hist>>
View == <<vs, ls, pads, mut, n>>
=============================================================================
