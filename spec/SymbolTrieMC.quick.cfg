SPECIFICATION Spec
CONSTANTS
  MaxSym = 3
  MaxIn = 3
  MaxRegs = 4
  Variant = "fixed"
  Reads = FALSE
INVARIANTS Refines NoUnregisteredPrefix
CHECK_DEADLOCK FALSE
