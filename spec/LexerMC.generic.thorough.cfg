SPECIFICATION Spec
CONSTANTS
  MaxLen = 4
  Kind = "generic"
INVARIANTS LosslessInv OptionInv PositionInv
CHECK_DEADLOCK FALSE
