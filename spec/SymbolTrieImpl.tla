---------------------------- MODULE SymbolTrieImpl ----------------------------
(***************************************************************************)
(* Implementation-shaped model of SymbolRootNode/SymbolNode: a trie whose  *)
(* nodes are identified by their path; every node has `valid` and          *)
(* `tokenType` (0 = Unknown = "unset").  Add marks the first-character     *)
(* node valid with type Symbol if it is still unset, creates the           *)
(* descendant line and marks only its last node valid with the given type. *)
(* NextToken = DeepestRead (longest path that is a node) followed by       *)
(* UnreadToValid (walk up to the nearest valid ancestor, unreading one     *)
(* character per step); the token text is the node's ancestry.             *)
(* Variant "orig" additionally models the memoised ancestry: a node's text *)
(* is computed on first use as append(parent's cached slice, char); when   *)
(* the parent's slice has spare capacity the append writes into the shared *)
(* backing array, so a sibling computed LATER overwrites the last          *)
(* character of one computed EARLIER (cap > len is chosen                  *)
(* nondeterministically, as Go's growth policy permits).                   *)
(***************************************************************************)
EXTENDS Integers, Sequences, FiniteSets
CONSTANT Variant
VARIABLES nodes, valid, ttype, cache
\* nodes: set of paths; valid: subset; ttype: [nodes -> Int]; cache: [nodes -> text] texts memoised so far
Prefixes(s) == {SubSeq(s, 1, i) : i \in 1 .. Len(s)}

IInit == nodes = {} /\ valid = {} /\ ttype = <<>> /\ cache = <<>>

IAdd(s, t) ==
  LET first == <<s[1]>>
      firstUnset == first \notin nodes \/ (first \in nodes /\ ttype[first] = 0)
      n2 == nodes \cup Prefixes(s)
      ty0 == [x \in n2 |-> IF x \in nodes THEN ttype[x] ELSE 0]
      ty1 == IF firstUnset THEN [ty0 EXCEPT ![first] = 7] ELSE ty0
  IN /\ nodes' = n2
     /\ valid' = valid \cup {s} \cup (IF firstUnset THEN {first} ELSE {})
     /\ ttype' = [ty1 EXCEPT ![s] = t]
     /\ UNCHANGED cache

\* longest path along the input that is a node (input[k+1] must start a node)
Deepest(input, k) ==
  LET cand == {i \in 1 .. (Len(input) - k) : SubSeq(input, k + 1, k + i) \in nodes
                                            /\ \A j \in 1 .. i : SubSeq(input, k + 1, k + j) \in nodes}
  IN SubSeq(input, k + 1, k + (CHOOSE i \in cand : \A j \in cand : j <= i))
RECURSIVE ToValid(_)
ToValid(p) == IF p \notin valid /\ Len(p) > 1 THEN ToValid(SubSeq(p, 1, Len(p) - 1)) ELSE p

\* text reported for node p given the memo table (orig) or its path (fixed)
TextOf(p) == IF Variant = "orig" /\ p \in DOMAIN cache THEN cache[p] ELSE p

\* <<type, text, new position>>
INext(input, k) ==
  IF <<input[k + 1]>> \notin nodes THEN <<7, <<input[k + 1]>>, k + 1>>
  ELSE LET p == ToValid(Deepest(input, k)) IN <<ttype[p], TextOf(p), k + Len(p)>>

\* effect of computing node p's ancestry on the memo table (orig variant only):
\* p's text is memoised; every already memoised sibling that shares the parent's backing
\* array (may happen when cap > len) has its last character overwritten.
IMemo(input, k, shared) ==
  IF Variant # "orig" \/ <<input[k + 1]>> \notin nodes THEN UNCHANGED cache
  ELSE LET p == ToValid(Deepest(input, k)) IN
       IF p \in DOMAIN cache THEN UNCHANGED cache
       ELSE LET sibs == {q \in DOMAIN cache : Len(q) = Len(p) /\ Len(p) > 1
                                /\ SubSeq(q, 1, Len(q) - 1) = SubSeq(p, 1, Len(p) - 1)}
            IN cache' = [q \in DOMAIN cache \cup {p} |->
                           IF q = p THEN p
                           ELSE IF shared /\ q \in sibs
                                THEN SubSeq(cache[q], 1, Len(q) - 1) \o <<p[Len(p)]>>
                                ELSE cache[q]]
=============================================================================
