------------------------------- MODULE CharMap -------------------------------
(***************************************************************************)
(* Abstract specification of tokenizers/utilities/CharReferenceMap (C17):  *)
(* the map is the list of range registrations since the last clear; a      *)
(* lookup answers with the reference of the LATEST registration that       *)
(* covers the character, "nil" if there is none or it carried no reference.*)
(* Uniform over the whole range 0..0xFFFE the map is configured for; ends  *)
(* above 0xFFFE are clamped to it.                                         *)
(***************************************************************************)
EXTENDS Integers, Sequences, FiniteSets

NoRef   == "nil"
MaxChar == 65534          \* 0xFFFE

VARIABLE regs             \* sequence of <<lo, hi, ref>>, oldest first
\* a registration that starts at or below U+FFFE reaches at most U+FFFE (the configured range of the tokenizers);
\* one that lies entirely above it is kept as given
Covers(r, ch) == r[1] <= ch /\ ch <= r[2] /\ ch >= 0 /\ (r[1] <= MaxChar => ch <= MaxChar)
SetMax(S) == CHOOSE x \in S : \A y \in S : y <= x
LookupIn(rs, ch) ==
  LET idx == {i \in 1 .. Len(rs) : Covers(rs[i], ch)}
  IN IF idx = {} THEN NoRef ELSE rs[SetMax(idx)][3]
Lookup(ch) == LookupIn(regs, ch)
\* The same with every range taken literally (no cut at U+FFFE). For a character above U+FFFE under a registration that starts
\* at or below U+FFFE and reaches beyond it the two readings differ; "whose range contains it" supports the literal one, "the
\* range the tokenizer is configured for" the cut - a look-up there may answer with either.
CoversLit(r, ch) == r[1] <= ch /\ ch <= r[2] /\ ch >= 0
LookupLitIn(rs, ch) ==
  LET idx == {i \in 1 .. Len(rs) : CoversLit(rs[i], ch)}
  IN IF idx = {} THEN NoRef ELSE rs[SetMax(idx)][3]

CInit == regs = <<>>
AddInterval(lo, hi, ref) == lo <= hi /\ regs' = Append(regs, <<lo, hi, ref>>)
AddDefault(ref) == regs' = Append(regs, <<0, MaxChar, ref>>)
Clear == regs' = <<>>
=============================================================================
