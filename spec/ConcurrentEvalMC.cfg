SPECIFICATION Spec
CONSTANTS
  Procs = {1, 2}
  Program <- P7
  Sharing = "none"
INVARIANT ResultsSequential
PROPERTIES ProgramUntouched Isolation
CHECK_DEADLOCK FALSE
