SPECIFICATION Spec
CONSTANTS
  Procs = {1, 2}
  Program <- P7
  Sharing = "stack"
INVARIANT ResultsSequential
CHECK_DEADLOCK FALSE
