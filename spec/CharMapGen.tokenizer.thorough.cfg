SPECIFICATION Spec
CONSTANTS
  Depth = 3
  Mode = "cover"
  Target = "tokenizer"
VIEW View
CHECK_DEADLOCK FALSE
