---------------------------- MODULE CollectionsGen ----------------------------
(***************************************************************************)
(* Behaviour generator for C18, clause (b) (specification -> code).  The   *)
(* list model of the variable / function collection runs with a history    *)
(* variable.  Entry identities are handed out in order of creation ("#1",  *)
(* "#2", ... - the recorder numbers the objects it sees the same way), the *)
(* VIEW forgets the concrete numbers (only which positions hold the same   *)
(* object matters), so TLC explores every list of up to MaxLen entries     *)
(* over the names {a, A, b} once and prints, for every operation from      *)
(* every such list - queries included -, the history ending with it.       *)
(* `exp` = the complete list after the call and the call's result.         *)
(***************************************************************************)
EXTENDS Collections, Json, TLC
CONSTANTS MaxLen, Kind, Mode, Depth
VARIABLES cnt, hist

Names == {"a", "A", "b"}
Key(n) == IF n = "b" THEN "B" ELSE "A"
Vars == Kind = "variables"
Id(i) == "#" \o ToString(i)
Emit(h) == PrintT("BEHAV " \o ToJson(h))
Init == CInit /\ cnt = 0 /\ hist = <<[op |-> "new", kind |-> Kind]>>

\* one step: the model's action, the event, and what the model predicts (the list afterwards, the result if any)
Ev(ev, x) == hist' = Append(hist, ev @@ [exp |-> [list |-> items'] @@ x])
NoRet == <<>>   \* the empty record
Query(ev, r) == UNCHANGED <<items, cnt>> /\ Ev(ev, [ret |-> r])
Step ==
  \/ /\ Len(items) < MaxLen
     /\ \E n \in Names, nul \in (IF Vars THEN BOOLEAN ELSE {FALSE}) :
          /\ Add(n, Key(n), Id(cnt + 1), nul)
          /\ Ev([op |-> "add", name |-> n, isnull |-> nul], [id |-> Id(cnt + 1)])
     /\ cnt' = cnt + 1
  \/ /\ Vars /\ Len(items) < MaxLen
     /\ \E n \in Names :
          /\ Locate(n, Key(n), Id(cnt + 1))
          /\ cnt' = IF Hits(Key(n)) = {} THEN cnt + 1 ELSE cnt
          /\ Ev([op |-> "locate", name |-> n], [ret |-> IF Hits(Key(n)) = {} THEN Id(cnt + 1) ELSE FindId(Key(n))])
  \/ \E i \in 0 .. MaxLen - 1 : Remove(i) /\ UNCHANGED cnt /\ Ev([op |-> "remove", index |-> i], NoRet)
  \/ /\ Len(items) < MaxLen
     /\ \E i \in 0 .. MaxLen - 1 : AddAgain(i) /\ UNCHANGED cnt /\ Ev([op |-> "addagain", index |-> i], NoRet)
  \/ \E n \in Names : RemoveByName(Key(n)) /\ UNCHANGED cnt /\ Ev([op |-> "removebyname", name |-> n], NoRet)
  \/ Clear /\ UNCHANGED cnt /\ Ev([op |-> "clear"], NoRet)
  \/ Vars /\ ClearValues /\ UNCHANGED cnt /\ Ev([op |-> "clearvalues"], NoRet)
  \/ Vars /\ \E n \in Names : SetValue(Key(n)) /\ UNCHANGED cnt /\ Ev([op |-> "setvalue", name |-> n], NoRet)
  \/ \E n \in Names : Query([op |-> "find", name |-> n], FindId(Key(n)))
  \/ \E n \in Names : Query([op |-> "findindex", name |-> n], FindIndex(Key(n)))
  \/ Query([op |-> "length"], Len(items))
  \/ \E i \in 0 .. MaxLen : Query([op |-> "get", index |-> i], IF i < Len(items) THEN items[i + 1][3] ELSE "none")

Next == IF Mode = "cover" THEN Step /\ Emit(hist')
        ELSE IF Len(hist) <= Depth THEN Step ELSE Emit(hist) /\ UNCHANGED <<items, cnt, hist>>
Spec == Init /\ [][Next]_<<items, cnt, hist>>
\* identities up to renaming: position of the first occurrence of the same object
Rank(i) == CHOOSE j \in 1 .. i : items[j][3] = items[i][3] /\ \A m \in 1 .. j - 1 : items[m][3] # items[i][3]
View == [i \in 1 .. Len(items) |-> <<items[i][1], Rank(i), items[i][4]>>]
=============================================================================
