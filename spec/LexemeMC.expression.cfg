SPECIFICATION Spec
CONSTANT Kind = "expression"
INVARIANTS AllWellFormed TokenizesBack
CHECK_DEADLOCK FALSE
