SPECIFICATION Spec
CONSTANTS
  MaxLen = 4
  Kind = "variables"
  Mode = "cover"
  Depth = 0
VIEW View
CHECK_DEADLOCK FALSE
