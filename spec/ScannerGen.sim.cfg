SPECIFICATION Spec
CONSTANTS
  MaxLen = 7
  Depth = 40
  Mode = "sim"
CHECK_DEADLOCK FALSE
