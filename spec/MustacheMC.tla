------------------------------ MODULE MustacheMC ------------------------------
(***************************************************************************)
(* For every lexeme string up to MaxLen over the 12-lexeme alphabet: the   *)
(* implementation-shaped front end accepts what the reference recogniser   *)
(* says MUST be accepted and rejects what MUST be rejected (nothing is     *)
(* demanded where the property is silent); rendering is total on           *)
(* well-formed templates.                                                  *)
(***************************************************************************)
EXTENDS MustacheImpl, TLC
CONSTANT MaxLen
VARIABLE lx
T(k, s) == <<k, s, s>>
Alpha == { T("text", <<120>>), T("ws", <<32>>), T("{{", <<123, 123>>), T("{{{", <<123, 123, 123>>), T("}}", <<125, 125>>), T("}}}", <<125, 125, 125>>),
           T("#", <<35>>), T("^", <<94>>), T("/", <<47>>), T("!", <<33>>), T("word", <<97>>), T("word", IF_) }
RECURSIVE Strs(_)
Strs(n) == IF n = 0 THEN {<<>>} ELSE LET S == Strs(n - 1) IN S \cup {Append(x, c) : x \in {t \in S : Len(t) = n - 1}, c \in Alpha}
\* the driver never writes two word-like lexemes or two same-direction brace lexemes next to each other (they would be read as one)
Faithful(s) == \A i \in 1 .. Len(s) - 1 :
   /\ ~(Wordish(s[i]) /\ Wordish(s[i + 1]))
   /\ ~(s[i][1] \in Openers /\ s[i + 1][1] \in Openers) /\ ~(s[i][1] \in Closers /\ s[i + 1][1] \in Closers)
Init == lx \in {s \in Strs(MaxLen) : s # <<>> /\ Faithful(s) /\ s[1][1] # "ws" /\ s[Len(s)][1] # "ws"}
Next == UNCHANGED lx
Spec == Init /\ [][Next]_lx
Agrees == LET p == MParse(lx) IN
          /\ p[1] = "ok" => ImplAccept(lx)
          /\ p[1] = "reject" => ~ImplAccept(lx)
RenderTotal == LET p == MParse(lx) IN p[1] = "ok" => Len(Render(p[2], << <<<<97>>, <<118>>>> >>)) >= 0
=============================================================================
