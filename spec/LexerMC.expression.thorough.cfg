SPECIFICATION Spec
CONSTANTS
  MaxLen = 4
  Kind = "expression"
INVARIANTS LosslessInv OptionInv PositionInv
CHECK_DEADLOCK FALSE
