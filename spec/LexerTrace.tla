------------------------------ MODULE LexerTrace ------------------------------
(***************************************************************************)
(* Trace validation for C13: a sequence of lexemes [[cls,[cp..]]..] was    *)
(* written out (text = their concatenation) and tokenized by the real      *)
(* generic / expression tokenizer with all options off.                    *)
(*  {"op":"lex","kind":K,"lexemes":[[cls,[cp..]]..],"toks":[[type,[cp..]]..],"outcome":O} *)
(* (H) every lexeme is well-formed for its class and every adjacency is    *)
(* one the lexer cannot merge (validates the generator); then the tokens   *)
(* must be exactly the lexemes, each with the type of its class, followed  *)
(* by the end-of-input marker.                                             *)
(***************************************************************************)
EXTENDS Lexer, Json, TLC, Held
VARIABLE l
Trace == ndJsonDeserialize("trace.ndjson")

Fails(e) ==
  LET lx == e.lexemes
      n == Len(lx)
  IN IF ~(\A i \in 1 .. n : WellFormed(e.kind, lx[i][1], lx[i][2]))
        \/ ~(\A i \in 1 .. n - 1 : CanAbut(e.kind, lx[i][1], lx[i][2], lx[i + 1][1], lx[i + 1][2]))
     THEN "HARNESS: the generated lexeme sequence is not well-formed / separable by the lexical grammar; "
     ELSE IF e.outcome # "ok" THEN "tokenization did not return normally; "
     \* "identifiers may start with any configured letter, Latin or not": which letters beyond Latin-1 the expression tokenizer is
     \* configured with is a configuration fact, not part of the property - a character from there that the lexical model writes
     \* as a symbol may as well be a letter (and then merges with its neighbours): such sequences are not judged
     ELSE IF e.kind \in {"expression", "expression-custom"} /\ \E i \in 1 .. n : lx[i][1] = "symbol" /\ lx[i][2][1] >= 256 THEN ""
     \* likewise configuration facts: a '+' directly before a number in the generic tokenizer ("a sign is part of the number
     \* generically"), two slashes in a row in expressions (a comment syntax of its own), and a Unicode space character written as a
     \* symbol (which characters form "whitespace runs")
     ELSE IF e.kind = "generic" /\ \E i \in 1 .. n - 1 : lx[i][2] = <<43>> /\ lx[i + 1][1] \in {"integer", "float"} THEN ""
     ELSE IF e.kind \in {"expression", "expression-custom"} /\ \E i \in 1 .. n - 1 : lx[i][2] = <<47>> /\ lx[i + 1][2][1] = 47 THEN ""
     ELSE IF \E i \in 1 .. n : lx[i][1] = "symbol" /\ lx[i][2][1] \in ({133, 160, 5760, 8232, 8233, 8239, 8287, 12288} \cup (8192 .. 8202)) THEN ""
     ELSE LET want == [i \in 1 .. n + 1 |-> IF i <= n THEN <<TypeOf(e.kind, lx[i][1]), lx[i][2]>> ELSE <<1, <<>>>>]
              got  == [i \in 1 .. Len(e.toks) |-> <<e.toks[i][1], e.toks[i][2]>>]
          IN IF got = want THEN ""
             ELSE IF Len(got) = Len(want) /\ \A i \in 1 .. Len(got) : got[i][2] = want[i][2]
                  THEN "a lexeme is reported with the wrong class; "
                  ELSE "the lexeme sequence is not tokenized back into exactly those lexemes; "
Init == l = 1
Next ==
  /\ l <= Len(Trace)
  /\ l' = l + 1
  /\ LET f == Fails(Trace[l]) IN Report(l, f, Trace[l])
Spec == Init /\ [][Next]_l
Accepted == TLCGet("stats").diameter - 1 = Len(Trace)
=============================================================================
