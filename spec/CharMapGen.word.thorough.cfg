SPECIFICATION Spec
CONSTANTS
  Depth = 3
  Mode = "cover"
  Target = "word"
VIEW View
CHECK_DEADLOCK FALSE
