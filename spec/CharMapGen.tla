----------------------------- MODULE CharMapGen -----------------------------
(***************************************************************************)
(* Behaviour generator for C17 (specification -> code).  The abstract      *)
(* CharMap runs with a history variable.  The VIEW is the VALUE of the map *)
(* at the probe set (the function probe -> looked-up reference), so TLC    *)
(* explores the graph of distinct map values reachable within Depth        *)
(* registrations - each value expanded once, from a shortest history - and *)
(* prints for every transition (every operation from every distinct map    *)
(* value) the history ending with it: "BEHAV [..]", input events in the    *)
(* recorder's format, each with `exp` = the probe/reference pairs the      *)
(* model predicts.  verifdrv steps a real CharReferenceMap (and, by the    *)
(* constant Target, a tokenizer's character-state table or a word /        *)
(* whitespace class) through them.                                         *)
(***************************************************************************)
EXTENDS CharMap, Json, TLC
CONSTANTS Depth, Mode, Target
VARIABLES hist, n

Ends   == {0, 97, 255, 256, 257, 8192, 65534}
Probes == {p \in UNION {{e - 1, e, e + 1} : e \in Ends} : p >= 0} \cup {353, 8289, 65533, 65536, 65601, 128512}
Refs   == IF Target \in {"word", "ws"} THEN {"A", "nil"} ELSE {"A", "B", "nil"}
RECURSIVE SetToSeq(_)
SetToSeq(S) == IF S = {} THEN <<>> ELSE LET x == CHOOSE y \in S : \A z \in S : y <= z IN <<x>> \o SetToSeq(S \ {x})
ProbeSeq == SetToSeq(Probes)
Shown(r) == IF Target \in {"word", "ws"} THEN (IF r = NoRef THEN "nil" ELSE "set") ELSE r
Look(rs) == [i \in 1 .. Len(ProbeSeq) |-> <<ProbeSeq[i], Shown(LookupIn(rs, ProbeSeq[i]))>>]
Emit(h) == PrintT("BEHAV " \o ToJson(h))

Init == CInit /\ n = 0 /\ hist = <<[op |-> "new", target |-> Target, exp |-> [look |-> Look(<<>>)]]>>
\* (random behaviours carry no prediction: the trace specification computes the expected look-ups itself)
Do(ev, act) == act /\ hist' = Append(hist, IF Mode = "cover" THEN ev @@ [exp |-> [look |-> Look(regs')]] ELSE ev)
Step ==
  /\ n' = n + 1
  /\ \/ \E lo \in Ends, hi \in Ends, r \in Refs : lo <= hi /\ Do([op |-> "add", lo |-> lo, hi |-> hi, ref |-> r], AddInterval(lo, hi, r))
     \/ \E r \in Refs : Do([op |-> "adddefault", ref |-> r], AddDefault(r))
     \/ Do([op |-> "clear"], Clear)
Next == IF Mode = "cover" THEN n < Depth /\ Step /\ Emit(hist')
        ELSE IF n < Depth THEN Step ELSE Emit(hist) /\ UNCHANGED <<regs, hist, n>>
Spec == Init /\ [][Next]_<<regs, hist, n>>
\* the value of the map (not the way it was built) and the number of steps left
View == <<[p \in Probes |-> Lookup(p)], n>>
=============================================================================
