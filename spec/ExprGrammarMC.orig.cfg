SPECIFICATION Spec
CONSTANTS
  MaxLen = 3
  Variant = "orig"
INVARIANTS Refines WellFormedProgram ParenNeutral
CHECK_DEADLOCK FALSE
