SPECIFICATION Spec
CONSTANT MaxLen = 3
INVARIANTS RoundTrip ReadBack
CHECK_DEADLOCK FALSE
