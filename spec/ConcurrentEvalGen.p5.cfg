SPECIFICATION GSpec
CONSTANTS
  Procs = {1, 2, 3}
  Program <- P5
  Sharing = "none"
  Text = "c ^ 2 + a"
INVARIANT GResults
CHECK_DEADLOCK FALSE
