-------------------------- MODULE TokenStreamTrace --------------------------
(***************************************************************************)
(* Trace validation for C04, C12 and C15 (selected by the constant Check). *)
(* One event per tokenization of one input by one real tokenizer:          *)
(*  {"op":"tok","kind":K,"opts":[names],"input":[cp..],                    *)
(*   "base":[[type,[cp..],line,col]..],    stream with all options off     *)
(*   "out":[[type,[cp..],line,col]..],     stream under opts               *)
(*   "outcome":"ok"|"panic"|"hang"}                                        *)
(* Each check evaluates only its own property's predicate; a case whose    *)
(* base stream is not lossless is not judged by C12 (that is C04's job).   *)
(***************************************************************************)
EXTENDS RefLexer, Json, TLC, Held
CONSTANT Check

VARIABLE l
Trace == ndJsonDeserialize("trace.ndjson")
ToSet(s) == {s[i] : i \in 1 .. Len(s)}

Fails(e) ==
  IF e.outcome # "ok" THEN
     \* no stream at all.  C04 judges the option-free run; C15 the run under options when the option-free
     \* run did return (enabling an option must only drop or rewrite tokens); C12 has nothing to judge.
     (IF Check = "C04" THEN "tokenization did not return normally; "
      ELSE IF Check = "C15" /\ e.outcome_base = "ok" THEN "no token stream under the options although the option-free run returns one; "
      ELSE "")
  ELSE IF Check = "C04" THEN LosslessFails(e.input, e.base)
  ELSE IF Check = "C15" THEN OptionFails(ToSet(e.opts), e.kind, e.input, e.base, e.out)
  ELSE IF Check = "C12" THEN
       (IF Lossless(e.input, e.base) /\ Aligned(ToSet(e.opts), e.kind, e.input, e.base, e.out, FALSE)
        THEN PositionFails(ToSet(e.opts), e.kind, e.input, e.base, e.out)
        ELSE "")
  ELSE "unknown check; "

\* drift (reported, never a verdict): the real option-free stream differs from the reference lexer of the specification
Drift(e) == /\ Check = "C04" /\ ~("strings" \in DOMAIN e /\ e.strings) /\ e.kind \in {"generic", "expression", "expression-custom"} /\ e.outcome = "ok" /\ Len(e.input) <= 4200   \* (the reference lexer is recursive)
            /\ [i \in 1 .. Len(e.base) |-> <<e.base[i][1], e.base[i][2]>>] # RefTokens(e.kind, e.input)
Init == l = 1
Next ==
  /\ l <= Len(Trace)
  /\ l' = l + 1
  /\ (~Drift(Trace[l]) \/ PrintT("SPEC-DRIFT " \o ToString(l) \o " the option-free stream differs from RefLexer.RefTokens"))
  /\ LET f == Fails(Trace[l]) IN Report(l, f, Trace[l])
Spec == Init /\ [][Next]_l
Accepted == TLCGet("stats").diameter - 1 = Len(Trace)
=============================================================================
