-------------------------------- MODULE Lexer --------------------------------
(***************************************************************************)
(* Lexical grammar of the generic and the expression tokenizer (C13): the  *)
(* lexeme classes, which texts are well-formed lexemes of a class, which   *)
(* token type a lexeme must be reported with, and when two lexemes may be  *)
(* written next to each other without the lexer being able to merge them.  *)
(* kind \in {"generic", "expression", "expression-custom" (= expression plus  *)
(* the user-registered symbols -> => -- -=)}; cls \in {"word", "keyword",         *)
(* "integer", "float", "quoted", "dquoted", "comment", "ws", "symbol"}.    *)
(***************************************************************************)
EXTENDS Integers, Sequences

Digit(c) == c >= 48 /\ c <= 57
Latin(c) == (c >= 97 /\ c <= 122) \/ (c >= 65 /\ c <= 90)
\* the host's simple upper-case mapping, as far as it can produce a keyword letter: ASCII letters, long s (U+017F), dotless i (U+0131)
Upper(c) == IF c >= 97 /\ c <= 122 THEN c - 32 ELSE IF c = 383 THEN 83 ELSE IF c = 305 THEN 73 ELSE c
WsChar(c) == c >= 0 /\ c <= 32
\* characters that may START / CONTINUE an identifier
WordStart(kind, c) == IF kind = "generic" THEN Latin(c) \/ (c >= 192 /\ c <= 65534)
                      ELSE Latin(c) \/ c = 95 \/ (c >= 192 /\ c <= 255)
WordPart(kind, c) == IF kind = "generic" THEN Latin(c) \/ Digit(c) \/ c = 45 \/ c = 95 \/ (c >= 192 /\ c <= 65534)
                     ELSE Latin(c) \/ Digit(c) \/ c = 95 \/ (c >= 192 /\ c <= 65534)
Keywords == {<<65, 78, 68>>, <<79, 82>>, <<78, 79, 84>>, <<88, 79, 82>>, <<76, 73, 75, 69>>, <<73, 83>>, <<73, 78>>,
             <<78, 85, 76, 76>>, <<84, 82, 85, 69>>, <<70, 65, 76, 83, 69>>}    \* AND OR NOT XOR LIKE IS IN NULL TRUE FALSE
UpperSeq(s) == [i \in 1 .. Len(s) |-> Upper(s[i])]
MultiSymbols(kind) == IF kind = "generic" THEN {<<60, 62>>, <<60, 61>>, <<62, 61>>}
                      ELSE {<<60, 61>>, <<62, 61>>, <<60, 62>>, <<33, 61>>, <<62, 62>>, <<60, 60>>}
                           \cup (IF kind = "expression-custom" THEN {<<45, 62>>, <<61, 62>>, <<45, 45>>, <<45, 61>>, <<46, 46>>} ELSE {})
\* the token type a multi-character symbol is registered with (the custom tokenizer registers ".." as Special = 13)
SymType(kind, s) == IF kind = "expression-custom" /\ s = <<46, 46>> THEN 13 ELSE 7

AllDigits(s, a, b) == a <= b /\ \A i \in a .. b : Digit(s[i])
\* position of the first occurrence of c in s, 0 if none
FirstPos(s, c) == IF \E i \in 1 .. Len(s) : s[i] = c THEN CHOOSE i \in 1 .. Len(s) : s[i] = c /\ \A j \in 1 .. i - 1 : s[j] # c ELSE 0

\* d+ [ . d+ ] starting at index a of s, up to index b
Decimal(s, a, b) == LET p == FirstPos(SubSeq(s, a, b), 46) IN
                    IF p = 0 THEN AllDigits(s, a, b) ELSE AllDigits(s, a, a + p - 2) /\ AllDigits(s, a + p, b)
IsInteger(kind, s) == IF kind = "generic" /\ Len(s) >= 1 /\ s[1] = 45 THEN AllDigits(s, 2, Len(s)) ELSE AllDigits(s, 1, Len(s))
\* float: decimal with a dot, or (expression only) scientific notation  d+[.d+] (e|E) [+|-] d+
ExpPos(s) == IF FirstPos(s, 101) # 0 THEN FirstPos(s, 101) ELSE FirstPos(s, 69)
IsFloat(kind, s) ==
  LET a == IF kind = "generic" /\ Len(s) >= 1 /\ s[1] = 45 THEN 2 ELSE 1
      e == ExpPos(s)
  IN IF e = 0 \/ kind = "generic" THEN FirstPos(s, 46) # 0 /\ Decimal(s, a, Len(s))
     ELSE /\ Decimal(s, a, e - 1)
          /\ LET d == IF e + 1 <= Len(s) /\ s[e + 1] \in {43, 45} THEN e + 2 ELSE e + 1 IN AllDigits(s, d, Len(s))
\* quoted with quote q: generic - no q inside; expression - every q inside is doubled
RECURSIVE DoubledOnly(_, _)
DoubledOnly(s, q) == IF s = <<>> THEN TRUE
                     ELSE IF Head(s) = q THEN Len(s) >= 2 /\ s[2] = q /\ DoubledOnly(Tail(Tail(s)), q)
                     ELSE DoubledOnly(Tail(s), q)
IsQuoted(kind, s, q) == /\ Len(s) >= 2 /\ s[1] = q /\ s[Len(s)] = q
                        /\ LET inner == SubSeq(s, 2, Len(s) - 1) IN
                           IF kind = "generic" THEN \A i \in 1 .. Len(inner) : inner[i] # q ELSE DoubledOnly(inner, q)
IsComment(kind, s) ==
  IF kind = "generic" THEN Len(s) >= 1 /\ s[1] = 35 /\ \A i \in 1 .. Len(s) : s[i] # 10 /\ s[i] # 13
  ELSE /\ Len(s) >= 4 /\ s[1] = 47 /\ s[2] = 42 /\ s[Len(s) - 1] = 42 /\ s[Len(s)] = 47
       /\ \A i \in 3 .. Len(s) - 2 : ~(s[i] = 42 /\ s[i + 1] = 47)      \* the first "*/" is the last one
SymbolChar(kind, c) ==    \* characters handed to the symbol state
  /\ c > 32 /\ c <= (IF kind = "generic" THEN 255 ELSE 65534) /\ ~Latin(c) /\ ~Digit(c) /\ c \notin {34, 39}
  /\ (kind = "generic" => c \notin {35, 45, 46} /\ ~(c >= 192))
  /\ (kind # "generic" => c \notin {95, 46, 47} /\ ~(c >= 192 /\ c <= 255))    \* a non-Latin-1 character that starts a token is a symbol

WellFormed(kind, cls, s) ==
  CASE cls = "word"    -> Len(s) >= 1 /\ WordStart(kind, s[1]) /\ (\A i \in 2 .. Len(s) : WordPart(kind, s[i]))
                          /\ (kind # "generic" => UpperSeq(s) \notin Keywords)
    [] cls = "keyword" -> kind # "generic" /\ UpperSeq(s) \in Keywords
    [] cls = "integer" -> IsInteger(kind, s)
    [] cls = "float"   -> IsFloat(kind, s)
    [] cls = "quoted"  -> IsQuoted(kind, s, 39)
    [] cls = "dquoted" -> IsQuoted(kind, s, 34)
    [] cls = "comment" -> IsComment(kind, s)
    [] cls = "ws"      -> Len(s) >= 1 /\ \A i \in 1 .. Len(s) : WsChar(s[i])
    [] cls = "special" -> kind = "expression-custom" /\ s = <<46, 46>>
    [] cls = "symbol"  -> ~(kind = "expression-custom" /\ s = <<46, 46>>) /\ ((Len(s) = 1 /\ (SymbolChar(kind, s[1]) \/ s[1] \in {45, 46, 47})) \/ s \in MultiSymbols(kind))
    [] OTHER -> FALSE

\* token type the lexeme must be reported with
TypeOf(kind, cls) ==
  CASE cls = "word" -> 9 [] cls = "keyword" -> 10 [] cls = "integer" -> 4 [] cls = "float" -> 3
    [] cls = "quoted" -> 8 [] cls = "dquoted" -> (IF kind # "generic" THEN 9 ELSE 8)
    [] cls = "comment" -> 12 [] cls = "ws" -> 11 [] cls = "symbol" -> 7 [] cls = "special" -> 13

\* May lexeme <<c1, s1>> be followed directly by <<c2, s2>>?  (TRUE only when maximal munch cannot join or re-cut them.)
CanAbut(kind, c1, s1, c2, s2) ==
  LET b == s2[1]
      last == s1[Len(s1)]
  IN CASE c1 \in {"word", "keyword"} -> ~WordPart(kind, b)
       [] c1 \in {"integer", "float"} -> ~Digit(b) /\ b # 46 /\ (kind # "generic" => b \notin {101, 69})
       [] c1 \in {"quoted", "dquoted"} -> kind = "generic" \/ b # last
       [] c1 = "comment" -> IF kind = "generic" THEN b \in {10, 13} ELSE TRUE
       [] c1 = "ws" -> ~WsChar(b)
       [] c1 = "special" -> b # 46
       [] c1 = "symbol" ->
            IF Len(s1) > 1 THEN TRUE
            ELSE /\ (last \in {60, 62, 33, 61} => b \notin {60, 61, 62})
                 /\ (last = 45 => kind # "generic" \/ (~Digit(b) /\ b # 46))
                 /\ (last = 45 /\ kind = "expression-custom" => b \notin {62, 61, 45})
                 /\ (last = 46 => ~Digit(b) /\ (kind = "expression-custom" => b # 46))
                 /\ (last = 47 => kind = "generic" \/ b # 42)
=============================================================================
