----------------------------- MODULE QuoteCodec -----------------------------
(***************************************************************************)
(* Quote encoding/decoding of the three quote states (C14, used by C09,    *)
(* C15): texts are sequences of code points, q is the quote character.     *)
(*   generic  (GenericQuoteState, also used by the mustache tokenizer):    *)
(*       Encode = q s q;        Decode strips one q at both ends           *)
(*   doubled  (ExpressionQuoteState, CsvQuoteState):                       *)
(*       Encode = q s[q -> qq] q;  Decode strips and maps qq -> q          *)
(* Decode is total: anything that is not q...q (length >= 2) is returned   *)
(* unchanged.                                                              *)
(***************************************************************************)
EXTENDS Integers, Sequences

RECURSIVE Double(_, _)
Double(s, q) == IF s = <<>> THEN <<>>
                ELSE (IF Head(s) = q THEN <<q, q>> ELSE <<Head(s)>>) \o Double(Tail(s), q)
\* left-to-right, non-overlapping replacement of qq by q
RECURSIVE Undouble(_, _)
Undouble(s, q) == IF s = <<>> THEN <<>>
                  ELSE IF Len(s) >= 2 /\ s[1] = q /\ s[2] = q THEN <<q>> \o Undouble(Tail(Tail(s)), q)
                  ELSE <<Head(s)>> \o Undouble(Tail(s), q)

Wrapped(v, q) == Len(v) >= 2 /\ v[1] = q /\ v[Len(v)] = q
Strip(v) == SubSeq(v, 2, Len(v) - 1)

GenericEncode(s, q) == <<q>> \o s \o <<q>>
GenericDecode(v, q) == IF Wrapped(v, q) THEN Strip(v) ELSE v
DoubledEncode(s, q) == <<q>> \o Double(s, q) \o <<q>>
DoubledDecode(v, q) == IF Wrapped(v, q) THEN Undouble(Strip(v), q) ELSE v

\* state \in {"generic", "expression", "csv"}
Encode(state, s, q) == IF state = "generic" THEN GenericEncode(s, q) ELSE DoubledEncode(s, q)
Decode(state, v, q) == IF state = "generic" THEN GenericDecode(v, q) ELSE DoubledDecode(v, q)

\* Reading a quoted literal of the doubled states from input at offset k (input[k+1] = q):
\* consumes up to and including the first q that is not followed by another q, or to the end.
RECURSIVE QuotedEnd(_, _, _)
QuotedEnd(input, i, q) ==      \* i = index of the next unread character; returns index of last consumed
  IF i > Len(input) THEN Len(input)
  ELSE IF input[i] = q THEN (IF i + 1 <= Len(input) /\ input[i + 1] = q THEN QuotedEnd(input, i + 2, q) ELSE i)
  ELSE QuotedEnd(input, i + 1, q)
ReadQuoted(input, k) == SubSeq(input, k + 1, QuotedEnd(input, k + 2, input[k + 1]))
=============================================================================
