SPECIFICATION Spec
CONSTANTS
  Depth = 12
  Mode = "sim"
  Target = "map"
CHECK_DEADLOCK FALSE
