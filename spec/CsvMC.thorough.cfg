SPECIFICATION Spec
CONSTANTS
  MaxRows = 2
  MaxCols = 2
  MaxField = 1
INVARIANT RoundTrip
CHECK_DEADLOCK FALSE
