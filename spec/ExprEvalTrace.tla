---------------------------- MODULE ExprEvalTrace ----------------------------
(***************************************************************************)
(* Trace validation for C01 on the real ExpressionCalculator with a        *)
(* recording operations manager / function collection installed through    *)
(* the public API.  Events:                                                *)
(*  {"op":"eval","nodes":[node..],"root":n,"toks":[[kind,text]..],         *)
(*   "lexok":B,"set":"ok"|"error"|"panic","calls":[[name,[id..],id]..],    *)
(*   "result":id|["error"]|["panic"]}                                      *)
(*     the text printed from the tree (with the parenthesisation, spacing, *)
(*     comments, letter case and redundant '+' chosen by the generator)    *)
(*     was set and evaluated; toks = the emitted token list; calls = every *)
(*     operator / function application the calculator made.                *)
(*  {"op":"same","a":X,"b":X}  two renderings of one tree evaluated with   *)
(*     the REAL operations and values: results (type and payload) agree.   *)
(* Clauses: (H) the emitted tokens denote the tree according to the        *)
(* reference grammar (validates the generator, not the code); (1) a        *)
(* well-formed expression is accepted; (2) the applications are exactly    *)
(* those of a direct evaluation of the tree - operator, operand order,     *)
(* argument order; (3) the result is the root's value.                     *)
(***************************************************************************)
EXTENDS ExprEval, Json, Held
VARIABLE l
Trace == ndJsonDeserialize("trace.ndjson")
F(ok, name) == IF ok THEN "" ELSE name \o "; "

EvalFails(e) ==
  LET ref == RefParse(e.toks)
      po  == PostOrder(e.nodes, e.root)
  IN IF ref # po THEN "HARNESS: the generated tokens do not denote the generated tree; "
     ELSE IF ~e.lexok THEN ""                       \* the lexer did not deliver the intended tokens: C13's subject
     ELSE IF e.set # "ok" THEN "a well-formed expression was not accepted; "
     ELSE LET w == Wire(e.nodes, e.root, 0)
              \* the recorder made the k-th application report an error (with or without a value next to it): the evaluation
              \* stops there and fails
              k == IF "failat" \in DOMAIN e /\ e.failat >= 1 /\ e.failat <= Len(w[1]) THEN e.failat ELSE 0
              want == IF k = 0 THEN w[1] ELSE SubSeq(w[1], 1, k)
          IN
          F(e.calls = want, "operator/function applications differ from a direct evaluation of the syntax tree (precedence, associativity, operand or argument order)")
       \o (IF e.calls # want THEN ""
           ELSE IF k > 0 THEN F(e.result = <<"error">>, "an operation or function reported an error, yet the evaluation went on or returned a value")
           ELSE IF w[3] THEN F(e.result = w[2], "the result is not the value of the root of the syntax tree")
           ELSE F(e.result = <<"error">>, "evaluation of an operator without a variant operation did not yield an error"))

Fails(e) ==
  CASE e.op = "eval" -> EvalFails(e)
    [] e.op = "same" -> F(e.a = e.b, "two renderings of the same syntax tree (parentheses, spacing, comments, letter case) evaluate differently")
    [] OTHER -> ""

Init == l = 1
Next ==
  /\ l <= Len(Trace)
  /\ l' = l + 1
  /\ LET f == Fails(Trace[l]) IN Report(l, f, Trace[l])
Spec == Init /\ [][Next]_l
Accepted == TLCGet("stats").diameter - 1 = Len(Trace)
=============================================================================
