SPECIFICATION GSpec
CONSTANTS
  Procs = {1, 2, 3}
  Program <- P3
  Sharing = "none"
  Text = "a + b"
INVARIANT GResults
CHECK_DEADLOCK FALSE
