---------------------------- MODULE MustacheTrace ----------------------------
(***************************************************************************)
(* Trace validation for C10 (Check = "C10") and the template clauses of    *)
(* C18 (Check = "C18") on the real MustacheTemplate / MustacheParser.      *)
(*  {"op":"tmpl","lex":[[kind,[cp..],[cp..]]..],"vars":[[[key],[value]]..],*)
(*   "set":"ok"|"error"|"panic","code":C,"eval":"ok"|"error"|"panic"|"none",*)
(*   "out":[cp..],"names":[[[name],[key]]..],"auto":[[key]..]}             *)
(* the template text is the concatenation of the lexeme texts; vars is the *)
(* variable map (keys folded; the real map spells them in arbitrary case); *)
(* names = the parser's reported variable names; auto = keys of the        *)
(* default variable map after setting the template with auto-variables.    *)
(***************************************************************************)
EXTENDS Mustache, Json, TLC, Held
CONSTANT Check
VARIABLE l
Trace == ndJsonDeserialize("trace.ndjson")
F(ok, name) == IF ok THEN "" ELSE name \o "; "
ToSet(s) == {s[i] : i \in 1 .. Len(s)}

C10Fails(e) ==
  LET p == MParse(e.lex) IN
  IF e.wellformed /\ p[1] # "ok" THEN "HARNESS: the generated lexemes are not a well-formed template by the specification; "
  ELSE IF p[1] = "dontcare" THEN F(e.set # "panic" /\ e.eval # "panic", "the template engine crashed")
  ELSE IF p[1] = "reject" THEN F(e.set = "error", "a malformed template (unclosed tag, unclosed/unopened/mismatched section, mismatched braces) was not rejected with an error")
                               \o F("set2" \notin DOMAIN e \/ e.set2 = "error", "a malformed template was not rejected when the same text was set a second time on the same object")
  ELSE F(e.set = "ok", "a well-formed template was rejected")
    \o F("set2" \notin DOMAIN e \/ e.set2 = "ok", "a well-formed template was rejected when it was set a second time on the same object")
    \o (IF e.set # "ok" THEN "" ELSE
          F(e.eval = "ok", "rendering a well-formed template failed")
       \o (IF e.eval # "ok" THEN "" ELSE F(IsRendering(e.out, p[2], e.vars), "rendering differs from the reference semantics")))

\* the clauses on a reported name list (names = [[spelling, key]..]) against the wanted keys; who = whose report it is
NameListFails(names, want, who) ==
  LET gotKeys == [i \in 1 .. Len(names) |-> names[i][2]]
  IN   F(ToSet(gotKeys) = ToSet(want), who \o "reported variable names are not exactly the identifiers in variable position")
    \o F(\A i, j \in 1 .. Len(names) : i # j => names[i][1] # names[j][1], who \o "a variable name is reported twice")
    \o F(ToSet(gotKeys) # ToSet(want) \/
         (LET RECURSIVE Dedup(_, _)
              Dedup(s, acc) == IF s = <<>> THEN acc
                               ELSE IF \E k \in 1 .. Len(acc) : acc[k] = Head(s) THEN Dedup(Tail(s), acc)
                               ELSE Dedup(Tail(s), Append(acc, Head(s)))
          IN Dedup(gotKeys, <<>>) = want), who \o "variable names are not reported in order of first occurrence")
C18Fails(e) ==
  LET p == MParse(e.lex) IN
  IF p[1] # "ok" \/ e.set # "ok" THEN ""
  ELSE LET want == NameKeys(p[2], 1, <<>>)
       IN NameListFails(e.names, want, "")
       \* a parser that had another template before (and, every other time, was cleared) reports the names of THIS template
       \o (IF "names_reused" \in DOMAIN e THEN NameListFails(e.names_reused, want, "a parser that parsed another template before: ") ELSE "")
       \o F(ToSet(e.auto) = ToSet(want) \cup ToSet(e.predefkeys) /\ \A i, j \in 1 .. Len(e.auto) : i # j => e.auto[i] # e.auto[j],
            "automatic variables are not exactly one entry per discovered name next to the entries that were already there")

Fails(e) == IF e.op # "tmpl" THEN "" ELSE IF Check = "C10" THEN C10Fails(e) ELSE C18Fails(e)

Init == l = 1
Next ==
  /\ l <= Len(Trace)
  /\ l' = l + 1
  /\ LET f == Fails(Trace[l]) IN Report(l, f, Trace[l])
Spec == Init /\ [][Next]_l
Accepted == TLCGet("stats").diameter - 1 = Len(Trace)
=============================================================================
