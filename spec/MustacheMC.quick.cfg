SPECIFICATION Spec
CONSTANTS
  MaxLen = 4
  Variant = "fixed"
INVARIANTS Agrees RenderTotal
CHECK_DEADLOCK FALSE
