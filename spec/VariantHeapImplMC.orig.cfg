SPECIFICATION Spec
CONSTANTS
  MaxOps = 4
  MaxCap = 4
  Variant = "orig"
INVARIANT Refines
CHECK_DEADLOCK FALSE
