---------------------------- MODULE FunctionsTrace ----------------------------
(***************************************************************************)
(* Reference semantics of the default function library and trace           *)
(* validation for C08.  One event per call:                                *)
(*  {"op":"fn","mgr":M,"canon":lower-case name,"name":spelling used,       *)
(*   "args":[V..],"found":B,"outcome":O,"r":V,"hit":i,"hits":[i..],        *)
(*   "eo":O,"er":V,          the same call evaluated through an expression *)
(*   "want":S,"t0":n,"t1":n,"n24":n,"parts":[..],"aparts":[..]}             *)
(* V = value record of VariantOps; hit = index (1-based) of the argument   *)
(* the result is identical to (0 = none); hits = for Array results the     *)
(* argument index of every element; rms = a TimeSpan result in ms; want =  *)
(* canonical text of a host                                               *)
(* constant; t0/t1 = Unix seconds before/after the call; n24 = result *    *)
(* 2^24 for random numbers (-1 if not integral); parts = calendar          *)
(* components of a DateTime result / aparts of a DateTime argument.        *)
(***************************************************************************)
EXTENDS VariantOps, Json, TLC, Held
VARIABLES l, rt     \* rt: function name -> the result type it was first seen to return ("with a fixed result type")
Trace == ndJsonDeserialize("trace.ndjson")
F(ok, name) == IF ok THEN "" ELSE name \o "; "

ZeroAry  == {"ticks", "now", "e", "pi", "rnd", "random", "null"}
OneMath  == {"acos", "asin", "atan", "exp", "log", "ln", "log10", "ceil", "ceiling", "floor", "round", "trunc", "truncate",
             "cos", "sin", "tan", "sqr", "sqrt"}
AllNames == ZeroAry \cup OneMath \cup {"timespan", "date", "dayofweek", "min", "max", "sum", "if", "choose", "abs", "empty", "contains", "array"}
ArityOK(f, n) ==
  CASE f \in ZeroAry -> n = 0
    [] f \in OneMath \cup {"dayofweek", "abs", "empty"} -> n = 1
    [] f = "timespan" -> n \in {1, 3, 4, 5}
    [] f = "date" -> n >= 1 /\ n <= 7
    [] f \in {"min", "max", "sum"} -> n >= 2     \* (a single argument: see OneArgOpen)
    [] f = "if" -> n = 3
    [] f = "choose" -> n >= 3
    [] f = "contains" -> n = 2
    [] f = "array" -> TRUE

\* arithmetic on eighths
Floor8(x) == 8 * (IF x >= 0 THEN x \div 8 ELSE -((-x + 7) \div 8))
Ceil8(x) == -Floor8(-x)
Round8(x) == IF x >= 0 THEN Floor8(x + 4) ELSE -Floor8(-x + 4)       \* half away from zero
Trunc8(x) == 8 * TruncDiv(x, 8)
RoundEven8(x) == LET fl == Floor8(x) IN IF x - fl # 4 THEN (IF x - fl < 4 THEN fl ELSE fl + 8) ELSE (IF (fl \div 8) % 2 = 0 THEN fl ELSE fl + 8)
RECURSIVE ISqrt(_, _)
ISqrt(x, r) == IF r * r > x THEN r - 1 ELSE ISqrt(x, r + 1)
PerfectSquare(x) == x >= 0 /\ x <= 1000000 /\ ISqrt(x, 0) * ISqrt(x, 0) = x
\* the argument as a Double (times 8) when the model can compute the conversion
AsDouble8(mgr, a) == IF a.t \in Numeric \cup {"Boolean"} /\ Exact(a) /\ ConvOK(mgr, a.t, "Double") THEN <<TRUE, Num8(a)>> ELSE <<FALSE, 0>>
\* anchor points of the IEEE functions: <<TRUE, result*8>>
Anchor(f, x8) ==
  CASE f \in {"sqrt", "sqr"} /\ x8 % 8 = 0 /\ PerfectSquare(x8 \div 8) -> <<TRUE, 8 * ISqrt(x8 \div 8, 0)>>
    [] f = "exp" /\ x8 = 0 -> <<TRUE, 8>>
    [] f \in {"log", "ln", "log10"} /\ x8 = 8 -> <<TRUE, 0>>
    [] f \in {"sin", "tan", "asin", "atan"} /\ x8 = 0 -> <<TRUE, 0>>
    [] f = "cos" /\ x8 = 0 -> <<TRUE, 8>>
    [] f = "acos" /\ x8 = 8 -> <<TRUE, 0>>
    [] OTHER -> <<FALSE, 0>>

\* Min / Max as the library folds them: keep the first argument, replace it when the comparison says so
RECURSIVE FoldBest(_, _, _, _)
FoldBest(args, i, cur, less) ==     \* cur = index of the current best; less: TRUE for Min. <<ok, index>>
  IF i > Len(args) THEN <<TRUE, cur>>
  ELSE LET a == args[cur]  b == args[i] IN
       IF a.t = "String" /\ b.k = "str"
       THEN FoldBest(args, i + 1, IF (IF less THEN SeqLess(b.c, a.c) ELSE SeqLess(a.c, b.c)) THEN i ELSE cur, less)
       ELSE LET x == ExactBin(IF less THEN "More" ELSE "Less", a, b) IN
            IF ~x[1] \/ a.t \notin Numeric THEN <<FALSE, 0>>
            ELSE FoldBest(args, i + 1, IF x[2] = 1 THEN i ELSE cur, less)
RECURSIVE FoldSum(_, _, _)
FoldSum(args, i, acc) ==           \* acc = value record of the running sum (type of the first argument)
  IF i > Len(args) THEN <<TRUE, acc>>
  ELSE LET x == ExactBin("Add", acc, args[i]) IN
       IF ~x[1] \/ acc.t \notin Numeric THEN <<FALSE, acc>>
       ELSE FoldSum(args, i + 1, [acc EXCEPT !.n = IF acc.k = "frac" THEN x[2] ELSE x[2] \div 8])
Contains(h, n) == \E i \in 0 .. Len(h) - Len(n) : SubSeq(h, i + 1, i + Len(n)) = n
\* Zeller's congruence: 0 = Sunday
Zeller(y, m, d) == LET mm == IF m < 3 THEN m + 12 ELSE m
                       yy == IF m < 3 THEN y - 1 ELSE y
                       k == yy % 100  j == yy \div 100
                       h == (d + (13 * (mm + 1)) \div 5 + k + k \div 4 + j \div 4 + 5 * j) % 7     \* 0 = Saturday
                   IN (h + 6) % 7
Leap(y) == (y % 4 = 0 /\ y % 100 # 0) \/ y % 400 = 0
DaysIn(y, m) == IF m = 2 THEN (IF Leap(y) THEN 29 ELSE 28) ELSE IF m \in {4, 6, 9, 11} THEN 30 ELSE 31
AllInt(args) == \A i \in 1 .. Len(args) : args[i].k = "int" /\ args[i].t \in Integral
Pad(s, n, d) == [i \in 1 .. n |-> IF i <= Len(s) THEN s[i].n ELSE d[i]]

ValueFails(e) ==    \* the call returned a value: is it what the name denotes?
  LET f == e.canon  a == e.args  r == e.r  n == Len(e.args) IN
  CASE f \in {"min", "max"} ->
         LET w == FoldBest(a, 2, 1, f = "min") IN
         F(e.hit >= 1, "Min/Max did not return one of its arguments") \o (IF w[1] THEN F(e.hit = w[2] \/ (e.hit >= 1 /\ a[e.hit].s = a[w[2]].s /\ a[e.hit].t = a[w[2]].t), "Min/Max returned the wrong argument") ELSE "")
    [] f = "sum" -> LET w == FoldSum(a, 2, a[1]) IN
         IF w[1] /\ Small(8 * w[2].n) THEN F(r.t = a[1].t /\ Exact(r) /\ Num8(r) = Num8(w[2]), "Sum is not the sum of all arguments") ELSE ""
    [] f = "if" -> (IF Exact(a[1]) /\ a[1].t \in Numeric \cup {"Boolean"} THEN F(e.hit = (IF Num8(a[1]) # 0 THEN 2 ELSE 3), "If did not select by its condition") ELSE "")
    [] f = "choose" -> (IF a[1].k = "int" /\ a[1].t \in Integral /\ a[1].n >= 1 THEN F(e.hit = a[1].n + 1, "Choose did not select the alternative with that number") ELSE "")
    [] f = "abs" -> (IF a[1].t \in Numeric
                     THEN F(r.t = a[1].t, "Abs does not preserve the numeric type")
                       \o (IF Exact(a[1]) THEN F(Exact(r) /\ Num8(r) = Abs(Num8(a[1])), "Abs is not the absolute value") ELSE "")
                       \o (IF a[1].t \in Integral /\ a[1].s # "-9223372036854775808"
                           THEN F(r.c = (IF a[1].c[1] = 45 THEN Tail(a[1].c) ELSE a[1].c), "Abs of an integer is not its magnitude") ELSE "")
                     ELSE F(r.t = "Double", "Abs of a non-numeric argument is not a Double"))
    [] f \in {"ceil", "ceiling", "floor", "round", "trunc", "truncate"} ->
         LET x == AsDouble8(e.mgr, a[1]) IN
         \* (which numeric type carries the rounded value is not stated; that it is always the same one is checked by FixedFails)
         F(r.t \in Numeric, "a rounding function does not return a number")
         \* (Round at an exact half: away from zero, or to the even neighbour - IEEE knows both, the property names neither)
         \o (IF x[1] THEN F(Exact(r) /\ (Num8(r) = (CASE f \in {"ceil", "ceiling"} -> Ceil8(x[2]) [] f = "floor" -> Floor8(x[2])
                                                       [] f = "round" -> Round8(x[2]) [] OTHER -> Trunc8(x[2]))
                                         \/ (f = "round" /\ Num8(r) = RoundEven8(x[2]))), "rounding function gives the wrong value") ELSE "")
    [] f \in OneMath -> LET x == AsDouble8(e.mgr, a[1])  an == IF x[1] THEN Anchor(f, x[2]) ELSE <<FALSE, 0>> IN
         F(r.t = "Double", "an IEEE function does not return a Double")
         \o (IF an[1] THEN F(Exact(r) /\ Num8(r) = an[2], "an IEEE function is wrong at a point where its value is exact") ELSE "")
    [] f = "contains" -> (IF "hostcontains" \in DOMAIN e /\ e.hostcontains # "none"
                          THEN F(r.k = "bool" /\ (r.n = 1) = (e.hostcontains = "true"), "Contains is not the substring test")    \* the host's test on the texts byte for byte
                          ELSE IF a[1].t = "String" /\ a[2].t = "String" /\ a[1].c # <<>> THEN F(r.k = "bool" /\ (r.n = 1) = Contains(a[1].c, a[2].c), "Contains is not the substring test") ELSE F(r.t = "Boolean", "Contains does not return a Boolean"))
    [] f = "empty" -> (IF a[1].t = "Null" THEN F(r.k = "bool" /\ r.n = 1, "Empty(null) is not true")
                       ELSE IF a[1].t \in Numeric \cup {"Boolean"} \/ (a[1].t = "String" /\ a[1].c # <<>>) THEN F(r.k = "bool" /\ r.n = 0, "Empty of a non-empty value is not false") ELSE F(r.t = "Boolean", "Empty does not return a Boolean"))
    [] f = "null" -> F(r.t = "Null", "Null() is not null")
    [] f = "array" -> F(r.t = "Array" /\ e.hits = [i \in 1 .. n |-> i], "Array does not hold exactly its arguments in order")
    [] f = "timespan" -> (IF AllInt(a) /\ \A i \in 1 .. n : Abs(a[i].n) <= 20
                          THEN LET p == Pad(a, 5, <<0, 0, 0, 0, 0>>)
                                   ms == IF n = 1 THEN a[1].n ELSE (((p[1] * 24 + p[2]) * 60 + p[3]) * 60 + p[4]) * 1000 + p[5]
                               IN F(r.t = "TimeSpan" /\ e.rms = ms, "TimeSpan construction gives the wrong duration") ELSE F(r.t = "TimeSpan", "TimeSpan does not return a time span"))
    \* (the calendar-components clause is for hosts without daylight saving: such a zone has hours that do not exist)
    [] f = "date" -> (IF AllInt(a) /\ n = 1 THEN F(r.t = "DateTime" /\ r.k = "int" /\ r.n = a[1].n, "Date(seconds) is not that Unix time")
                      ELSE IF AllInt(a) /\ "hostzone" \notin DOMAIN e /\ n <= 6 /\ a[1].n >= 1971 /\ a[1].n <= 2100 /\ (n < 2 \/ (a[2].n >= 1 /\ a[2].n <= 12)) /\ (n < 3 \/ (a[3].n >= 1 /\ a[3].n <= DaysIn(a[1].n, a[2].n)))
                              /\ (n < 4 \/ (a[4].n >= 0 /\ a[4].n <= 23)) /\ (n < 5 \/ (a[5].n >= 0 /\ a[5].n <= 59)) /\ (n < 6 \/ (a[6].n >= 0 /\ a[6].n <= 59))
                      THEN F(r.t = "DateTime" /\ e.parts = Pad(a, 6, <<0, 1, 1, 0, 0, 0>>), "Date construction gives the wrong calendar components") ELSE F(r.t = "DateTime", "Date does not return a date-time"))
    [] f = "dayofweek" -> (IF a[1].t = "DateTime" /\ Len(e.aparts) = 3 /\ e.aparts[1] >= 1900 /\ e.aparts[1] <= 2200
                           THEN F(r.t \in Integral /\ r.k = "int" /\ r.n = Zeller(e.aparts[1], e.aparts[2], e.aparts[3]), "DayOfWeek is not the weekday of the date") ELSE F(r.t \in Integral, "DayOfWeek does not return an integer"))
    \* (which floating-point type carries the constant / the random number is not stated: the host's value at that type's precision)
    [] f \in {"e", "pi"} -> F((r.t = "Float" /\ r.s = e.want) \/ (r.t = "Double" /\ r.s = e.want64), "E / Pi is not the constant")
    [] f = "ticks" -> F(r.t \in Integral /\ r.k \in {"int", "none"} /\ e.rsec >= e.t0 /\ e.rsec <= e.t1, "Ticks is not within the call interval")
    [] f = "now" -> F(r.t = "DateTime" /\ e.rsec >= e.t0 /\ e.rsec <= e.t1, "Now is not within the call interval")
    [] f \in {"rnd", "random"} -> F(r.t \in {"Float", "Double"} /\ e.n24 >= 0 /\ e.n24 < 16777216, "Rnd is not in [0,1)")
    [] OTHER -> ""

\* must the call be an error although the arity is right?  (an inapplicable argument)
MustError(e) ==
  LET f == e.canon  a == e.args IN
  \/ f \in {"min", "max"} /\ ((\E i \in 1 .. Len(a) : a[i].t = "Null") \/ a[1].t \in {"Object", "Array", "Boolean"})   \* no ordering to fold with
  \/ f \in OneMath \cup {"ceil", "floor"} /\ ~ConvOK(e.mgr, a[1].t, "Double") /\ e.mgr = "safe"    \* (which further conversions the type-unsafe manager offers is not stated)
  \/ f = "choose" /\ a[1].k = "int" /\ a[1].t \in Integral /\ (a[1].n < 0 \/ a[1].n >= Len(a))
  \/ f = "sum" /\ a[1].t \in {"Boolean", "Object", "Array", "DateTime"}
               /\ \A i \in 1 .. Len(a) : a[i].t # "Null"      \* Null propagates through '+' whatever the other operand (C06): Null is acceptable then
  \/ f = "dayofweek" /\ ~ConvOK(e.mgr, a[1].t, "DateTime") /\ e.mgr = "safe"
\* is an error acceptable although nothing above demands it?  (arguments outside the modelled domain, or a
\* conversion the installed manager does not offer)
ConvsOK(e) ==
  LET f == e.canon  a == e.args  n == Len(e.args)  ok(i, t) == ConvOK(e.mgr, a[i].t, t) IN
  CASE f \in OneMath \cup {"ceil", "ceiling", "floor", "round", "trunc", "truncate"} -> ok(1, "Double")
    [] f = "date" -> IF n = 1 THEN ok(1, "Long") ELSE \A i \in 1 .. n : ok(i, "Integer")
    [] f = "timespan" -> \A i \in 1 .. n : ok(i, "Long")
    [] f \in {"min", "max", "sum"} -> e.mgr = "unsafe" \/ \A i \in 1 .. n : a[i].t = a[1].t
    [] f = "if" -> ok(1, "Boolean")
    [] OTHER -> TRUE
MayError(e) ==
  LET f == e.canon  a == e.args IN
  ~(/\ \A i \in 1 .. Len(a) : a[i].t \in Numeric /\ Exact(a[i])
    /\ ConvsOK(e)
    /\ f \notin {"choose", "dayofweek", "contains"}
    /\ (f \in {"timespan", "date"} => AllInt(a)))

FnFails(e) ==
  IF ~e.found THEN "a default function is not found under a different letter case of its name; "
  ELSE IF e.outcome = "panic" THEN "the function crashed; "
  ELSE IF e.outcome \in {"nil", "both"} THEN "the function returned neither exactly a value nor exactly an error (a nil result without error); "
  \* Min / Max / Sum "over all arguments": whether ONE argument is a valid number of arguments is not stated - an error, or that argument
  ELSE IF e.canon \in {"min", "max", "sum"} /\ Len(e.args) = 1
       THEN F(e.outcome = "error" \/ (e.outcome = "value" /\ (e.hit = 1 \/ (e.r.t = e.args[1].t /\ e.r.s = e.args[1].s))), "Min / Max / Sum of one argument is neither an error nor that argument")
  ELSE IF ~ArityOK(e.canon, Len(e.args)) THEN F(e.outcome = "error", "a wrong argument count did not yield an error")
  ELSE IF MustError(e) THEN F(e.outcome = "error", "an inapplicable argument did not yield an error")
  ELSE IF e.outcome = "error" THEN F(MayError(e), "a valid call yielded an error")
  ELSE ValueFails(e)
    \o F(e.argsame, "the function rewrote the caller's argument list")
    \o F(e.again = "same", "a second call with the same arguments returns something else after the caller changed the first result in place (results are shared)")
    \o (IF e.hostmath # "none" THEN F(e.r.s = e.hostmath \/ ("hostmath2" \in DOMAIN e /\ e.r.s = e.hostmath2), "the function does not return what the host's math library gives for the converted argument") ELSE "")
    \o (IF e.canon = "date" /\ e.hostsec # "none" THEN F(e.r.t = "DateTime" /\ e.r.u = e.hostsec, "Date is not the host calendar's date-time for these components in the host's zone") ELSE "")
    \o (IF e.canon \in {"ticks", "now", "rnd", "random", "null"} THEN ""      \* clock / random / NULL is a keyword of the language
        ELSE F(e.eo = "value" /\ e.er.t = e.r.t /\ e.er.s = e.r.s, "calling the function through an expression gives a different result than calling it directly"))

\* many draws from one generator state: min24 / max24 = the smallest / largest floor(v * 2^24) among the results
RndManyFails(e) ==
  IF e.outcome # "ok" THEN "the function crashed; "
  ELSE F(e.bad = 0, "Rnd returned an error, nothing or a value that is not a floating-point number")
    \o F(e.min24 >= 0 /\ e.max24 < 16777216, "Rnd is not in [0,1)")
\* the functions whose result type does not depend on the arguments (the others return an argument or preserve its type)
FixedType == (AllNames \ {"min", "max", "sum", "if", "choose", "abs", "array", "null"})
Typed(e) == e.op = "fn" /\ e.found /\ e.outcome = "value" /\ e.canon \in FixedType /\ ArityOK(e.canon, Len(e.args)) /\ e.r.t \notin {"Null", "nil"}
FixedFails(e) == IF Typed(e) /\ e.canon \in DOMAIN rt
                 THEN F(e.r.t = rt[e.canon], "the function does not have a fixed result type (it returned another type before)") ELSE ""
Fails(e) == IF e.op = "fn" THEN FnFails(e) \o FixedFails(e) ELSE IF e.op = "rndmany" THEN RndManyFails(e) ELSE ""
Init == l = 1 /\ rt = <<>>
Next ==
  /\ l <= Len(Trace)
  /\ l' = l + 1
  /\ LET e == Trace[l] IN
     rt' = IF Typed(e) /\ e.canon \notin DOMAIN rt THEN [x \in DOMAIN rt \cup {e.canon} |-> IF x = e.canon THEN e.r.t ELSE rt[x]] ELSE rt
  /\ LET f == Fails(Trace[l]) IN Report(l, f, Trace[l])
Spec == Init /\ [][Next]_<<l, rt>>
Accepted == TLCGet("stats").diameter - 1 = Len(Trace)
=============================================================================
