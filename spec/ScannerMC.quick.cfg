SPECIFICATION Spec
CONSTANTS
  MaxLen = 5
  Variant = "fixed"
INVARIANTS TypeOK Refines ReadRetOK AbstractLaws
VIEW View
CHECK_DEADLOCK FALSE
