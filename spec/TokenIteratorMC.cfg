SPECIFICATION Spec
CONSTANT MaxOps = 8
INVARIANTS TypeOK PrefixInv
PROPERTY HasNextPure
CHECK_DEADLOCK FALSE
