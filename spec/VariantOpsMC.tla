----------------------------- MODULE VariantOpsMC -----------------------------
(***************************************************************************)
(* Model-checks the value model of VariantOps itself (the oracle of C06,   *)
(* C07 and C08) over all pairs of small values of the numeric types and    *)
(* Boolean: the consistency and algebraic laws that C06 states must hold   *)
(* of the specification's own exact results, and the conversion matrix of  *)
(* the type-safe manager must be contained in the type-unsafe one.         *)
(* One initial state per (a, b); the laws are invariants.                  *)
(***************************************************************************)
EXTENDS VariantOps, TLC
CONSTANT N
VARIABLES a, b
Val(t, k, n) == [t |-> t, k |-> k, n |-> n, s |-> "", c |-> <<>>]
Ints(t) == {Val(t, "int", n) : n \in -N .. N}
Fracs(t) == {Val(t, "frac", n) : n \in -(4 * N) .. (4 * N)}
Values == Ints("Integer") \cup Ints("Long") \cup Fracs("Double") \cup Fracs("Float") \cup {Val("Boolean", "bool", 0), Val("Boolean", "bool", 1)}
Init == a \in Values /\ b \in Values
Next == UNCHANGED <<a, b>>
Spec == Init /\ [][Next]_<<a, b>>

Ex(name, x, y) == ExactBin(name, x, y)
Same == a.t = b.t /\ a.t # "Boolean"
\* comparisons are mutually consistent
CmpLaws ==
  /\ Same => Ex("Less", a, b)[2] = Ex("More", b, a)[2]
  /\ a.t # "Boolean" => (Ex("LessEqual", a, b)[2] = 1) = (Ex("Less", a, b)[2] = 1 \/ Ex("Equal", a, b)[2] = 1)
  /\ a.t # "Boolean" => (Ex("MoreEqual", a, b)[2] = 1) = (Ex("More", a, b)[2] = 1 \/ Ex("Equal", a, b)[2] = 1)
  /\ (Ex("NotEqual", a, b)[2] = 1) = (Ex("Equal", a, b)[2] = 0)
\* arithmetic laws on the integral types (values times 8 inside ExactBin)
Mk(t, x8) == Val(t, "int", x8 \div 8)
IntLaws == (Same /\ a.t \in Integral) =>
  /\ Ex("Sub", Mk(a.t, Ex("Add", a, b)[2]), b)[2] = Num8(a)
  /\ Ex("Add", a, b)[2] = Ex("Add", b, a)[2]
  /\ (b.n # 0 => Ex("Add", Mk(a.t, Ex("Mul", Mk(a.t, Ex("Div", a, b)[2]), b)[2]), Mk(a.t, Ex("Mod", a, b)[2]))[2] = Num8(a))
  /\ ((a.n >= 0 /\ b.n >= 0) => Ex("Xor", Mk(a.t, Ex("Xor", a, b)[2]), b)[2] = Num8(a))
  /\ ((a.n >= 0 /\ b.n >= 0 /\ b.n <= 8) => Ex("Rsh", Mk(a.t, Ex("Lsh", a, b)[2]), b)[2] = Num8(a))
\* truncation toward zero and sign of the remainder, as the host integer arithmetic has them
DivLaws == (Same /\ a.t \in Integral /\ b.n # 0) =>
  /\ Abs(Ex("Mod", a, b)[2]) < Abs(Num8(b))
  /\ (Ex("Mod", a, b)[2] = 0 \/ (Ex("Mod", a, b)[2] > 0) = (a.n > 0))
\* the type-safe manager converts nothing the type-unsafe manager does not
ConvLaws == \A f \in AllTypes, t \in AllTypes : ConvOK("safe", f, t) => ConvOK("unsafe", f, t)
WideningIsLossless == \A w \in Widening : w[1] \in Numeric /\ w[2] \in Numeric
=============================================================================
