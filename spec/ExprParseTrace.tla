--------------------------- MODULE ExprParseTrace ---------------------------
(***************************************************************************)
(* Trace validation for C02 on the real ExpressionParser.  One event per   *)
(* parse:                                                                  *)
(*  {"op":"parse","entry":"tokens"|"string","toks":[[kind,text]..],        *)
(*   "outcome":"accepted"|"rejected"|"panic","code":C,"rpn":[[kind,text]..]}*)
(* toks is the token sequence the parser actually received (for entry      *)
(* "string": the lexer's output mapped to the vocabulary, so that a lexer  *)
(* defect cannot raise a C02 alarm).  Clauses:                             *)
(*   sentence of the grammar  <=> accepted, and then rpn = RefParse(toks); *)
(*   anything else            =>  rejected with a non-empty error code;    *)
(*   a panic is neither.                                                   *)
(***************************************************************************)
EXTENDS ExprGrammar, Json, Held
VARIABLE l
Trace == ndJsonDeserialize("trace.ndjson")

Fails(e) ==
  LET ref == RefParse(e.toks) IN
  IF e.outcome = "panic" THEN "the parser crashed instead of accepting or rejecting with a syntax error; "
  ELSE IF IsRej(ref)
       THEN (IF e.outcome = "accepted" THEN "a token sequence that is not a sentence of the grammar was accepted; "
             ELSE IF e.code = "" THEN "rejected without an error code; " ELSE "")
       ELSE (IF e.outcome # "accepted" THEN "a sentence of the grammar was rejected; "
             ELSE IF e.rpn # ref THEN "compiled program is not the post-order of the syntax tree; " ELSE "")

Init == l = 1
Next ==
  /\ l <= Len(Trace)
  /\ l' = l + 1
  /\ LET f == Fails(Trace[l]) IN Report(l, f, Trace[l])
Spec == Init /\ [][Next]_l
Accepted == TLCGet("stats").diameter - 1 = Len(Trace)
=============================================================================
