----------------------------- MODULE TokenStream -----------------------------
(***************************************************************************)
(* Predicates over an observed token stream (C04, C12, C15).               *)
(* A token is <<type, value, line, column>>; value is a code-point         *)
(* sequence; types are the integers of tokenizers/TokenType.go.            *)
(***************************************************************************)
EXTENDS ScanLC, QuoteCodec

TUnknown == 0   TEof == 1     TEol == 2     TFloat == 3   TInteger == 4  THex == 5  TNumber == 6
TSymbol == 7    TQuoted == 8  TWord == 9    TKeyword == 10  TWhitespace == 11  TComment == 12  TSpecial == 13

RECURSIVE ConcatVals(_, _)
ConcatVals(toks, i) == IF i > Len(toks) THEN <<>> ELSE toks[i][2] \o ConcatVals(toks, i + 1)

\* The same as ConcatVals(toks, 1) = input, computed in one left-to-right pass (inputs of any length): every token value is found
\* at the offset where the previous one ended, and the last one ends at the end of the input.
Covers(input, toks) ==
  LET step(acc, t) ==
        IF ~acc[1] THEN acc
        ELSE LET v == t[2]  off == acc[2] IN
             IF off + Len(v) <= Len(input) /\ \A k \in 1 .. Len(v) : input[off + k] = v[k] THEN <<TRUE, off + Len(v)>> ELSE <<FALSE, 0>>
      r == FoldL(step, <<TRUE, 0>>, toks)
  IN r[1] /\ r[2] = Len(input)

(* C04: with all options off the values concatenate to the input; the last   *)
(* token is the only end-of-input marker and is empty; all others non-empty. *)
LosslessFails(input, toks) ==
  IF Len(toks) = 0 THEN "no end-of-input token; "
  ELSE (IF toks[Len(toks)][1] = TEof /\ toks[Len(toks)][2] = <<>> THEN "" ELSE "last token is not an empty end-of-input marker; ")
    \o (IF \A i \in 1 .. Len(toks) - 1 : toks[i][1] # TEof THEN "" ELSE "end-of-input marker before the end; ")
    \o (IF \A i \in 1 .. Len(toks) - 1 : toks[i][2] # <<>> THEN "" ELSE "empty token; ")
    \o (IF Covers(input, toks) THEN "" ELSE "token values do not concatenate to the input; ")
Lossless(input, toks) == LosslessFails(input, toks) = ""

(* ---- options (C15) ---- *)
\* o is a set of option names
\* the characters that a tokenizer configuration hands to a quote state
QuoteChars(kind) == CASE kind \in {"csv"} -> {34}
                      [] kind = "csv-wide" -> {34, 171}
                      [] kind = "generic-quotes" -> {34, 39, 171, 8220}
                      [] kind = "generic-2quotes" -> {34, 39, 96}
                      [] OTHER -> {34, 39}
\* a token that a quote state has read: it begins with one of the tokenizer's quote characters and carries the type quote states
\* give (Quoted; Word for a quoted identifier of the expression language). A registered SYMBOL that happens to carry the Quoted
\* type is a symbol.
IsQuoteTok(kind, b) == b[2] # <<>> /\ b[2][1] \in QuoteChars(kind)
                       /\ (b[1] = TQuoted \/ (kind \in {"expression", "expression-custom"} /\ b[1] = TWord /\ b[2][1] = 34))
QState(kind) == IF kind \in {"expression", "expression-custom"} THEN "expression" ELSE IF kind \in {"csv", "csv-wide"} THEN "csv" ELSE "generic"
MustDrop(o, b) == \/ b[1] = TUnknown /\ "skipUnknown" \in o
                  \/ b[1] = TComment /\ "skipComments" \in o
                  \/ b[1] = TEof /\ "skipEof" \in o
MayDrop(o, b) == MustDrop(o, b) \/ (b[1] = TWhitespace /\ "skipWhitespaces" \in o)
\* "Tokens read by the quote state carry their decoded value": what type a quote state gives a token it has read is its own
\* business (Quoted; Word for a quoted identifier; a state may type an unterminated literal differently). A token that the
\* option-free stream starts with a quote character and that is not typed as a quote token above may therefore appear decoded
\* or untouched when the option is on.
MayDecode(o, kind, b) == "decodeStrings" \in o /\ ~IsQuoteTok(kind, b) /\ b[2] # <<>> /\ b[2][1] \in QuoteChars(kind)
                         /\ b[1] \notin {TWhitespace, TInteger, TFloat, THex, TEof}
ClosedLiteral(v) == Len(v) >= 2 /\ v[Len(v)] = v[1]
DecodedAlt(o, kind, b) == <<b[1], Decode(QState(kind), b[2], b[2][1])>>
\* <<type, value>> of a kept token after the enabled rewrites
Rewrite(o, kind, b) ==
  \* (decoding is done by the tokenizer's own quote state, also for a token that a second quote state of another kind has read)
  LET v1 == IF "decodeStrings" \in o /\ IsQuoteTok(kind, b) THEN Decode(QState(kind), b[2], b[2][1]) ELSE b[2]
      v2 == IF b[1] = TWhitespace /\ "mergeWhitespaces" \in o THEN <<32>> ELSE v1
      t2 == IF "unifyNumbers" \in o /\ b[1] \in {TInteger, TFloat, THex} THEN TNumber ELSE b[1]
  IN <<t2, v2>>

\* position a token that starts at offset off (characters before it) must report
PosOf(input, b, off) ==
  IF b[1] = TEof THEN LET p == LC(input, Len(input)) IN <<p[1], p[2] + 1>>
  ELSE LC(input, off + 1)

(* There is an order-preserving alignment of out into base: every base token is   *)
(* either dropped (allowed only for kinds an enabled option may drop) or kept, in *)
(* which case the next out token equals it after the enabled rewrites -- and, if  *)
(* withPos, reports the position of its first character in the input.             *)
Aligned(o, kind, input, base, out, withPos) ==
  \* one left-to-right pass over the option-free stream; the accumulator is <<still aligned, next output index,
  \* characters before the token, <<line, column>> after those characters>>
  LET step(acc, b) ==
        IF ~acc[1] THEN acc
        ELSE LET j == acc[2]  off == acc[3]  lc == acc[4]
                 off2 == off + Len(b[2])
                 lc2 == IF withPos THEN LCAdv(input, lc, off, off2) ELSE lc
                 pos == IF b[1] = TEof THEN <<lc[1], lc[2] + 1>> ELSE LCAdv(input, lc, off, off + 1)
                 match == /\ j <= Len(out)
                          /\ (<<out[j][1], out[j][2]>> = Rewrite(o, kind, b)
                              \/ (MayDecode(o, kind, b) /\ <<out[j][1], out[j][2]>> = DecodedAlt(o, kind, b))
                              \* an UNTERMINATED literal (no closing quote): what its "decoded value" is, is not stated anywhere
                              \* (decoding is only required not to fail on it) - the token stays one token of its type
                              \* (likewise a literal that one quote state read and a state of ANOTHER kind decodes - the configuration
                              \* generic-2quotes: the two states need not agree on what doubled quotes inside mean)
                              \/ ("decodeStrings" \in o /\ (IsQuoteTok(kind, b) \/ MayDecode(o, kind, b)) /\ ~ClosedLiteral(b[2])
                                  /\ out[j][1] = Rewrite(o, kind, b)[1])
                              \* (a literal that one quote state read and a state of ANOTHER kind decodes - the configuration
                              \* generic-2quotes: decoded the generic way, or with doubled quotes inside collapsed)
                              \/ ("decodeStrings" \in o /\ kind = "generic-2quotes" /\ IsQuoteTok(kind, b) /\ b[2][1] = 96
                                  /\ <<out[j][1], out[j][2]>> = <<Rewrite(o, kind, b)[1], Decode("expression", b[2], 96)>>))
                          /\ (withPos => <<out[j][3], out[j][4]>> = pos)
             \* Deterministic (one pass): a token that must go is dropped; otherwise it is kept when the next output token
             \* is its rewrite, else dropped if an option allows that.  This decides the existence of an alignment: the only
             \* tokens that may but need not go are whitespace tokens, and if some alignment drops one whose rewrite the next
             \* output token equals, that output token is matched by a later whitespace token with the same rewrite (all
             \* tokens in between dropped), so keeping the earlier and dropping the later one is an alignment too.
             IN IF MustDrop(o, b) THEN <<TRUE, j, off2, lc2>>
                ELSE IF match THEN <<TRUE, j + 1, off2, lc2>>
                ELSE IF MayDrop(o, b) THEN <<TRUE, j, off2, lc2>> ELSE <<FALSE, j, off2, lc2>>
      r == FoldL(step, <<TRUE, 1, 0, <<1, 0>>>>, base)
  IN r[1] /\ r[2] > Len(out)

\* what must be true of the output with the respective option ON
OnFails(o, out) ==
     (IF "skipUnknown" \in o /\ \E i \in 1 .. Len(out) : out[i][1] = TUnknown THEN "Unknown token although skip-unknown is on; " ELSE "")
  \o (IF "skipComments" \in o /\ \E i \in 1 .. Len(out) : out[i][1] = TComment THEN "Comment token although skip-comments is on; " ELSE "")
  \o (IF "skipEof" \in o /\ \E i \in 1 .. Len(out) : out[i][1] = TEof THEN "end-of-input token although skip-eof is on; " ELSE "")
  \o (IF "skipWhitespaces" \in o /\ \E i \in 1 .. Len(out) - 1 : out[i][1] = TWhitespace /\ out[i + 1][1] = TWhitespace
      THEN "two adjacent whitespace tokens although skip-whitespaces is on; " ELSE "")
  \o (IF "mergeWhitespaces" \in o /\ \E i \in 1 .. Len(out) : out[i][1] = TWhitespace /\ out[i][2] # <<32>>
      THEN "whitespace token is not a single space although merge-whitespaces is on; " ELSE "")
  \o (IF "unifyNumbers" \in o /\ \E i \in 1 .. Len(out) : out[i][1] \in {TInteger, TFloat, THex}
      THEN "integer/float/hex type although unify-numbers is on; " ELSE "")

OptionFails(o, kind, input, base, out) ==
     OnFails(o, out)
  \o (IF Aligned(o, kind, input, base, out, FALSE) THEN ""
      ELSE "stream is not the option-free stream with whole tokens dropped or rewritten; ")

PositionFails(o, kind, input, base, out) ==
  IF HasOtherBreak(input) THEN ""     \* (whether VT, FF, NEL, LS, PS count as line breaks is left open)
  ELSE IF Aligned(o, kind, input, base, out, TRUE) THEN ""
  ELSE "a token does not report the line/column of its first character (or end-of-input one column past the end); "
=============================================================================
