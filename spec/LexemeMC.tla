------------------------------- MODULE LexemeMC -------------------------------
(***************************************************************************)
(* Design-level check of C13: the two descriptions of the lexical grammar  *)
(* in the specification agree.  For every pair (and triple) of lexemes     *)
(* from a pool covering every class, every multi-character symbol and      *)
(* keyword spellings: if the lexemes are well-formed and CanAbut allows    *)
(* them to be adjacent, the reference lexer tokenizes their concatenation  *)
(* back into exactly those lexemes with the types of their classes.        *)
(***************************************************************************)
EXTENDS RefLexer, TLC
CONSTANT Kind
VARIABLES l1, l2, l3
S(str) == str
PoolG == { <<"word", <<97, 98>>>>, <<"word", <<1046, 45, 49>>>>, <<"integer", <<49, 50>>>>, <<"integer", <<45, 53>>>>, <<"float", <<49, 46, 53>>>>,
           <<"quoted", <<39, 97, 32, 39>>>>, <<"dquoted", <<34, 39, 34>>>>, <<"comment", <<35, 32, 99>>>>, <<"ws", <<32>>>>, <<"ws", <<10, 32>>>>,
           <<"symbol", <<60, 62>>>>, <<"symbol", <<60, 61>>>>, <<"symbol", <<62, 61>>>>, <<"symbol", <<60>>>>, <<"symbol", <<61>>>>,
           <<"symbol", <<45>>>>, <<"symbol", <<46>>>>, <<"symbol", <<43>>>> }
PoolE == { <<"word", <<97, 98>>>>, <<"word", <<95, 120, 49>>>>, <<"word", <<101, 49>>>>, <<"keyword", <<78, 111, 116>>>>, <<"keyword", <<105, 110>>>>,
           <<"integer", <<49, 50>>>>, <<"float", <<49, 46, 53>>>>, <<"float", <<50, 101, 45, 51>>>>, <<"float", <<51, 69, 53>>>>,
           <<"quoted", <<39, 105, 39, 39, 115, 39>>>>, <<"dquoted", <<34, 113, 34>>>>, <<"comment", <<47, 42, 32, 42, 47>>>>, <<"ws", <<32>>>>,
           <<"symbol", <<60, 61>>>>, <<"symbol", <<62, 61>>>>, <<"symbol", <<60, 62>>>>, <<"symbol", <<33, 61>>>>, <<"symbol", <<62, 62>>>>,
           <<"symbol", <<60, 60>>>>, <<"symbol", <<60>>>>, <<"symbol", <<33>>>>, <<"symbol", <<45>>>>, <<"symbol", <<46>>>>, <<"symbol", <<47>>>>, <<"symbol", <<42>>>> }
Pool == IF Kind = "generic" THEN PoolG ELSE PoolE
None == <<"none", <<>>>>
Init == l1 \in Pool /\ l2 \in Pool /\ l3 \in Pool \cup {None}
Next == UNCHANGED <<l1, l2, l3>>
Spec == Init /\ [][Next]_<<l1, l2, l3>>
Seq3 == IF l3 = None THEN <<l1, l2>> ELSE <<l1, l2, l3>>
AllWellFormed == \A x \in Pool : WellFormed(Kind, x[1], x[2])
Separable == \A i \in 1 .. Len(Seq3) - 1 : CanAbut(Kind, Seq3[i][1], Seq3[i][2], Seq3[i + 1][1], Seq3[i + 1][2])
RECURSIVE Cat(_, _)
Cat(ls, i) == IF i > Len(ls) THEN <<>> ELSE ls[i][2] \o Cat(ls, i + 1)
TokenizesBack ==
  Separable => RefTokens(Kind, Cat(Seq3, 1)) = [i \in 1 .. Len(Seq3) + 1 |-> IF i <= Len(Seq3) THEN <<TypeOf(Kind, Seq3[i][1]), Seq3[i][2]>> ELSE <<TEof, <<>>>>]
=============================================================================
