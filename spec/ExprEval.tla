------------------------------- MODULE ExprEval -------------------------------
(***************************************************************************)
(* Direct evaluation of an expression's syntax tree (C01): which variant   *)
(* operation is applied to which operands, in which order.  Values stay    *)
(* uninterpreted - a node's value is "whatever the installed operation     *)
(* returned for these operands" - so the specification fixes the WIRING:    *)
(* the sequence of operator/function applications with operand identities. *)
(*                                                                         *)
(* Syntax tree: a table of nodes [k, op, text, key, kids]:                  *)
(*   k = "const" (text = literal)   | "var" (text = spelling, key = name   *)
(*   compared case-insensitively)   | "bin" (op, kids = <<l, r>>)          *)
(*   | "un" (op \in Unary, Not, IsNull, IsNotNull; kids = <<c>>)           *)
(*   | "idx" (kids = <<container, index>>) | "call" (text, key, kids=args) *)
(* Identities: <<"c", literal>>, <<"v", key>>, <<"r", n>> = result of the  *)
(* n-th application, <<"o">> = a boolean the calculator computes natively  *)
(* (IS [NOT] NULL, the negation in NOT IN).                                *)
(* Applications: <<name, <<operand ids>>, <<"r", n>> >>.                   *)
(***************************************************************************)
EXTENDS ExprGrammar

RECURSIVE PostOrder(_, _), PostOrderAll(_, _, _)
PostOrderAll(ns, kids, i) == IF i > Len(kids) THEN <<>> ELSE PostOrder(ns, kids[i]) \o PostOrderAll(ns, kids, i + 1)
PostOrder(ns, n) ==
  LET x == ns[n] IN
  CASE x.k = "const" -> << <<"Constant", x.text>> >>
    [] x.k = "var"   -> << <<"Variable", x.text>> >>
    [] x.k = "bin"   -> PostOrder(ns, x.kids[1]) \o PostOrder(ns, x.kids[2]) \o <<Op(x.op)>>
    [] x.k = "un"    -> PostOrder(ns, x.kids[1]) \o <<Op(x.op)>>
    [] x.k = "idx"   -> PostOrder(ns, x.kids[1]) \o PostOrder(ns, x.kids[2]) \o <<Op("Element")>>
    [] x.k = "call"  -> PostOrderAll(ns, x.kids, 1) \o << <<"Constant", ToString(Len(x.kids))>>, <<"Function", x.text>> >>

\* the variant operation a binary / unary operator applies
OpName(op) ==
  CASE op = "Plus" -> "Add" [] op = "Minus" -> "Sub" [] op = "Star" -> "Mul" [] op = "Slash" -> "Div"
    [] op = "Procent" -> "Mod" [] op = "Power" -> "Pow" [] op = "ShiftLeft" -> "Lsh" [] op = "ShiftRight" -> "Rsh"
    [] op = "EqualMore" -> "MoreEqual" [] op = "EqualLess" -> "LessEqual" [] op = "Unary" -> "Negative"
    [] OTHER -> op      \* And Or Xor Not Equal NotEqual More Less In

Opaque == <<"o">>
\* Wire(ns, n, base) = <<applications, identity of the node's value, ok>>; base = applications made before
RECURSIVE Wire(_, _, _), WireArgs(_, _, _, _, _, _)
Wire(ns, n, base) ==
  LET x == ns[n] IN
  \* (a string constant and a number constant with the same spelling are different values)
  CASE x.k = "const" -> <<<<>>, <<"c", IF x.op = "quoted" THEN "'" \o x.text \o "'" ELSE x.text>>, TRUE>>
    [] x.k = "var"   -> <<<<>>, <<"v", x.key>>, TRUE>>
    [] x.k = "un" ->
         LET c == Wire(ns, x.kids[1], base) IN
         IF ~c[3] THEN c
         ELSE IF x.op \in {"IsNull", "IsNotNull"} THEN <<c[1], Opaque, TRUE>>
         ELSE LET rid == <<"r", base + Len(c[1]) + 1>> IN
              <<c[1] \o << <<OpName(x.op), <<c[2]>>, rid>> >>, rid, TRUE>>
    [] x.k \in {"bin", "idx"} ->
         LET l == Wire(ns, x.kids[1], base) IN
         IF ~l[3] THEN l
         ELSE LET r == Wire(ns, x.kids[2], base + Len(l[1])) IN
              IF ~r[3] THEN <<l[1] \o r[1], r[2], FALSE>>
              ELSE LET pre == l[1] \o r[1]
                       rid == <<"r", base + Len(pre) + 1>>
                       op  == IF x.k = "idx" THEN "Element" ELSE x.op
                   IN CASE op \in {"Like", "NotLike"} -> <<pre, <<"err">>, FALSE>>   \* no variant operation exists
                        [] op = "In"      -> <<pre \o << <<"In", <<r[2], l[2]>>, rid>> >>, rid, TRUE>>      \* container first
                        [] op = "NotIn"   -> <<pre \o << <<"In", <<r[2], l[2]>>, rid>> >>, Opaque, TRUE>>   \* negated natively
                        [] op = "Element" -> <<pre \o << <<"GetElement", <<l[2], r[2]>>, rid>> >>, rid, TRUE>>
                        [] OTHER          -> <<pre \o << <<OpName(op), <<l[2], r[2]>>, rid>> >>, rid, TRUE>>
    [] x.k = "call" -> WireArgs(ns, x, 1, base, <<>>, <<>>)

\* evaluate the arguments left to right, then apply the function to exactly those values in order
WireArgs(ns, x, i, base, calls, ids) ==
  IF i > Len(x.kids)
  THEN LET rid == <<"r", base + Len(calls) + 1>> IN
       <<calls \o << <<"f:" \o x.key, ids, rid>> >>, rid, TRUE>>
  ELSE LET a == Wire(ns, x.kids[i], base + Len(calls)) IN
       IF ~a[3] THEN <<calls \o a[1], a[2], FALSE>>
       ELSE WireArgs(ns, x, i + 1, base, calls \o a[1], Append(ids, a[2]))
=============================================================================
