--------------------------- MODULE VariantOpsTrace ---------------------------
(***************************************************************************)
(* Trace validation for C06 on the real type-unsafe / type-safe operation  *)
(* managers.  Events (V = value record of VariantOps):                     *)
(*  {"op":"bin","mgr":M,"name":N,"a":V,"b":V,"outcome":O,"r":V}            *)
(*  {"op":"un","mgr":M,"name":"Not"|"Negative","a":V,"outcome":O,"r":V}    *)
(*  {"op":"cmp","mgr":M,"a":V,"b":V,"lt","gt","le","ge","eq","ne",         *)
(*   "gtba","ltba"}  each "true"|"false"|"null"|"error"|"panic"            *)
(*  {"op":"law","law":L,"mgr":M,"a":V,"b":V,"outcome":O,"r":V}             *)
(*  {"op":"in","mgr":M,"item":V,"eqs":[..],"outcome":O,"r":V}              *)
(*  {"op":"elem","mgr":M,"kind":"array"|"string","len":n,"index":V,        *)
(*   "outcome":O,"hit":i}   hit = position of the returned element         *)
(* O \in {"value","error","panic","nil"}.                                  *)
(***************************************************************************)
EXTENDS VariantOps, Json, TLC, Held
VARIABLE l
Trace == ndJsonDeserialize("trace.ndjson")
F(ok, name) == IF ok THEN "" ELSE name \o "; "
BinFails(e) ==
  LET a == e.a  b == e.b  n == e.name IN
  IF e.outcome = "panic" THEN "the operator crashed instead of returning a value or an error; "
  ELSE IF e.outcome = "nil" THEN "the operator returned neither a value nor an error; "
  ELSE IF n \notin {"Equal", "NotEqual"} /\ (a.t = "Null" \/ b.t = "Null")
       THEN F(e.outcome = "value" /\ e.r.t = "Null", "Null does not propagate through the operator")
  ELSE IF n \in {"Equal", "NotEqual"} /\ (a.t = "Null" \/ b.t = "Null")
       THEN F(e.outcome = "value" /\ e.r.t = "Boolean" /\ (e.r.n = 1) = ((n = "Equal") = (a.t = "Null" /\ b.t = "Null")),
              "equality with Null is wrong")
  ELSE IF a.t = "Array" /\ n \in {"Equal", "NotEqual"} THEN ""            \* an error is accepted, a crash is not
  \* "time-span and date-time arithmetic": which of + - * / the library defines on a time span or a date-time first operand is not
  \* listed; where it defines none an error is required, where it delivers a value it is a time span or a date-time
  ELSE IF ~Supported(n, a.t) /\ a.t \in {"TimeSpan", "DateTime"} /\ n \in {"Add", "Sub", "Mul", "Div"}
       THEN F(e.outcome = "error" \/ (e.outcome = "value" /\ e.r.t \in {"TimeSpan", "DateTime"}), "arithmetic on a time span / date-time yielded neither an error nor a time value")
  ELSE IF ~Supported(n, a.t) THEN F(e.outcome = "error", "an operator that is undefined for the first operand's type did not yield an error")
  ELSE IF n = "Pow" /\ b.t # a.t /\ b.t \notin {"Null"} /\ ~(b.t \in Numeric) THEN ""   \* which conversion Pow applies to odd operands is left open
  \* (the type-safe manager must refuse; which further conversions the type-unsafe manager offers is not stated: an error, or a
  \* value of the first operand's arithmetic)
  ELSE IF n # "Pow" /\ ~ConvOK(e.mgr, b.t, ConvTarget(n, a.t))
       THEN F(e.outcome = "error" \/ (e.mgr = "unsafe" /\ e.outcome = "value" /\ e.r.t = ResultType(n, a.t)), "the second operand cannot be converted to the first operand's type, yet no error")
  ELSE IF n = "Pow" /\ e.mgr = "safe" /\ b.t # a.t THEN ""
  ELSE IF Undefined(n, a, b) THEN F(e.outcome = "error", "an undefined operation (division by zero, negative shift) did not yield an error")
  ELSE IF Unknowable(n, a, b) THEN ""
  \* the second operand is a floating-point NaN / infinity / 2^63 and beyond and has to become an integer, a time span or a date-time:
  \* the host defines no such conversion - an error is as good as a value
  ELSE IF e.outcome = "error" /\ "bfits" \in DOMAIN e /\ ~e.bfits /\ b.t \in {"Float", "Double"} /\ ConvTarget(n, a.t) \in {"Integer", "Long", "TimeSpan", "DateTime"} THEN ""
  \* ... or a text that spells no number and has to become one
  ELSE IF e.outcome = "error" /\ "bfits" \in DOMAIN e /\ ~e.bfits /\ b.t = "String" /\ ConvTarget(n, a.t) \in {"Integer", "Long", "Float", "Double", "TimeSpan", "DateTime"} THEN ""
  ELSE IF ShiftTooFar(n, a, b) THEN ""
  ELSE F(e.outcome = "value", "a defined operation yielded an error")
    \o (IF e.outcome # "value" THEN ""
        ELSE F(IF n = "Pow" THEN e.r.t \in Numeric ELSE e.r.t = ResultType(n, a.t), "the result does not have the type of the first operand's arithmetic")
          \o (IF a.t = "String"
              THEN (IF b.t \in {"Object", "Array"} THEN ""           \* how such values are rendered as text is left open
                    ELSE IF n = "Add" THEN F(e.r.c = a.c \o b.c, "string concatenation is wrong")
                    ELSE IF n \in CmpNames THEN F((e.r.n = 1) = StrCmp(n, a, b), "string comparison is wrong") ELSE "")
              ELSE LET x == ExactBin(n, a, b) IN
                   IF ~x[1] THEN ""
                   ELSE IF n \in CmpNames \/ a.t = "Boolean" THEN F(e.r.k = "bool" /\ e.r.n = x[2], "the operator does not return what the arithmetic of the first operand's type gives")
                   ELSE F(Exact(e.r) /\ Num8(e.r) = x[2], "the operator does not return what the arithmetic of the first operand's type gives"))
          \o (IF "host" \in DOMAIN e
              THEN F(e.r.t = e.host.t /\ e.r.s = e.host.s /\ e.r.z = e.host.z, "the operator does not return what the host's own operator on the first operand's native type returns")
              ELSE ""))

UnFails(e) ==
  LET a == e.a IN
  IF e.outcome = "panic" THEN "the operator crashed instead of returning a value or an error; "
  ELSE IF e.outcome = "nil" THEN "the operator returned neither a value nor an error; "
  ELSE IF e.name = "Not"
  THEN (IF a.t = "Null" THEN F(e.outcome = "value" /\ e.r.k = "bool" /\ e.r.n = 1, "NOT of Null is not true")
        ELSE IF a.t \notin Integral \cup {"Boolean"} THEN F(e.outcome = "error", "NOT of an unsupported type did not yield an error")
        ELSE F(e.outcome = "value" /\ e.r.t = a.t, "NOT changed the type")
          \o (IF e.outcome = "value" /\ Exact(a) /\ Exact(e.r)
              THEN F(IF a.t = "Boolean" THEN e.r.n = 1 - a.n ELSE e.r.n = -a.n - 1, "NOT is not the complement") ELSE ""))
  ELSE (IF a.t = "Null" THEN F(e.outcome = "value" /\ e.r.t = "Null", "Null does not propagate through unary minus")
        \* (negating a time span is time-span arithmetic: an error, or the negated span)
        ELSE IF a.t = "TimeSpan" THEN F(e.outcome = "error" \/ (e.outcome = "value" /\ e.r.t = "TimeSpan" /\ (Exact(a) => Exact(e.r) /\ Num8(e.r) = -Num8(a))),
                                        "unary minus of a time span is neither an error nor the negated span")
        ELSE IF a.t \notin Numeric THEN F(e.outcome = "error", "unary minus of an unsupported type did not yield an error")
        ELSE F(e.outcome = "value" /\ e.r.t = a.t, "unary minus changed the type")
          \o (IF e.outcome = "value" /\ Exact(a) THEN F(Exact(e.r) /\ Num8(e.r) = -Num8(a), "unary minus is not the negation") ELSE ""))

UnHostFails(e) == IF "host" \in DOMAIN e /\ e.outcome = "value"
                  THEN F(e.r.t = e.host.t /\ e.r.s = e.host.s /\ e.r.z = e.host.z, "the unary operator does not return what the host's own operator on the native type returns (value and sign of zero)")
                  ELSE ""
\* mutual consistency of the comparisons for operands of equal, ordered types (NaN compares false with everything: skipped)
CmpFails(e) ==
  LET all == {e.lt, e.gt, e.le, e.ge, e.eq, e.ne, e.gtba, e.ltba} IN
  IF "panic" \in all THEN "a comparison crashed; "
  ELSE (IF e.a.t = e.b.t /\ {e.lt, e.gt, e.gtba, e.ltba} \subseteq {"true", "false"}      \* for equal types
        THEN F(e.lt = e.gtba, "a<b differs from b>a") \o F(e.gt = e.ltba, "a>b differs from b<a") ELSE "")
    \o (IF {e.lt, e.gt, e.le, e.ge, e.eq} \subseteq {"true", "false"}
        THEN F((e.le = "true") = (e.lt = "true" \/ e.eq = "true"), "a<=b differs from a<b or a=b")
          \o F((e.ge = "true") = (e.gt = "true" \/ e.eq = "true"), "a>=b differs from a>b or a=b") ELSE "")
    \o (IF {e.eq, e.ne} \subseteq {"true", "false"} THEN F((e.ne = "true") = (e.eq = "false"), "a<>b differs from not a=b") ELSE "")

\* the laws are stated for operands of one type
LawApplies(e) ==
  CASE e.law \in {"addsub", "xorxor", "divmod"} -> e.a.t = e.b.t /\ e.a.t \in Integral
    [] e.law = "addcomm" -> e.a.t = e.b.t /\ e.a.t \in Numeric /\ ~e.nan
    [] e.law = "negneg" -> e.a.t \in Numeric /\ ~e.nan
    [] e.law = "notnot" -> e.a.t \in Integral \cup {"Boolean"}
    [] e.law = "selfstring" -> e.mgr = "unsafe" /\ e.a.t \in Integral
    [] OTHER -> FALSE
LawFails(e) ==
  IF e.outcome = "panic" THEN "an operator crashed; "
  ELSE IF e.outcome # "value" \/ ~LawApplies(e) THEN ""            \* some step was undefined, or the law does not apply
  ELSE CASE e.law \in {"addsub", "negneg", "notnot", "xorxor", "divmod"} ->
              F(e.r.t = e.a.t /\ e.r.s = e.a.s, "algebraic law " \o e.law \o " does not give back the operand")
         [] e.law = "addcomm" -> F(e.r.s = e.r2.s /\ e.r.t = e.r2.t, "addition is not commutative")
         [] e.law = "selfstring" -> F(e.r.s = "0" /\ e.r2.k = "bool" /\ e.r2.n = 1, "an integer and its own decimal text (second operand converted to the integer type) are not equal")
         [] OTHER -> ""

\* membership: the first decisive comparison in list order
RECURSIVE InExpect(_, _)
InExpect(eqs, i) == IF i > Len(eqs) THEN "false" ELSE IF eqs[i] = "error" THEN "error" ELSE IF eqs[i] = "true" THEN "true" ELSE InExpect(eqs, i + 1)
InFails(e) ==
  IF e.outcome = "panic" THEN "membership crashed; "
  ELSE IF e.item.t = "Null" THEN F(e.outcome = "value" /\ e.r.t = "Null", "Null does not propagate through membership")
  ELSE LET w == InExpect(e.eqs, 1) IN
       \* an element that cannot be compared with the value stands before the first equal one (or there is no equal one): the search
       \* may stop there with an error, or go on - it answers true only if some element equals the value, and never false
       IF w = "error" THEN F(e.outcome = "error" \/ (e.outcome = "value" /\ e.r.k = "bool" /\ e.r.n = 1 /\ \E i \in 1 .. Len(e.eqs) : e.eqs[i] = "true"),
                             "membership over an incomparable element yielded neither an error nor a found equal element")
       ELSE F(e.outcome = "value" /\ e.r.k = "bool" /\ (e.r.n = 1) = (w = "true"), "membership is not 'some element equals the value'")
ElemFails(e) ==
  IF e.outcome = "panic" THEN "indexing crashed (an index out of range must be an error); "
  ELSE IF e.index.t = "Null" THEN ""
  ELSE IF ~ConvOK(e.mgr, e.index.t, "Integer") THEN F(e.outcome = "error", "an index that cannot be converted to Integer did not yield an error")
  ELSE IF e.index.k # "int" \/ e.index.t \notin Integral THEN ""
  ELSE IF e.index.n < 0 \/ e.index.n >= e.len THEN F(e.outcome = "error", "an index out of range did not yield an error")
  ELSE F(e.outcome = "value" /\ e.hit = e.index.n, "indexing does not return the element at that position")

\* an earlier result scribbled over by its caller must not show through a later call
AliasFails(e) ==
  IF e.o1 = "panic" \/ e.o2 = "panic" THEN "an operator crashed; "
  ELSE F(e.aa.t = e.a.t /\ e.aa.s = e.a.s /\ e.ba.t = e.b.t /\ e.ba.s = e.b.s, "an operator changed one of its operands")
    \o (IF e.scribbled
        THEN F(e.o2 = e.o1 /\ e.r2.t = e.r1.t /\ e.r2.s = e.r1.s, "an operator hands out a shared result: what a caller does to one result changes later results")
        ELSE F(e.o2 = e.o1 /\ (e.o1 = "value" => e.r2.t = e.r1.t /\ e.r2.s = e.r1.s), "the same call on the same operands gives another result the second time"))
PowDoubleFails(e) ==
  IF e.o1 = "skip" THEN ""
  ELSE IF e.o1 = "panic" \/ e.o2 = "panic" THEN "an operator crashed; "
  ELSE IF e.o1 # "value" \/ e.o2 # "value" THEN ""
  ELSE F(e.r1.s = e.r2.s \/ (e.r1.k # "none" /\ e.r2.k # "none" /\ Num8(e.r1) = Num8(e.r2)), "'^' on integer operands differs from exponentiation of the same numbers")

\* a step of a history on one manager: the operator is a function of its operand VALUES - it returns what a new manager returns
\* for new copies of the operands, whatever was computed before and whichever objects carry the operands
BStepFails(e) ==
  IF e.outcome = "panic" /\ e.fo # "panic" THEN "the operator crashed on a long-lived manager; "
  ELSE F(e.outcome = e.fo /\ (e.outcome = "value" => e.r.t = e.fr.t /\ e.r.s = e.fr.s),
         "an operator call on a long-lived manager differs from the same call on a new manager with new operand objects (it depends on earlier calls or on operand identity)")
Fails(e) == CASE e.op = "bstep" -> BStepFails(e) [] e.op = "alias" -> AliasFails(e) [] e.op = "powdouble" -> PowDoubleFails(e) [] e.op = "bin" -> BinFails(e) [] e.op = "un" -> UnFails(e) \o UnHostFails(e) [] e.op = "cmp" -> CmpFails(e)
              [] e.op = "law" -> LawFails(e) [] e.op = "in" -> InFails(e) [] e.op = "elem" -> ElemFails(e) [] OTHER -> ""
Init == l = 1
Next ==
  /\ l <= Len(Trace)
  /\ l' = l + 1
  /\ LET f == Fails(Trace[l]) IN Report(l, f, Trace[l])
Spec == Init /\ [][Next]_l
Accepted == TLCGet("stats").diameter - 1 = Len(Trace)
=============================================================================
