----------------------------- MODULE CollectionsMC -----------------------------
(***************************************************************************)
(* All operation sequences up to MaxOps over the names {a, A, b}: laws of  *)
(* the list model that C18 states (first added wins, locate adds at most   *)
(* once per folded name, remove splices, clear empties).                   *)
(***************************************************************************)
EXTENDS Collections, TLC
CONSTANT MaxOps
VARIABLES n, last
Names == {<<"a", "a">>, <<"A", "a">>, <<"b", "b">>}
Init == CInit /\ n = 0 /\ last = <<"init">>
Step == /\ n < MaxOps /\ n' = n + 1
        /\ \/ \E nm \in Names : Add(nm[1], nm[2], n, FALSE) /\ last' = <<"add", nm[2]>>
           \/ \E nm \in Names : Locate(nm[1], nm[2], n) /\ last' = <<"locate", nm[2]>>
           \/ \E i \in 0 .. 2 : Remove(i) /\ last' = <<"remove", i>>
           \/ \E nm \in Names : RemoveByName(nm[2]) /\ last' = <<"removebyname", nm[2], FindIndex(nm[2])>>
           \/ Clear /\ last' = <<"clear">>
           \/ ClearValues /\ last' = <<"clearvalues">>
Spec == Init /\ [][Step]_<<items, n, last>>
\* after locate the name resolves; locate never duplicates a folded name that was unique before
LocateResolves == last[1] = "locate" => FindIndex(last[2]) >= 0
\* first added wins: the resolved entry is the earliest with that folded name
FirstWins == \A k \in {"a", "b"} : FindIndex(k) >= 0 =>
                 \A j \in 1 .. FindIndex(k) : items[j][2] # k
ClearEmpties == last[1] = "clear" => items = <<>>
ValuesCleared == last[1] = "clearvalues" => \A i \in 1 .. Len(items) : items[i][4]
LenBound == Len(items) <= n
=============================================================================
