SPECIFICATION Spec
CONSTANTS
  Depth = 2
  Mode = "cover"
  Target = "word"
VIEW View
CHECK_DEADLOCK FALSE
