SPECIFICATION Spec
CONSTANTS
  MaxLen = 4
  Variant = "fixed"
INVARIANTS NoSkipped Consumes
PROPERTY Terminates
