SPECIFICATION Spec
CONSTANTS
  NSlots = 3
  MaxOps = 5
  Mode = "cover"
  Depth = 0
VIEW View
CHECK_DEADLOCK FALSE
