---------------------------- MODULE VariantHeapTrace ----------------------------
(***************************************************************************)
(* Trace validation for C20 on real variants.                              *)
(* Heap events (one segment = one history on 4 variant slots, 2 lists):    *)
(*  {"op":"new"} {"op":"setscalar","v":i,"type":T,"payload":P}             *)
(*  {"op":"fromlist","v":i,"list":L,"how":H} {"op":"setbyindex","v":i,"i":k,"e":id} *)
(*  {"op":"setlength","v":i,"n":k} {"op":"copy","w":i,"v":j,"how":H}      *)
(*  {"op":"clear","v":i} {"op":"listset","list":L,"elems":[id..]}          *)
(*  {"op":"listput","list":L,"i":k,"e":id}                                 *)
(* each with "obs": {"vars":[[type,payload,[elem ids]]..4],                *)
(*                   "eq":[[i,j,"true"|"false"|"panic"]..]}                *)
(* Element ids: strings naming element objects; elements that the variant  *)
(* created itself while growing are reported as "nul:<n>" (a Null element  *)
(* whose identity is new) and "other" if they are not Null.                *)
(* Host-type events: {"op":"host","hostkind":K,"want":T,"type":T',         *)
(*  "value":S,"back":S'}: built from a host value of Go kind K.            *)
(***************************************************************************)
EXTENDS VariantHeap, Json, TLC, Held
VARIABLES l, shared   \* shared: growth elements that were in an array when it was copied (a copy may share them or hold copies of them)
Trace == ndJsonDeserialize("trace.ndjson")
F(ok, name) == IF ok THEN "" ELSE name \o "; "
Slots == 1 .. 4
Lists == {"L1", "L2"}

\* growth creates Null elements with new identities: the recorder reports them as "nul"; the model writes "nul" too
Apply(e) ==
  CASE e.op = "new"        -> vs' = [s \in Slots |-> NullV] /\ ls' = [x \in Lists |-> <<>>] /\ pads' = {} /\ mut' = {}
    [] e.op = "setscalar"  -> SetScalar(e.v, e.type, e.payload)
    [] e.op = "fromlist"   -> FromList(e.v, e.list)
    [] e.op = "setbyindex" -> IF IsArr(e.v) THEN SetByIndex(e.v, e.i, e.e) ELSE UNCHANGED hvars
    [] e.op = "setlength"  -> IF ~IsArr(e.v) THEN UNCHANGED hvars
                              ELSE IF e.n >= 0 /\ e.n < Len(vs[e.v][2]) THEN SetLengthDown(e.v, e.n, Len(e.obs.vars[e.v][3]) = e.n)
                              ELSE SetLength(e.v, e.n)
    [] e.op = "mutelem"    -> MutElem(e.v, e.i)
    [] e.op = "setobject"  -> SetScalar(e.v, "Object", e.payload)
    [] e.op = "copy"       -> CopyTo(e.w, e.v)
    [] e.op = "clear"      -> ClearV(e.v)
    [] e.op = "listset"    -> ListSet(e.list, e.elems)
    [] e.op = "listappend" -> ListAppend(e.list, e.e)
    [] e.op = "listcut"    -> IF e.n <= Len(ls[e.list]) THEN ListCut(e.list, e.n) ELSE UNCHANGED hvars
    [] e.op = "listput"    -> IF e.i < Len(ls[e.list]) THEN ListPut(e.list, e.i, e.e) ELSE UNCHANGED hvars
    [] OTHER               -> UNCHANGED hvars

\* A copy of an array may share the element objects with the original or hold copies of them ("a clone equals its original",
\* "mutating a clone never changes the original" hold either way). A growth element that was copied and then changed in place
\* through one of the arrays therefore shows as changed or unchanged in the others.
ElemOK(seen, id, pp, mm, sh) == seen = Seen(id, pp, mm) \/ (id \in sh /\ id \in mm /\ seen \in {"nul", "other"})
ObsFails(o, v2, pp, mm, sh) ==    \* v2, pp, mm = slots, growth elements and changed growth elements after the operation
     F(\A s \in Slots : o.vars[s][1] = v2[s][1], "a variant reports the wrong type")
  \o F(\A s \in Slots : v2[s][1] = "Array" => (Len(o.vars[s][3]) = Len(v2[s][2]) /\ \A k \in 1 .. Len(v2[s][2]) : ElemOK(o.vars[s][3][k], v2[s][2][k], pp, mm, sh)),
       "an array variant does not hold exactly its own elements (a change to another variant or to the caller's list is visible, or growth did not fill with nulls)")
  \o F(\A s \in Slots : v2[s][1] \notin {"Array", "Null"} => o.vars[s][2] = v2[s][2], "a scalar variant does not return the value it was given")

\* the variant type a host value of each Go kind must get ("*Variant": the type of the variant it was built from)
HostType(e) ==
  CASE e.hostkind \in {"int", "int32"} -> "Integer"
    [] e.hostkind \in {"uint", "uint32", "int64"} -> "Long"
    [] e.hostkind = "float32" -> "Float" [] e.hostkind = "float64" -> "Double"
    [] e.hostkind = "bool" -> "Boolean" [] e.hostkind = "string" -> "String"
    [] e.hostkind = "time.Time" -> "DateTime" [] e.hostkind = "time.Duration" -> "TimeSpan"
    [] e.hostkind = "[]*Variant" -> "Array" [] e.hostkind = "*Variant" -> e.inner
    [] e.hostkind = "nil" -> "Null" [] OTHER -> "Object"
HostFails(e) ==
     \* (the narrow integer kinds int8, int16, uint8, uint16: an integer variant matches them as well as the opaque Object does)
     F(e.type = HostType(e) \/ (e.hostkind = "smallint" /\ e.type \in {"Integer", "Long", "Object"}), "a host value of kind " \o e.hostkind \o " is not given the matching variant type")
  \o F(e.back = e.value, "the typed accessor does not return the host value unchanged")

PadsOf(vv, s) == IF vv[s][1] = "Array" THEN {vv[s][2][k] : k \in 1 .. Len(vv[s][2])} \cap pads ELSE {}
\* does the comparison of a and b look at a copied growth element that was changed in place since?
Blurred(vv, a, b, mm, sh) == vv[a][1] = "Array" /\ vv[b][1] = "Array" /\ \E k \in 1 .. Len(vv[a][2]) : vv[a][2][k] \in sh \cap mm
Init == l = 1 /\ HInit(Slots, Lists) /\ shared = {}
Step ==
  /\ l <= Len(Trace)
  /\ l' = l + 1
  /\ LET e == Trace[l] IN
     IF e.op = "host"
     THEN /\ UNCHANGED <<vs, ls, pads, mut, shared>>
          /\ LET f == HostFails(e) IN Report(l, f, Trace[l])
     ELSE /\ Apply(e)
          /\ shared' = IF e.op = "new" THEN {} ELSE IF e.op = "copy" THEN shared \cup PadsOf(vs, e.v) ELSE shared
          /\ LET eqf == IF \E i \in 1 .. Len(e.obs.eq) : e.obs.eq[i][3] = "panic" THEN "equality failed (panic) instead of answering; "
                        ELSE IF \E i \in 1 .. Len(e.obs.eq) :
                                   LET x == e.obs.eq[i]
                                       want == IF Blurred(vs', x[1], x[2], mut', shared') \/ Blurred(vs', x[2], x[1], mut', shared') THEN "either" ELSE EqualsExpectIn(vs', x[1], x[2])
                                   IN (want = "yes" /\ x[3] # "true") \/ (want = "no" /\ x[3] # "false")
                             THEN "equality gives the wrong answer (a clone must equal its original; different values must differ); "
                        ELSE IF \E i, j \in 1 .. Len(e.obs.eq) : e.obs.eq[i][1] = e.obs.eq[j][2] /\ e.obs.eq[i][2] = e.obs.eq[j][1]
                                                                    /\ e.obs.eq[i][3] # e.obs.eq[j][3]
                             THEN "equality is not symmetric; " ELSE ""
                 f == ObsFails(e.obs, vs', pads', mut', shared') \o eqf
             IN Report(l, f, Trace[l])
Spec == Init /\ [][Step]_<<l, vs, ls, pads, mut, shared>>
Accepted == TLCGet("stats").diameter - 1 = Len(Trace)
=============================================================================
