----------------------------- MODULE ScannerGen -----------------------------
(***************************************************************************)
(* Behaviour generator for C11 (specification -> code).  The abstract      *)
(* Scanner runs with a history variable; TLC explores its complete state   *)
(* graph for every content up to MaxLen (VIEW hides the history, so every  *)
(* abstract state is expanded once, from a shortest history reaching it)   *)
(* and prints, for EVERY transition of the graph, the history that ends    *)
(* with it - one JSON line "BEHAV [...]" of input events in the recorder's *)
(* own format, each carrying `exp`, the observation the model predicts.    *)
(* bin/check hands the lines to verifdrv, which steps the real scanner     *)
(* through them; ScannerTrace validates what it recorded.                  *)
(* With -simulate the same module prints random behaviours of length Depth.*)
(***************************************************************************)
EXTENDS Scanner, Json, TLC
CONSTANTS MaxLen, Depth, Mode
VARIABLE hist

Alphabet == {120, 10, 13}
RECURSIVE Contents(_)
Contents(n) == IF n = 0 THEN {<<>>}
               ELSE LET S == Contents(n - 1) IN
                    S \cup {Append(s, c) : s \in {t \in S : Len(t) = n - 1}, c \in Alphabet}

Obs(s, i) == [k |-> i, line |-> LineOf(s, i), col |-> ColumnOf(s, i), peek |-> PeekOf(s, i),
              pline |-> PeekLineOf(s, i), pcol |-> PeekColumnOf(s, i)]

Emit(h) == PrintT("BEHAV " \o ToJson(h))

Init == \E c \in Contents(MaxLen) : SInit(c) /\ hist = <<[op |-> "new", content |-> c, exp |-> Obs(c, 0)]>>

Do(ev, act) == act /\ hist' = Append(hist, ev)

Step ==
  \/ Do([op |-> "read", exp |-> Obs(content, KNext) @@ [ret |-> ReadRet]], Read)
  \/ Do([op |-> "unread", exp |-> Obs(content, Max(k - 1, 0))], Unread)
  \/ \E n \in {0, 2, 3} : Do([op |-> "unreadmany", n |-> n, exp |-> Obs(content, Max(k - n, 0))], UnreadMany(n))
  \/ Do([op |-> "reset", exp |-> Obs(content, 0)], Reset)

Next == IF Mode = "cover" THEN Step /\ Emit(hist')
        ELSE IF Len(hist) <= Depth THEN Step
        ELSE Emit(hist) /\ UNCHANGED <<content, k, hist>>

Spec == Init /\ [][Next]_<<content, k, hist>>
View == <<content, k>>
=============================================================================
