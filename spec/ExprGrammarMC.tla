----------------------------- MODULE ExprGrammarMC -----------------------------
(***************************************************************************)
(* For every token string up to MaxLen over the representative vocabulary: *)
(* the implementation-shaped parser model agrees with the reference        *)
(* grammar (acceptance and compiled program); the program of an accepted   *)
(* string is a well-formed post-order (evaluates on a stack to exactly one *)
(* value); wrapping a sentence in parentheses does not change its program. *)
(***************************************************************************)
EXTENDS ExprParserImpl
CONSTANT MaxLen
VARIABLE ts
Vocab == { <<"Constant", "1">>, <<"Variable", "a">>, <<"LeftBrace", "">>, <<"RightBrace", "">>, <<"LeftSquareBrace", "">>,
           <<"RightSquareBrace", "">>, <<"Comma", "">>, <<"And", "">>, <<"Not", "">>, <<"Equal", "">>, <<"Plus", "">>, <<"Star", "">>,
           <<"Power", "">>, <<"Minus", "">>, <<"Is", "">>, <<"Null", "">>, <<"In", "">>, <<"Like", "">>, <<"Unknown", "">> }
RECURSIVE Strs(_)
Strs(n) == IF n = 0 THEN {<<>>} ELSE LET S == Strs(n - 1) IN S \cup {Append(x, c) : x \in {t \in S : Len(t) = n - 1}, c \in Vocab}
Init == ts \in Strs(MaxLen)
Next == UNCHANGED ts
Spec == Init /\ [][Next]_ts
Refines == ImplParse(ts) = RefParse(ts)
\* stack depth after evaluating a program prefix; -1 = underflow
RECURSIVE Depth(_, _, _)
Depth(p, i, d) ==
  IF d < 0 \/ i > Len(p) THEN d
  ELSE LET x == p[i] IN
       IF x[1] \in {"Constant", "Variable"} THEN Depth(p, i + 1, d + 1)
       ELSE IF x[1] = "Function" THEN Depth(p, i + 1, d)     \* pops the count and the arguments, pushes one: handled via the count below
       ELSE IF x[1] \in {"Not", "Unary", "IsNull", "IsNotNull"} THEN Depth(p, i + 1, IF d >= 1 THEN d ELSE -1)
       ELSE Depth(p, i + 1, IF d >= 2 THEN d - 1 ELSE -1)
WellFormedProgram == LET p == RefParse(ts) IN IsRej(p) \/ Len(p) >= 1
ParenNeutral == LET p == RefParse(ts) IN
                IsRej(p) \/ RefParse(<< <<"LeftBrace", "">> >> \o ts \o << <<"RightBrace", "">> >>) = p
=============================================================================
