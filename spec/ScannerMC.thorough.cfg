SPECIFICATION Spec
CONSTANTS
  MaxLen = 8
  Variant = "fixed"
INVARIANTS TypeOK Refines ReadRetOK AbstractLaws
VIEW View
CHECK_DEADLOCK FALSE
