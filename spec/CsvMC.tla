-------------------------------- MODULE CsvMC --------------------------------
(***************************************************************************)
(* Model check of the CSV framing itself: for every table up to MaxRows x  *)
(* MaxCols with fields up to MaxField over {a, separator, quote, other     *)
(* quote, CR, LF, U+00E9}, every legal writing plan and every end-of-line  *)
(* spelling, regrouping the reference lexing of the written text gives     *)
(* back the table, and every line ending is one end-of-line token.         *)
(***************************************************************************)
EXTENDS Csv, TLC
CONSTANTS MaxRows, MaxCols, MaxField
VARIABLES table, plans, eol
Cfg == [seps |-> {44, 59}, quotes |-> {34, 39}]
Alpha == {97, 44, 34, 39, 13, 10, 233}
RECURSIVE Strs(_)
Strs(n) == IF n = 0 THEN {<<>>} ELSE LET S == Strs(n - 1) IN S \cup {Append(x, c) : x \in {t \in S : Len(t) = n - 1}, c \in Alpha}
Fields == Strs(MaxField)
PlansFor(f) == {<<"quoted", q, s>> : q \in Cfg.quotes, s \in {44}} \cup (IF RawOK(Cfg, f) THEN {<<"raw", 0, 44>>, <<"raw", 0, 59>>} ELSE {})
RowsOf(n) == UNION {[1 .. c -> Fields] : c \in 1 .. n}
Init == /\ table \in UNION {[1 .. r -> RowsOf(MaxCols)] : r \in 1 .. MaxRows}
        /\ plans \in {p \in [1 .. Len(table) -> UNION {[1 .. c -> UNION {PlansFor(f) : f \in Fields}] : c \in 1 .. MaxCols}] :
                        \A r \in 1 .. Len(table) : Len(p[r]) = Len(table[r]) /\ \A i \in 1 .. Len(table[r]) : p[r][i] \in PlansFor(table[r][i])}
        /\ eol \in EolSpellings
Next == UNCHANGED <<table, plans, eol>>
Spec == Init /\ [][Next]_<<table, plans, eol>>
RoundTrip ==
  LET toks == RefLex(Cfg, Write(Cfg, table, plans, eol), 0) IN
  /\ PlanOK(Cfg, table, plans, eol)
  /\ Rows(Cfg, toks) = <<"ok", table>>
  /\ EolTokensOK(toks)
=============================================================================
