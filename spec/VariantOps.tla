------------------------------ MODULE VariantOps ------------------------------
(***************************************************************************)
(* Value model of variant operators and conversions (C06, C07).            *)
(* A recorded value is a record                                            *)
(*   [t |-> type name, s |-> canonical payload string, c |-> code points   *)
(*    of its text rendering, k |-> kind of exact model, n |-> number]      *)
(* k = "int": Integer/Long/TimeSpan(ms)/DateTime(unix s) with |n| small,   *)
(*     n the exact value;  k = "frac": Float/Double equal to n/8 exactly;  *)
(*     k = "bool": n \in {0,1};  k = "str": a string (c = its characters); *)
(*     k = "none": outside the exactly modelled domain (extremes, NaN,     *)
(*     inexact fractions ...) - covered by outcome classes and laws only.  *)
(* TLC has neither floats nor 64-bit integers; this is why exact values    *)
(* are modelled on small integers and eighths and everything else is       *)
(* decided by laws over the opaque canonical strings s.                    *)
(***************************************************************************)
EXTENDS Integers, Sequences

Numeric == {"Integer", "Long", "Float", "Double"}
Integral == {"Integer", "Long"}
AllTypes == {"Null", "Integer", "Long", "Float", "Double", "String", "Boolean", "DateTime", "TimeSpan", "Object", "Array"}

(* ---- conversions: which (from, to) pairs each manager supports ---- *)
Widening == {<<"Integer", "Long">>, <<"Integer", "Float">>, <<"Integer", "Double">>,
             <<"Long", "Float">>, <<"Long", "Double">>, <<"Float", "Double">>}
UnsafeTargets(from) ==
  CASE from = "Null" -> AllTypes
    [] from = "Integer" -> {"Long", "Float", "Double", "DateTime", "TimeSpan", "Boolean"}
    [] from = "Long" -> {"Integer", "Float", "Double", "DateTime", "TimeSpan", "Boolean"}
    [] from = "Float" -> {"Integer", "Long", "Double", "Boolean"}
    [] from = "Double" -> {"Integer", "Long", "Float", "Boolean"}
    [] from = "String" -> {"Integer", "Long", "Float", "Double", "DateTime", "TimeSpan", "Boolean"}
    [] from = "Boolean" -> {"Integer", "Long", "Float", "Double"}
    [] from \in {"DateTime", "TimeSpan"} -> {"Integer", "Long"}
    [] OTHER -> {}
\* identity requests (own type, Object) and Null always succeed; String is always available to the type-unsafe manager
ConvOK(mgr, from, to) ==
  \/ to \in {"Null", "Object", from}
  \/ mgr = "unsafe" /\ (to = "String" \/ to \in UnsafeTargets(from))
  \/ mgr = "safe" /\ <<from, to>> \in Widening
\* does the request return the value itself?
ConvIdentity(from, to) == to \in {"Object", from}

(* ---- exact small-value model ---- *)
Abs(x) == IF x < 0 THEN -x ELSE x
TruncDiv(a, b) == IF (a >= 0) = (b > 0) THEN Abs(a) \div Abs(b) ELSE -(Abs(a) \div Abs(b))   \* toward zero, b # 0
TruncMod(a, b) == a - b * TruncDiv(a, b)                                                    \* sign of the dividend
RECURSIVE BitOp(_, _, _)
BitOp(f, a, b) == IF a = 0 /\ b = 0 THEN 0            \* bitwise op on non-negative integers, f \in {"and","or","xor"}
                  ELSE LET x == a % 2  y == b % 2
                           z == CASE f = "and" -> (IF x = 1 /\ y = 1 THEN 1 ELSE 0)
                                  [] f = "or"  -> (IF x = 1 \/ y = 1 THEN 1 ELSE 0)
                                  [] OTHER     -> (IF x # y THEN 1 ELSE 0)
                       IN z + 2 * BitOp(f, a \div 2, b \div 2)
RECURSIVE Pow2(_)
Pow2(e) == IF e = 0 THEN 1 ELSE 2 * Pow2(e - 1)
RECURSIVE IPow(_, _)
IPow(a, e) == IF e = 0 THEN 1 ELSE a * IPow(a, e - 1)
\* value times 8 of an exactly modelled number
Num8(v) == IF v.k = "frac" THEN v.n ELSE 8 * v.n
Exact(v) == v.k \in {"int", "frac", "bool"}
\* lexicographic order of code-point sequences (= byte order of their UTF-8 encodings)
RECURSIVE SeqLess(_, _)
SeqLess(a, b) == IF b = <<>> THEN FALSE ELSE IF a = <<>> THEN TRUE
                 ELSE IF a[1] # b[1] THEN a[1] < b[1] ELSE SeqLess(Tail(a), Tail(b))

\* The second operand as a number of the first operand's type (times 8), when the model can compute it:
\* <<TRUE, x8>> or <<FALSE, 0>>.  Integral targets truncate toward zero.
ConvNum8(b, t1) ==
  IF ~Exact(b) THEN <<FALSE, 0>>
  ELSE IF t1 \in Integral \cup {"TimeSpan", "DateTime"} THEN <<TRUE, 8 * TruncDiv(Num8(b), 8)>>
  ELSE <<TRUE, Num8(b)>>
=============================================================================
