------------------------------ MODULE VariantOps ------------------------------
(***************************************************************************)
(* Value model of variant operators and conversions (C06, C07).            *)
(* A recorded value is a record                                            *)
(*   [t |-> type name, s |-> canonical payload string, c |-> code points   *)
(*    of its text rendering, k |-> kind of exact model, n |-> number]      *)
(* k = "int": Integer/Long/TimeSpan(ms)/DateTime(unix s) with |n| small,   *)
(*     n the exact value;  k = "frac": Float/Double equal to n/8 exactly;  *)
(*     k = "bool": n \in {0,1};  k = "str": a string (c = its characters); *)
(*     k = "none": outside the exactly modelled domain (extremes, NaN,     *)
(*     inexact fractions ...) - covered by outcome classes and laws only.  *)
(* TLC has neither floats nor 64-bit integers; this is why exact values    *)
(* are modelled on small integers and eighths and everything else is       *)
(* decided by laws over the opaque canonical strings s.                    *)
(***************************************************************************)
EXTENDS Integers, Sequences

Numeric == {"Integer", "Long", "Float", "Double"}
Integral == {"Integer", "Long"}
AllTypes == {"Null", "Integer", "Long", "Float", "Double", "String", "Boolean", "DateTime", "TimeSpan", "Object", "Array"}

(* ---- conversions: which (from, to) pairs each manager supports ---- *)
Widening == {<<"Integer", "Long">>, <<"Integer", "Float">>, <<"Integer", "Double">>,
             <<"Long", "Float">>, <<"Long", "Double">>, <<"Float", "Double">>}
UnsafeTargets(from) ==
  CASE from = "Null" -> AllTypes
    [] from = "Integer" -> {"Long", "Float", "Double", "DateTime", "TimeSpan", "Boolean"}
    [] from = "Long" -> {"Integer", "Float", "Double", "DateTime", "TimeSpan", "Boolean"}
    [] from = "Float" -> {"Integer", "Long", "Double", "Boolean"}
    [] from = "Double" -> {"Integer", "Long", "Float", "Boolean"}
    [] from = "String" -> {"Integer", "Long", "Float", "Double", "DateTime", "TimeSpan", "Boolean"}
    [] from = "Boolean" -> {"Integer", "Long", "Float", "Double"}
    [] from \in {"DateTime", "TimeSpan"} -> {"Integer", "Long"}
    [] OTHER -> {}
\* identity requests (own type, Object) and Null always succeed; String is always available to the type-unsafe manager
ConvOK(mgr, from, to) ==
  \/ to \in {"Null", "Object", from}
  \/ mgr = "unsafe" /\ (to = "String" \/ to \in UnsafeTargets(from))
  \/ mgr = "safe" /\ <<from, to>> \in Widening
\* does the request return the value itself?
ConvIdentity(from, to) == to \in {"Object", from}

(* ---- exact small-value model ---- *)
Abs(x) == IF x < 0 THEN -x ELSE x
TruncDiv(a, b) == IF (a >= 0) = (b > 0) THEN Abs(a) \div Abs(b) ELSE -(Abs(a) \div Abs(b))   \* toward zero, b # 0
TruncMod(a, b) == a - b * TruncDiv(a, b)                                                    \* sign of the dividend
RECURSIVE BitOp(_, _, _)
BitOp(f, a, b) == IF a = 0 /\ b = 0 THEN 0            \* bitwise op on non-negative integers, f \in {"and","or","xor"}
                  ELSE LET x == a % 2  y == b % 2
                           z == CASE f = "and" -> (IF x = 1 /\ y = 1 THEN 1 ELSE 0)
                                  [] f = "or"  -> (IF x = 1 \/ y = 1 THEN 1 ELSE 0)
                                  [] OTHER     -> (IF x # y THEN 1 ELSE 0)
                       IN z + 2 * BitOp(f, a \div 2, b \div 2)
RECURSIVE Pow2(_)
Pow2(e) == IF e = 0 THEN 1 ELSE 2 * Pow2(e - 1)
RECURSIVE IPow(_, _)
IPow(a, e) == IF e = 0 THEN 1 ELSE a * IPow(a, e - 1)
\* value times 8 of an exactly modelled number
Num8(v) == IF v.k = "frac" THEN v.n ELSE 8 * v.n
Exact(v) == v.k \in {"int", "frac", "bool"}
\* lexicographic order of code-point sequences (= byte order of their UTF-8 encodings)
RECURSIVE SeqLess(_, _)
SeqLess(a, b) == IF b = <<>> THEN FALSE ELSE IF a = <<>> THEN TRUE
                 ELSE IF a[1] # b[1] THEN a[1] < b[1] ELSE SeqLess(Tail(a), Tail(b))

\* The second operand as a number of the first operand's type (times 8), when the model can compute it:
\* <<TRUE, x8>> or <<FALSE, 0>>.  Integral targets truncate toward zero.
ConvNum8(b, t1) ==
  IF ~Exact(b) THEN <<FALSE, 0>>
  ELSE IF t1 \in Integral \cup {"TimeSpan", "DateTime"} THEN <<TRUE, 8 * TruncDiv(Num8(b), 8)>>
  ELSE <<TRUE, Num8(b)>>

(* ---- operators: defined cells, result types, exact results on the modelled domain ---- *)
Small(x) == x >= -8388608 /\ x <= 8388608      \* what the recorder reports as an exactly modelled number (|value| <= 2^20, times 8)

ArithT == [Add |-> Numeric \cup {"TimeSpan", "String"}, Sub |-> Numeric \cup {"TimeSpan", "DateTime"},
           Mul |-> Numeric, Div |-> Numeric, Mod |-> Integral, Pow |-> Numeric,
           And |-> Integral \cup {"Boolean"}, Or |-> Integral \cup {"Boolean"}, Xor |-> Integral \cup {"Boolean"},
           Lsh |-> Integral, Rsh |-> Integral]
EqT  == Numeric \cup {"String", "Boolean", "TimeSpan", "DateTime", "Object"}
OrdT == Numeric \cup {"String", "TimeSpan", "DateTime"}
CmpNames == {"Equal", "NotEqual", "More", "Less", "MoreEqual", "LessEqual"}
Supported(name, t) == IF name \in {"Equal", "NotEqual"} THEN t \in EqT
                      ELSE IF name \in CmpNames THEN t \in OrdT ELSE t \in ArithT[name]
ConvTarget(name, t1) == IF name \in {"Lsh", "Rsh"} THEN "Integer" ELSE t1
ResultType(name, t1) == IF name \in CmpNames THEN "Boolean"
                        ELSE IF name = "Sub" /\ t1 = "DateTime" THEN "TimeSpan" ELSE t1

\* exact result (times 8, or 0/1 for booleans) of a binary operator on exactly modelled operands: <<TRUE, x>> / <<FALSE, 0>>
ExactBin(name, a, b) ==
  LET cb == ConvNum8(b, ConvTarget(name, a.t))
      x8 == Num8(a)   y8 == IF a.t = "Boolean" THEN (IF cb[2] # 0 THEN 8 ELSE 0) ELSE cb[2]   \* a second operand converted to Boolean is 0 or 1
      x  == x8 \div 8  y == y8 \div 8      \* only used for integral types (x8, y8 multiples of 8)
      int == a.t \in Integral \cup {"TimeSpan", "DateTime"}
      yes(v) == IF Small(v) THEN <<TRUE, v>> ELSE <<FALSE, 0>>
      no == <<FALSE, 0>>
      ms == Abs(x8) <= 16384 /\ Abs(y8) <= 16384
  IN IF ~Exact(a) \/ ~cb[1] \/ (a.t = "Boolean" /\ name \notin ({"And", "Or", "Xor"} \cup CmpNames)) THEN no
     ELSE CASE name = "Add" -> yes(x8 + y8)
            [] name = "Sub" -> (IF a.t = "DateTime" THEN (IF Abs(x - y) <= 1000 THEN yes(8 * 1000 * (x - y)) ELSE no) ELSE yes(x8 - y8))
            [] name = "Mul" -> (IF ~ms THEN no ELSE IF int THEN yes(8 * x * y) ELSE IF (x8 * y8) % 8 = 0 THEN yes((x8 * y8) \div 8) ELSE no)
            [] name = "Div" -> (IF y8 = 0 \/ ~ms THEN no ELSE IF int THEN yes(8 * TruncDiv(x, y))
                                ELSE IF (x8 * 8) % Abs(y8) = 0 THEN yes(TruncDiv(x8 * 8, y8)) ELSE no)
            [] name = "Mod" -> (IF y8 = 0 \/ ~int THEN no ELSE yes(8 * TruncMod(x, y)))
            [] name = "Pow" -> (IF x8 % 8 = 0 /\ Num8(b) % 8 = 0 /\ Abs(x) <= 10 /\ y >= 0 /\ y <= 8 THEN yes(8 * IPow(x, y)) ELSE no)
            [] name \in {"And", "Or", "Xor"} ->
                 (IF a.t = "Boolean"
                  THEN LET p == a.n = 1  q == y8 # 0 IN
                       yes(IF (CASE name = "And" -> p /\ q [] name = "Or" -> p \/ q [] OTHER -> p # q) THEN 1 ELSE 0)
                  ELSE IF int /\ x >= 0 /\ y >= 0 THEN yes(8 * BitOp(IF name = "And" THEN "and" ELSE IF name = "Or" THEN "or" ELSE "xor", x, y)) ELSE no)
            [] name = "Lsh" -> (IF x >= 0 /\ x <= 1024 /\ y >= 0 /\ y <= 16 THEN yes(8 * x * Pow2(y)) ELSE no)
            [] name = "Rsh" -> (IF x >= 0 /\ y >= 0 /\ y <= 30 THEN yes(8 * (x \div Pow2(y))) ELSE no)
            [] name = "Equal" -> yes(IF x8 = y8 THEN 1 ELSE 0)
            [] name = "NotEqual" -> yes(IF x8 # y8 THEN 1 ELSE 0)
            [] name = "More" -> yes(IF x8 > y8 THEN 1 ELSE 0)
            [] name = "Less" -> yes(IF x8 < y8 THEN 1 ELSE 0)
            [] name = "MoreEqual" -> yes(IF x8 >= y8 THEN 1 ELSE 0)
            [] name = "LessEqual" -> yes(IF x8 <= y8 THEN 1 ELSE 0)
            [] OTHER -> no

\* comparison of strings: the second operand rendered as text
StrCmp(name, a, b) ==
  LET x == a.c  y == b.c IN
  CASE name = "Equal" -> x = y [] name = "NotEqual" -> x # y [] name = "Less" -> SeqLess(x, y)
    [] name = "More" -> SeqLess(y, x) [] name = "LessEqual" -> ~SeqLess(y, x) [] OTHER -> ~SeqLess(x, y)

\* is the operation undefined for these operands although the types are supported? (needs an exactly modelled 2nd operand)
Undefined(name, a, b) ==
  LET cb == ConvNum8(b, ConvTarget(name, a.t)) IN
  /\ cb[1]
  /\ \/ name \in {"Div", "Mod"} /\ a.t \in Integral /\ cb[2] = 0
     \/ name \in {"Lsh", "Rsh"} /\ cb[2] < 0
\* the converted second operand is outside the model (e.g. a string): whether the operation is defined cannot be told
Unknowable(name, a, b) ==
  /\ ~ConvNum8(b, ConvTarget(name, a.t))[1]
  /\ (name \in {"Lsh", "Rsh"} \/ (name \in {"Div", "Mod"} /\ a.t \in Integral))
ShiftTooFar(name, a, b) == name \in {"Lsh", "Rsh"} /\ (~ConvNum8(b, "Integer")[1] \/ ConvNum8(b, "Integer")[2] >= 8 * 31)

=============================================================================
