SPECIFICATION Spec
CONSTANTS
  NSlots = 3
  MaxOps = 4
  Mode = "cover"
  Depth = 0
VIEW View
CHECK_DEADLOCK FALSE
