----------------------------- MODULE MustacheImpl -----------------------------
(***************************************************************************)
(* Implementation-shaped model of the mustache front end: the tokenizer's  *)
(* text / tag modes (MustacheTokenizer + MustacheSpecialState), the        *)
(* lexical state machine of MustacheParser.completeLexicalAnalysis (states *)
(* Value, Operator1, Operator2, Variable, Closure, Comment) and the        *)
(* recursive section matcher, transliterated from the Go code, over the    *)
(* lexeme alphabet of module Mustache.  ImplAccept(lx) says whether        *)
(* SetTemplate succeeds.  Variant "orig": a comment tag ends in the        *)
(* INTERNAL error branch (no token type for it), as first found.           *)
(***************************************************************************)
EXTENDS Mustache
CONSTANT Variant

\* ---- tokenizer: <<kind, text>> tokens; kind \in special, sym, word, ws ----
RECURSIVE Toks(_, _, _)
Toks(lx, i, special) ==
  IF i > Len(lx) THEN <<>>
  ELSE IF special
       THEN IF lx[i][1] \in Openers THEN Toks(lx, i, FALSE)
            ELSE \* one Special token up to the next opener
                 LET RECURSIVE Stop(_)
                     Stop(j) == IF j > Len(lx) \/ lx[j][1] \in Openers THEN j ELSE Stop(j + 1)
                     e == Stop(i)
                 IN << <<"special", "t">> >> \o Toks(lx, e, FALSE)
       ELSE LET k == lx[i][1] IN
            IF k = "ws" THEN Toks(lx, i + 1, FALSE)                       \* skipped (skip-whitespaces is on)
            ELSE IF k \in {"word", "text"} THEN << <<"word", lx[i][2]>> >> \o Toks(lx, i + 1, FALSE)
            ELSE << <<"sym", k>> >> \o Toks(lx, i + 1, k \in Closers)       \* back to text mode after a closer

\* ---- lexical analysis: fold over the tokens; st = <<state, closing, op1, op2, variable>> ----
\* result: <<"ok", initial tokens>> | <<"err">>;  initial tokens: <<type, value>>
RECURSIVE Lex(_, _, _, _)
Lex(ts, i, st, out) ==
  IF i > Len(ts) THEN (IF st[1] = "Value" THEN <<"ok", out>> ELSE <<"err">>)          \* unexpected end
  ELSE LET t == ts[i]  state == st[1]  closing == st[2]  op1 == st[3]  op2 == st[4]  var == st[5]
           isClose == t[1] = "sym" /\ t[2] \in Closers
       IN
       IF state = "Comment" /\ ~isClose THEN Lex(ts, i + 1, st, out)
       ELSE LET state1 == IF state = "Comment" THEN "Closure" ELSE state IN
       IF t[1] = "special"
       THEN (IF state1 = "Value" THEN Lex(ts, i + 1, st, Append(out, <<"Value", "t">>)) ELSE <<"err">>)
       ELSE IF t[1] = "word"
       THEN LET s1 == IF state1 = "Operator1" THEN "Variable" ELSE state1 IN
            IF s1 = "Operator2" /\ t[2] \in {IF_, UNLESS_} THEN Lex(ts, i + 1, <<"Variable", closing, op1, t[2], var>>, out)
            ELSE LET s2 == IF s1 = "Operator2" THEN "Variable" ELSE s1 IN
                 IF s2 = "Variable" THEN Lex(ts, i + 1, <<"Closure", closing, op1, op2, t[2]>>, out)
                 ELSE <<"err">>                                             \* unexpected symbol
       ELSE \* a symbol
         IF state1 = "Value" /\ t[2] \in Openers THEN Lex(ts, i + 1, <<"Operator1", IF t[2] = "{{" THEN "}}" ELSE "}}}", "", <<>>, <<>>>>, out)
         ELSE IF state1 = "Operator1" /\ t[2] = "!" THEN Lex(ts, i + 1, <<"Comment", closing, "!", op2, var>>, out)
         ELSE IF state1 = "Operator1" /\ t[2] \in {"/", "#", "^"} THEN Lex(ts, i + 1, <<"Operator2", closing, t[2], op2, var>>, out)
         ELSE LET \* "}}" in state Variable: the word read as operator2 is the variable (unless this is a section end)
                  inVar == state1 = "Variable" /\ isClose
                  var2 == IF inVar /\ op1 # "/" THEN op2 ELSE var
                  op22 == IF inVar /\ op1 # "/" THEN <<>> ELSE op2
                  s3 == IF inVar THEN "Closure" ELSE state1
              IN IF s3 = "Closure" /\ isClose
                 THEN IF closing # t[2] THEN <<"err">>                       \* mismatched brackets
                      ELSE LET ty == CASE op1 = "#" /\ (op22 = <<>> \/ op22 = IF_) -> "Section"
                                       [] op1 = "#" /\ op22 = UNLESS_ -> "Inverted"
                                       [] op1 = "^" /\ op22 = <<>> -> "Inverted"
                                       [] op1 = "/" -> "End"
                                       [] op1 = "" -> (IF closing = "}}}" THEN "Esc" ELSE "Var")
                                       [] op1 = "!" /\ Variant # "orig" -> "Comment"
                                       [] OTHER -> "Unknown"
                           IN IF ty = "Unknown" THEN <<"err">>               \* INTERNAL
                              ELSE Lex(ts, i + 1, <<"Value", closing, "", <<>>, <<>>>>, Append(out, <<ty, var2>>))
                 ELSE <<"err">>                                              \* unexpected symbol

\* ---- syntax analysis: sections must nest; an end tag closes the current section if its name is equal or empty ----
RECURSIVE Sect(_, _, _)
\* returns the index after the matching end, or 0 on error; stack = names of open sections (innermost first)
Sect(ini, i, stack) ==
  IF i > Len(ini) THEN (IF stack = <<>> THEN i ELSE 0)
  ELSE LET x == ini[i] IN
       IF x[1] = "End" THEN (IF stack # <<>> /\ (x[2] = stack[1] \/ x[2] = <<>>) THEN Sect(ini, i + 1, Tail(stack)) ELSE 0)
       ELSE IF x[1] \in {"Section", "Inverted"}
            THEN (IF i + 1 > Len(ini) THEN 0 ELSE Sect(ini, i + 1, <<x[2]>> \o stack))    \* a section needs more tokens
            ELSE Sect(ini, i + 1, stack)

ImplAccept(lx) ==
  LET ts == Toks(lx, 1, TRUE) IN
  IF ts = <<>> THEN TRUE
  ELSE LET r == Lex(ts, 1, <<"Value", "", "", <<>>, <<>>>>, <<>>) IN
       r[1] = "ok" /\ (r[2] = <<>> \/ Sect(r[2], 1, <<>>) # 0) /\ r[2] # <<>>
=============================================================================
