SPECIFICATION Spec
CONSTANTS
  MaxLen = 3
  Kind = "variables"
  Mode = "cover"
  Depth = 0
VIEW View
CHECK_DEADLOCK FALSE
