SPECIFICATION Spec
CONSTANT MaxOps = 4
INVARIANTS CloneEquals Symmetric
PROPERTY Independence
CHECK_DEADLOCK FALSE
