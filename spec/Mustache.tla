------------------------------- MODULE Mustache -------------------------------
(***************************************************************************)
(* Reference semantics of the minimal Mustache engine (C10, and the        *)
(* template clauses of C18), over templates given as lexeme sequences.     *)
(* A lexeme is <<kind, text, key>>: kind \in {"text","ws","word","{{",     *)
(* "{{{","}}","}}}","#","^","/","!"}; text = its characters; key = the     *)
(* name folded for case-insensitive comparison (words only).  The template *)
(* text is the concatenation of the lexeme texts.                          *)
(*                                                                         *)
(* MParse(lx) is three-valued:                                             *)
(*   <<"ok", items>>  the template is well formed (MUST be accepted); items*)
(*        is its flat structure: <<"text",s>> <<"var",n,k>> <<"esc",n,k>>  *)
(*        <<"comment">> <<"open",n,k>> <<"openinv",n,k>> <<"close">>       *)
(*   <<"reject">>     a malformation the property lists (MUST be rejected):*)
(*        tag not closed, brace counts differ, section not closed / not    *)
(*        opened / closed under another name                               *)
(*   <<"dontcare">>   anything the statement does not speak about          *)
(***************************************************************************)
EXTENDS Integers, Sequences

Openers == {"{{", "{{{"}
Closers == {"}}", "}}}"}
Match(o, c) == (o = "{{" /\ c = "}}") \/ (o = "{{{" /\ c = "}}}")
Wordish(x) == x[1] \in {"word", "text"}
IsKw(x, s) == Wordish(x) /\ x[2] = s
IF_ == <<105, 102>>
UNLESS_ == <<117, 110, 108, 101, 115, 115>>

\* index of the first closer at or after i, 0 if none; an opener before it makes the tag "nested"
RECURSIVE FindClose(_, _)
FindClose(lx, i) == IF i > Len(lx) THEN 0 ELSE IF lx[i][1] \in Closers THEN i ELSE FindClose(lx, i + 1)
RECURSIVE NoWs(_)
NoWs(s) == IF s = <<>> THEN <<>> ELSE IF Head(s)[1] = "ws" THEN NoWs(Tail(s)) ELSE <<Head(s)>> \o NoWs(Tail(s))

\* classify one tag: opener o, content c (whitespace removed), closer cl.  Returns an item, "reject" or "dontcare".
Tag(o, c, cl) ==
  LET ok(item) == IF Match(o, cl) THEN item ELSE <<"reject">> IN
  IF \E i \in 1 .. Len(c) : c[i][1] \in Openers THEN <<"dontcare">>
  ELSE IF Len(c) >= 1 /\ c[1][1] = "!" THEN ok(<<"comment">>)
  ELSE IF Len(c) = 1 /\ Wordish(c[1]) THEN ok(<<(IF o = "{{" THEN "var" ELSE "esc"), c[1][2], c[1][3]>>)
  ELSE IF Len(c) = 2 /\ c[1][1] = "#" /\ Wordish(c[2]) /\ ~IsKw(c[2], IF_) /\ ~IsKw(c[2], UNLESS_) THEN ok(<<"open", c[2][2], c[2][3]>>)
  ELSE IF Len(c) = 3 /\ c[1][1] = "#" /\ IsKw(c[2], IF_) /\ Wordish(c[3]) THEN ok(<<"open", c[3][2], c[3][3]>>)
  ELSE IF Len(c) = 3 /\ c[1][1] = "#" /\ IsKw(c[2], UNLESS_) /\ Wordish(c[3]) THEN ok(<<"openinv", c[3][2], c[3][3]>>)
  ELSE IF Len(c) = 2 /\ c[1][1] = "^" /\ Wordish(c[2]) /\ ~IsKw(c[2], IF_) /\ ~IsKw(c[2], UNLESS_) THEN ok(<<"openinv", c[2][2], c[2][3]>>)
  ELSE IF Len(c) = 2 /\ c[1][1] = "/" /\ (IsKw(c[2], IF_) \/ IsKw(c[2], UNLESS_)) THEN ok(<<"close", <<>>, <<>>, "any">>)
  ELSE IF Len(c) = 2 /\ c[1][1] = "/" /\ Wordish(c[2]) THEN ok(<<"close", c[2][2], c[2][3], "named">>)
  ELSE <<"dontcare">>

\* flat items of the whole lexeme sequence (text outside tags is literal whatever its lexeme kind)
RECURSIVE Items(_, _)
Items(lx, i) ==
  IF i > Len(lx) THEN <<>>
  ELSE IF lx[i][1] \in Openers
       THEN LET j == FindClose(lx, i + 1) IN
            IF j = 0 THEN << <<"reject">> >>                         \* tag not closed
            ELSE <<Tag(lx[i][1], NoWs(SubSeq(lx, i + 1, j - 1)), lx[j][1])>> \o Items(lx, j + 1)
       ELSE <<<<"text", lx[i][2]>>>> \o Items(lx, i + 1)

\* section structure: stack of <<name, key>> of the open sections
RECURSIVE Structure(_, _, _)
Structure(items, i, stack) ==
  IF i > Len(items) THEN (IF stack = <<>> THEN "ok" ELSE "reject")   \* section not closed
  ELSE LET x == items[i] IN
       IF x[1] \in {"open", "openinv"} THEN Structure(items, i + 1, <<<<x[2], x[3]>>>> \o stack)
       ELSE IF x[1] = "close"
            THEN IF stack = <<>> THEN "reject"                        \* section not opened
                 ELSE IF x[4] = "any" \/ x[2] = stack[1][1] THEN Structure(items, i + 1, Tail(stack))
                 ELSE IF x[3] = stack[1][2] THEN "dontcare"           \* name differs only in letter case
                 ELSE "reject"                                        \* closed under another name
            ELSE Structure(items, i + 1, stack)

MParse(lx) ==
  LET items == Items(lx, 1) IN
  IF \E i \in 1 .. Len(items) : items[i][1] = "dontcare" THEN <<"dontcare">>
  ELSE IF \E i \in 1 .. Len(items) : items[i][1] = "reject" THEN <<"reject">>
  ELSE LET s == Structure(items, 1, <<>>) IN
       IF s = "ok" THEN <<"ok", items>> ELSE <<s>>

(* ---- rendering ---- *)
\* vars: sequence of <<key, value>> (keys folded, distinct)
Lookup(vars, key) == LET hit == {i \in 1 .. Len(vars) : vars[i][1] = key} IN
                     IF hit = {} THEN <<"absent">> ELSE <<"present", vars[CHOOSE i \in hit : TRUE][2]>>
Defined(vars, key) == LET v == Lookup(vars, key) IN v[1] = "present" /\ v[2] # <<>>
ValueOf(vars, key) == LET v == Lookup(vars, key) IN IF v[1] = "present" THEN v[2] ELSE <<>>
EscChar(c) == CASE c = 92 -> <<92, 92>> [] c = 34 -> <<92, 34>> [] c = 47 -> <<92, 47>> [] c = 8 -> <<92, 98>>
                [] c = 12 -> <<92, 102>> [] c = 10 -> <<92, 110>> [] c = 13 -> <<92, 114>> [] c = 9 -> <<92, 116>>
                [] OTHER -> <<c>>
\* "JSON-style escaped": JSON makes the escape of the solidus optional ("\/" and "/" are both JSON); sol says whether the
\* rendering escapes it. Everything else is escaped in the one way JSON has for it.
\* the other control characters (below U+0020): JSON writes them \u00XX; leaving them as they are is what the library did
Hex(d) == IF d < 10 THEN 48 + d ELSE 87 + d
OtherCtl(c) == c >= 0 /\ c < 32 /\ c \notin {8, 9, 10, 12, 13}
RECURSIVE Escape(_, _, _)
Escape(s, sol, ctl) == IF s = <<>> THEN <<>>
                       ELSE (IF Head(s) = 47 /\ ~sol THEN <<47>>
                             ELSE IF ctl /\ OtherCtl(Head(s)) THEN <<92, 117, 48, 48, Hex(Head(s) \div 16), Hex(Head(s) % 16)>>
                             ELSE EscChar(Head(s))) \o Escape(Tail(s), sol, ctl)

\* RenderSeq(items, i, vars) = <<output up to the matching close or the end, index after it>>
RECURSIVE RenderSeq(_, _, _, _, _)
RenderSeq(items, i, vars, sol, ctl) ==
  IF i > Len(items) THEN <<<<>>, i>>
  ELSE LET x == items[i] IN
       IF x[1] = "close" THEN <<<<>>, i + 1>>
       ELSE IF x[1] \in {"open", "openinv"}
            THEN LET body == RenderSeq(items, i + 1, vars, sol, ctl)
                     rest == RenderSeq(items, body[2], vars, sol, ctl)
                     show == IF x[1] = "open" THEN Defined(vars, x[3]) ELSE ~Defined(vars, x[3])
                 IN <<(IF show THEN body[1] ELSE <<>>) \o rest[1], rest[2]>>
            ELSE LET rest == RenderSeq(items, i + 1, vars, sol, ctl)
                     here == CASE x[1] = "text" -> x[2]
                               [] x[1] = "var" -> ValueOf(vars, x[3])
                               [] x[1] = "esc" -> Escape(ValueOf(vars, x[3]), sol, ctl)
                               [] OTHER -> <<>>
                 IN <<here \o rest[1], rest[2]>>
RenderWith2(items, vars, sol, ctl) == RenderSeq(items, 1, vars, sol, ctl)[1]
RenderWith(items, vars, sol) == RenderWith2(items, vars, sol, FALSE)
Render(items, vars) == RenderWith(items, vars, TRUE)
\* is `out` a rendering of the template: with the solidus escaped throughout, or left as it is throughout
IsRendering(out, items, vars) == \E sol \in BOOLEAN, ctl \in BOOLEAN : out = RenderWith2(items, vars, sol, ctl)

\* names in variable position, folded, in order of first occurrence (C18)
RECURSIVE NameKeys(_, _, _)
NameKeys(items, i, seen) ==
  IF i > Len(items) THEN seen
  ELSE LET x == items[i] IN
       IF x[1] \in {"var", "esc", "open", "openinv"} /\ ~(\E j \in 1 .. Len(seen) : seen[j] = x[3])
       THEN NameKeys(items, i + 1, Append(seen, x[3]))
       ELSE NameKeys(items, i + 1, seen)
=============================================================================
