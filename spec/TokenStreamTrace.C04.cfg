SPECIFICATION Spec
CONSTANT Check = "C04"
POSTCONDITION Accepted
CHECK_DEADLOCK FALSE
