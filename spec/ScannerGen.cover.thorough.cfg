SPECIFICATION Spec
CONSTANTS
  MaxLen = 6
  Depth = 0
  Mode = "cover"
VIEW View
CHECK_DEADLOCK FALSE
