---------------------------- MODULE CharMapTrace ----------------------------
(***************************************************************************)
(* Trace validation for C17.  Events recorded on the real code:            *)
(*  {"op":"new","target":T,"obs":{"look":[[ch,id]..]}}                     *)
(*  {"op":"add","lo":..,"hi":..,"ref":R,"obs":..} {"op":"adddefault","ref":R} {"op":"clear"} *)
(* target "map": utilities.CharReferenceMap, id = identity of the returned *)
(*   reference ("A","B","nil", or "other:<type>" for anything else);       *)
(* target "tokenizer": AbstractTokenizer.Set/Get/ClearCharacterState(s)    *)
(*   with real state objects A,B (the consequence clause of C17);          *)
(* target "word"/"ws": GenericWordState.SetWordChars / WhitespaceState,    *)
(*   observed through tokenization of a probe string: id = "set" | "nil".  *)
(***************************************************************************)
EXTENDS CharMap, Json, TLC, Held

VARIABLES l, target
Trace == ndJsonDeserialize("trace.ndjson")
F(ok, name) == IF ok THEN "" ELSE name \o "; "

Expect(rs, ch) ==
  LET r == LookupIn(rs, ch) IN
  IF target' \in {"word", "ws", "word0", "ws0"} THEN (IF r = NoRef THEN "nil" ELSE "set") ELSE r

\* indices of the probes whose looked-up identity is not the latest covering registration
ExpectLit(rs, ch) ==
  LET r == LookupLitIn(rs, ch) IN
  IF target' \in {"word", "ws", "word0", "ws0"} THEN (IF r = NoRef THEN "nil" ELSE "set") ELSE r
Bad(look, rs) == {i \in 1 .. Len(look) : look[i][2] # Expect(rs, look[i][1]) /\ ~(look[i][1] > MaxChar /\ look[i][2] = ExpectLit(rs, look[i][1]))}
LookFails(look, rs) ==
  LET bad == Bad(look, rs) IN
  IF bad = {} THEN ""
  ELSE LET i == CHOOSE x \in bad : \A y \in bad : x <= y IN
       "lookup does not return the latest covering registration; ## first bad probe "
         \o ToString(look[i][1]) \o " returned " \o look[i][2] \o " expected " \o Expect(rs, look[i][1])

\* a word / whitespace state used as constructed starts with its default registrations ("word0", "ws0")
InitialRegs(tg) ==
  CASE tg = "ws0"   -> << <<0, 32, "A">> >>
    [] tg = "word0" -> << <<97, 122, "A">>, <<65, 90, "A">>, <<48, 57, "A">>, <<45, 45, "A">>, <<95, 95, "A">>, <<192, 255, "A">>, <<256, 65535, "A">> >>
    [] OTHER        -> <<>>
Apply(e) ==
  CASE e.op = "new"        -> regs' = InitialRegs(e.target) /\ target' = e.target
    [] e.op = "add"        -> AddInterval(e.lo, e.hi, e.ref) /\ UNCHANGED target
    [] e.op = "adddefault" -> AddDefault(e.ref) /\ UNCHANGED target
    [] e.op = "clear"      -> Clear /\ UNCHANGED target

Init == l = 1 /\ regs = <<>> /\ target = "map"
Next ==
  /\ l <= Len(Trace)
  /\ l' = l + 1
  /\ LET e == Trace[l] IN
     /\ Apply(e)
     /\ LET f == LookFails(e.obs.look, regs') IN
        Report(l, f, Trace[l])
Spec == Init /\ [][Next]_<<l, regs, target>>
Accepted == TLCGet("stats").diameter - 1 = Len(Trace)
=============================================================================
