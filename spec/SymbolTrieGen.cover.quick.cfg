SPECIFICATION Spec
CONSTANTS
  MaxSyms = 2
  MaxSymLen = 2
  MaxInLen = 3
  Mode = "cover"
  Depth = 0
VIEW View
CHECK_DEADLOCK FALSE
