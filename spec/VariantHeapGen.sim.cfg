SPECIFICATION Spec
CONSTANTS
  NSlots = 3
  MaxOps = 0
  Mode = "sim"
  Depth = 25

CHECK_DEADLOCK FALSE
