SPECIFICATION Spec
CONSTANTS
  MaxLen = 3
  Kind = "generic"
INVARIANTS LosslessInv OptionInv PositionInv
CHECK_DEADLOCK FALSE
