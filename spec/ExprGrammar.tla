----------------------------- MODULE ExprGrammar -----------------------------
(***************************************************************************)
(* Reference definition of the expression grammar (C01, C02), independent  *)
(* of the parser's control flow.  A token is <<kind, text>>; kinds are the *)
(* names of the parser's token types.  RefParse(ts) is the post-order      *)
(* (RPN) program of the unique syntax tree of ts, or Rej.                  *)
(*                                                                         *)
(*  E0 := E1 { (And|Or|Xor) E1 }                      left-associative     *)
(*  E1 := [Not] E2                                                         *)
(*  E2 := E3 { (Equal|NotEqual|More|Less|EqualMore|EqualLess) E3 }         *)
(*  E3 := E4 { (Plus|Minus|Like) E4 | Not Like E4 | Is Null                *)
(*            | Is Not Null | Not In E4 }                                  *)
(*  E4 := E5 { (Star|Slash|Procent) E5 }                                   *)
(*  E5 := E6 { (Power|In|ShiftLeft|ShiftRight) E6 }                        *)
(*  E6 := [Plus|Minus] P [ '[' E0 ']' ]       sign binds before the index  *)
(*  P  := Constant | Variable | Variable '(' [E0 {',' E0}] ')' | '(' E0 ')'*)
(*                                                                         *)
(* Program elements: <<"Constant",text>>, <<"Variable",name>>,             *)
(* <<"Function",name>> preceded by <<"Constant", argument count>>, and     *)
(* <<operator,"">> with operator \in {And,...,Unary,Element,NotLike,IsNull,*)
(* IsNotNull,NotIn}.  `a IN b` keeps textual operand order in the program  *)
(* (a b In); the evaluator applies membership with the container first.    *)
(***************************************************************************)
EXTENDS Integers, Sequences, TLC

Rej == <<>>
IsRej(r) == r = Rej
K(ts, i) == IF i >= 1 /\ i <= Len(ts) THEN ts[i][1] ELSE "EOF"
Op(k) == <<k, "">>

L0 == {"And", "Or", "Xor"}
L2 == {"Equal", "NotEqual", "More", "Less", "EqualMore", "EqualLess"}
L3 == {"Plus", "Minus", "Like"}
L4 == {"Star", "Slash", "Procent"}
L5 == {"Power", "In", "ShiftLeft", "ShiftRight"}

RECURSIVE E0(_, _), E0Loop(_, _, _), E1(_, _), E2(_, _), E2Loop(_, _, _), E3(_, _), E3Loop(_, _, _),
          E4(_, _), E4Loop(_, _, _), E5(_, _), E5Loop(_, _, _), E6(_, _), Prim(_, _), Args(_, _, _, _), Index(_, _, _)

\* every E*(ts,i) returns <<program, index of the first unconsumed token>> or Rej
E0(ts, i) == LET r == E1(ts, i) IN IF IsRej(r) THEN Rej ELSE E0Loop(ts, r[1], r[2])
E0Loop(ts, out, i) ==
  IF K(ts, i) \in L0
  THEN LET r == E1(ts, i + 1) IN IF IsRej(r) THEN Rej ELSE E0Loop(ts, out \o r[1] \o <<Op(K(ts, i))>>, r[2])
  ELSE <<out, i>>

E1(ts, i) ==
  IF K(ts, i) = "Not"
  THEN LET r == E2(ts, i + 1) IN IF IsRej(r) THEN Rej ELSE <<r[1] \o <<Op("Not")>>, r[2]>>
  ELSE E2(ts, i)

E2(ts, i) == LET r == E3(ts, i) IN IF IsRej(r) THEN Rej ELSE E2Loop(ts, r[1], r[2])
E2Loop(ts, out, i) ==
  IF K(ts, i) \in L2
  THEN LET r == E3(ts, i + 1) IN IF IsRej(r) THEN Rej ELSE E2Loop(ts, out \o r[1] \o <<Op(K(ts, i))>>, r[2])
  ELSE <<out, i>>

E3(ts, i) == LET r == E4(ts, i) IN IF IsRej(r) THEN Rej ELSE E3Loop(ts, r[1], r[2])
E3Loop(ts, out, i) ==
  IF K(ts, i) \in L3
  THEN LET r == E4(ts, i + 1) IN IF IsRej(r) THEN Rej ELSE E3Loop(ts, out \o r[1] \o <<Op(K(ts, i))>>, r[2])
  ELSE IF K(ts, i) = "Not" /\ K(ts, i + 1) = "Like"
  THEN LET r == E4(ts, i + 2) IN IF IsRej(r) THEN Rej ELSE E3Loop(ts, out \o r[1] \o <<Op("NotLike")>>, r[2])
  ELSE IF K(ts, i) = "Is" /\ K(ts, i + 1) = "Null" THEN E3Loop(ts, out \o <<Op("IsNull")>>, i + 2)
  ELSE IF K(ts, i) = "Is" /\ K(ts, i + 1) = "Not" /\ K(ts, i + 2) = "Null" THEN E3Loop(ts, out \o <<Op("IsNotNull")>>, i + 3)
  ELSE IF K(ts, i) = "Not" /\ K(ts, i + 1) = "In"
  THEN LET r == E4(ts, i + 2) IN IF IsRej(r) THEN Rej ELSE E3Loop(ts, out \o r[1] \o <<Op("NotIn")>>, r[2])
  ELSE <<out, i>>

E4(ts, i) == LET r == E5(ts, i) IN IF IsRej(r) THEN Rej ELSE E4Loop(ts, r[1], r[2])
E4Loop(ts, out, i) ==
  IF K(ts, i) \in L4
  THEN LET r == E5(ts, i + 1) IN IF IsRej(r) THEN Rej ELSE E4Loop(ts, out \o r[1] \o <<Op(K(ts, i))>>, r[2])
  ELSE <<out, i>>

E5(ts, i) == LET r == E6(ts, i) IN IF IsRej(r) THEN Rej ELSE E5Loop(ts, r[1], r[2])
E5Loop(ts, out, i) ==
  IF K(ts, i) \in L5
  THEN LET r == E6(ts, i + 1) IN IF IsRej(r) THEN Rej ELSE E5Loop(ts, out \o r[1] \o <<Op(K(ts, i))>>, r[2])
  ELSE <<out, i>>

E6(ts, i) ==
  LET neg == K(ts, i) = "Minus"
      j   == IF K(ts, i) \in {"Plus", "Minus"} THEN i + 1 ELSE i
      p   == Prim(ts, j)
  IN IF IsRej(p) THEN Rej
     ELSE Index(ts, IF neg THEN p[1] \o <<Op("Unary")>> ELSE p[1], p[2])

Index(ts, out, i) ==
  IF K(ts, i) = "LeftSquareBrace"
  THEN LET r == E0(ts, i + 1) IN
       IF IsRej(r) \/ K(ts, r[2]) # "RightSquareBrace" THEN Rej
       ELSE <<out \o r[1] \o <<Op("Element")>>, r[2] + 1>>
  ELSE <<out, i>>

Prim(ts, i) ==
  CASE K(ts, i) = "Constant" -> << <<ts[i]>>, i + 1>>
    [] K(ts, i) = "Variable" /\ K(ts, i + 1) # "LeftBrace" -> << <<ts[i]>>, i + 1>>
    [] K(ts, i) = "Variable" /\ K(ts, i + 1) = "LeftBrace" ->
         IF K(ts, i + 2) = "RightBrace"
         THEN << << <<"Constant", "0">>, <<"Function", ts[i][2]>> >>, i + 3>>
         ELSE LET a == Args(ts, <<>>, i + 2, 1) IN
              IF IsRej(a) THEN Rej
              ELSE <<a[1] \o << <<"Constant", ToString(a[3])>>, <<"Function", ts[i][2]>> >>, a[2]>>
    [] K(ts, i) = "LeftBrace" ->
         LET r == E0(ts, i + 1) IN
         IF IsRej(r) \/ K(ts, r[2]) # "RightBrace" THEN Rej ELSE <<r[1], r[2] + 1>>
    [] OTHER -> Rej

\* one or more comma-separated arguments up to the closing parenthesis:
\* <<program of all arguments, index after ')', number of arguments>> or Rej
Args(ts, out, i, n) ==
  LET r == E0(ts, i) IN
  IF IsRej(r) THEN Rej
  ELSE IF K(ts, r[2]) = "Comma" THEN Args(ts, out \o r[1], r[2] + 1, n + 1)
  ELSE IF K(ts, r[2]) = "RightBrace" THEN <<out \o r[1], r[2] + 1, n>>
  ELSE Rej

\* the whole token sequence must be one expression
RefParse(ts) ==
  IF ts = <<>> THEN Rej
  ELSE LET r == E0(ts, 1) IN IF IsRej(r) \/ r[2] # Len(ts) + 1 THEN Rej ELSE r[1]
=============================================================================
