------------------------------- MODULE RefLexer -------------------------------
(***************************************************************************)
(* Reference lexers of the generic and the expression tokenizer as total   *)
(* functions from code-point sequences to token sequences <<type, text>>   *)
(* (maximal munch over the character classes of module Lexer, with the     *)
(* push-back rules of the number / comment states), and the option         *)
(* post-processing of the tokenizer main loop as a function on token       *)
(* lists.  Used by LexerMC to model-check, at design level, the properties *)
(* C04 (lossless), C13 (lexemes tokenize back), C15 (options only drop or  *)
(* rewrite) and C12 (positions) of the specification itself.               *)
(***************************************************************************)
EXTENDS Lexer, TokenStream

At(s, i) == IF i >= 1 /\ i <= Len(s) THEN s[i] ELSE -1
RECURSIVE RunEnd(_, _, _, _)
\* last index of the run of characters satisfying the class test, starting at i (i - 1 if none)
RunEnd(kind, s, i, cls) ==
  IF i <= Len(s) /\ (CASE cls = "ws" -> WsChar(s[i]) [] cls = "word" -> WordPart(kind, s[i]) [] cls = "digit" -> Digit(s[i])
                       [] cls = "noteol" -> s[i] # 10 /\ s[i] # 13)
  THEN RunEnd(kind, s, i + 1, cls) ELSE i - 1
\* end of a quoted literal starting at i (generic: next same quote; expression: doubled quotes are escapes)
RECURSIVE QuoteEnd(_, _, _, _)
QuoteEnd(kind, s, j, q) ==
  IF j > Len(s) THEN Len(s)
  ELSE IF s[j] = q THEN (IF kind # "generic" /\ At(s, j + 1) = q THEN QuoteEnd(kind, s, j + 2, q) ELSE j)
  ELSE QuoteEnd(kind, s, j + 1, q)
\* end of a C comment whose body starts at index st: the first "*/" that lies entirely in the body, or the end of input
RECURSIVE CommentEnd(_, _, _)
CommentEnd(s, j, st) == IF j > Len(s) THEN Len(s) ELSE IF s[j] = 47 /\ j - 1 >= st /\ s[j - 1] = 42 THEN j ELSE CommentEnd(s, j + 1, st)
\* symbol state at i: longest registered multi-character symbol, else the single character
SymEnd(kind, s, i) == IF \E m \in MultiSymbols(kind) : At(s, i) = m[1] /\ At(s, i + 1) = m[2] THEN i + 1 ELSE i
\* generic number state at i (s[i] in '-', digit, '.'): <<end index, type>> or <<0, 0>> when there is no digit (fall back to the symbol state)
NumberAt(kind, s, i) ==
  LET a == IF kind = "generic" /\ At(s, i) = 45 THEN i + 1 ELSE i
      d1 == RunEnd(kind, s, a, "digit")
      dot == At(s, d1 + 1) = 46
      d2 == IF dot THEN RunEnd(kind, s, d1 + 2, "digit") ELSE d1
      got == d1 >= a \/ (dot /\ d2 >= d1 + 2)
  IN IF ~got THEN <<0, 0>> ELSE <<d2, IF dot THEN TFloat ELSE TInteger>>
\* the exponent the expression number state may append after a number ending at e
ExpEnd(s, e) ==
  IF At(s, e + 1) \in {101, 69}
  THEN LET j == IF At(s, e + 2) \in {43, 45} THEN e + 3 ELSE e + 2
           d == RunEnd("expression", s, j, "digit")
       IN IF d >= j THEN d ELSE e
  ELSE e

\* one token starting at index i: <<type, end index>>
TokenAt(kind, s, i) ==
  LET c == s[i] IN
  IF WsChar(c) THEN <<TWhitespace, RunEnd(kind, s, i, "ws")>>
  ELSE IF WordStart(kind, c)
       THEN LET e == RunEnd(kind, s, i + 1, "word") IN
            <<IF kind # "generic" /\ UpperSeq(SubSeq(s, i, e)) \in Keywords THEN TKeyword ELSE TWord, e>>
  ELSE IF Digit(c) \/ c = 46 \/ (c = 45 /\ kind = "generic")
       THEN LET n == NumberAt(kind, s, i) IN
            IF n[1] = 0 THEN <<SymType(kind, SubSeq(s, i, SymEnd(kind, s, i))), SymEnd(kind, s, i)>>
            ELSE IF kind # "generic" THEN LET e2 == ExpEnd(s, n[1]) IN <<IF e2 > n[1] THEN TFloat ELSE n[2], e2>>
            ELSE <<n[2], n[1]>>
  ELSE IF c \in {34, 39}
       THEN <<IF kind # "generic" /\ c = 34 THEN TWord ELSE TQuoted, QuoteEnd(kind, s, i + 1, c)>>
  ELSE IF kind = "generic" /\ c = 35 THEN <<TComment, RunEnd(kind, s, i + 1, "noteol")>>
  ELSE IF kind # "generic" /\ c = 47 /\ At(s, i + 1) = 42 THEN <<TComment, CommentEnd(s, i + 2, i + 2)>>
  ELSE IF c <= (IF kind = "generic" THEN 255 ELSE 65534) THEN <<SymType(kind, SubSeq(s, i, SymEnd(kind, s, i))), SymEnd(kind, s, i)>>
  ELSE <<TUnknown, i>>

RECURSIVE RefFrom(_, _, _)
RefFrom(kind, s, i) ==
  IF i > Len(s) THEN << <<TEof, <<>>>> >>
  ELSE LET t == TokenAt(kind, s, i) IN << <<t[1], SubSeq(s, i, t[2])>> >> \o RefFrom(kind, s, t[2] + 1)
RefTokens(kind, s) == RefFrom(kind, s, 1)

\* tokens with positions: <<type, text, line, column>> as the scanner counts them
RECURSIVE WithPos(_, _, _, _)
WithPos(s, toks, i, off) ==
  IF i > Len(toks) THEN <<>>
  ELSE LET b == toks[i]  p == PosOf(s, b, off) IN
       << <<b[1], b[2], p[1], p[2]>> >> \o WithPos(s, toks, i + 1, off + Len(b[2]))

\* the post-processing chain of the tokenizer main loop, as a function of the option-free stream
RECURSIVE Post(_, _, _, _, _)
Post(o, kind, toks, i, lastT) ==
  IF i > Len(toks) THEN <<>>
  ELSE LET b == toks[i] IN
       IF b[1] = TEof THEN (IF "skipEof" \in o THEN <<>> ELSE <<b>>)
       ELSE IF b[1] = TUnknown /\ "skipUnknown" \in o THEN Post(o, kind, toks, i + 1, lastT)
       ELSE IF b[1] = TComment /\ "skipComments" \in o THEN Post(o, kind, toks, i + 1, lastT)
       ELSE IF b[1] = TWhitespace /\ lastT = TWhitespace /\ "skipWhitespaces" \in o THEN Post(o, kind, toks, i + 1, lastT)
       ELSE LET r == Rewrite(o, kind, b) IN << <<r[1], r[2], b[3], b[4]>> >> \o Post(o, kind, toks, i + 1, b[1])
=============================================================================
