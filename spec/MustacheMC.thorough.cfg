SPECIFICATION Spec
CONSTANTS
  MaxLen = 5
  Variant = "fixed"
INVARIANTS Agrees RenderTotal
CHECK_DEADLOCK FALSE
