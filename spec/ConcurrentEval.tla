---------------------------- MODULE ConcurrentEval ----------------------------
(***************************************************************************)
(* C19: processes evaluate ONE compiled program (RPN) concurrently, each   *)
(* with its own variable values.  A step of process p consumes one token   *)
(* and touches only p's own stack and program counter; the compiled        *)
(* program is never assigned.  Values are symbolic terms, so the result    *)
(* of p can be compared with a sequential evaluation under p's values.     *)
(*                                                                         *)
(* Sharing == "none": every evaluation allocates its own stack (the        *)
(*   code); Sharing == "stack": one scratch stack kept in the instance     *)
(*   (the change C19 must catch: TLC finds a schedule whose result differs *)
(*   from the sequential one).                                             *)
(***************************************************************************)
EXTENDS Integers, Sequences, TLC
CONSTANTS Procs, Program, Sharing
\* Program: sequence of <<"var", name>> | <<"const", c>> | <<"op", o>> (binary)
VARIABLES pc, stack, shared, res, prog
vars == <<pc, stack, shared, res, prog>>
Env(p, name) == <<name, p>>                     \* process p's value of the variable

Push(s, x) == Append(s, x)
Top2(s) == <<s[Len(s) - 1], s[Len(s)]>>
Pop2(s) == SubSeq(s, 1, Len(s) - 2)
\* one token applied to a stack under process p's values
Apply(p, tok, s) ==
  CASE tok[1] = "var"   -> Push(s, Env(p, tok[2]))
    [] tok[1] = "const" -> Push(s, <<"c", tok[2]>>)
    [] OTHER            -> Push(Pop2(s), <<tok[2], Top2(s)[1], Top2(s)[2]>>)
RECURSIVE SeqEval(_, _, _)
SeqEval(p, i, s) == IF i > Len(Program) THEN s[1] ELSE SeqEval(p, i + 1, Apply(p, Program[i], s))

Init == /\ pc = [p \in Procs |-> 1] /\ stack = [p \in Procs |-> <<>>] /\ shared = <<>>
        /\ res = [p \in Procs |-> <<"none">>] /\ prog = Program
MyStack(p) == IF Sharing = "stack" THEN shared ELSE stack[p]
\* a binary operator needs two operands on the stack it uses (with a shared stack another process may have taken them)
CanStep(p) == pc[p] <= Len(prog) /\ (prog[pc[p]][1] = "op" => Len(MyStack(p)) >= 2)
Step(p) ==
  /\ CanStep(p)
  /\ LET s2 == Apply(p, prog[pc[p]], MyStack(p)) IN
     /\ IF Sharing = "stack" THEN shared' = s2 /\ UNCHANGED stack
        ELSE stack' = [stack EXCEPT ![p] = s2] /\ UNCHANGED shared
     /\ pc' = [pc EXCEPT ![p] = pc[p] + 1]
     /\ res' = IF pc[p] = Len(prog) THEN [res EXCEPT ![p] = s2[Len(s2)]] ELSE res
  /\ UNCHANGED prog
Next == \E p \in Procs : Step(p)
Spec == Init /\ [][Next]_vars

\* every finished process has the sequential result, for every schedule
ResultsSequential == \A p \in Procs : pc[p] > Len(prog) => res[p] = SeqEval(p, 1, <<>>)
\* the compiled program is only read
ProgramUntouched == [][prog' = prog]_vars
\* a step of p leaves every other process's private state alone
Isolation == [][\A p, q \in Procs : (pc'[p] # pc[p] /\ q # p) => (stack'[q] = stack[q] /\ pc'[q] = pc[q])]_vars
=============================================================================
