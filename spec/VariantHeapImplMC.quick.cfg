SPECIFICATION Spec
CONSTANTS
  MaxOps = 4
  MaxCap = 4
  Variant = "fixed"
INVARIANT Refines
CHECK_DEADLOCK FALSE
