SPECIFICATION Spec
CONSTANTS
  MaxLen = 4
  Variant = "orig"
INVARIANTS Agrees RenderTotal
CHECK_DEADLOCK FALSE
