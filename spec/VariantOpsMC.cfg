SPECIFICATION Spec
CONSTANT N = 6
INVARIANTS CmpLaws IntLaws DivLaws ConvLaws WideningIsLossless
CHECK_DEADLOCK FALSE
