---------------------------- MODULE OutcomeTrace ----------------------------
(***************************************************************************)
(* Trace validation for C03: one event per public call on the real code,   *)
(* executed under recover and a watchdog:                                  *)
(*  {"op":"call","api":A,"kind":"valerr"|"erronly"|"valonly",               *)
(*   "outcome":"result"|"error"|"returned"|"panic"|"neither"|"both"|"hang", *)
(*   "input":..,"vars":..,"detail":..}                                      *)
(***************************************************************************)
EXTENDS Outcome, Json, TLC, Sequences, Held
VARIABLE l
Trace == ndJsonDeserialize("trace.ndjson")
Why(e) == CASE e.outcome = "panic"   -> "the call panicked instead of returning a result or an error; "
            [] e.outcome = "hang"    -> "the call did not terminate; "
            [] e.outcome = "neither" -> "the call returned neither a result nor an error; "
            [] e.outcome = "both"    -> "the call returned both a result and an error; "
            [] OTHER                 -> "the call did not return normally; "
Init == l = 1 /\ OInit
Next ==
  /\ l <= Len(Trace)
  /\ l' = l + 1
  /\ LET e == Trace[l] IN
     /\ Return(e.kind, e.outcome)
     /\ ((Good(e.kind, e.outcome) /\ HeldFails(e) = "")
         \/ PrintT("VERIF-FAIL " \o ToString(l) \o " " \o (IF Good(e.kind, e.outcome) THEN "" ELSE Why(e)) \o HeldFails(e) \o "## " \o e.api))
Spec == Init /\ [][Next]_<<l, calls, bad>>
Accepted == TLCGet("stats").diameter - 1 = Len(Trace)
=============================================================================
