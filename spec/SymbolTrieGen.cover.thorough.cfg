SPECIFICATION Spec
CONSTANTS
  MaxSyms = 2
  MaxSymLen = 3
  MaxInLen = 4
  Mode = "cover"
  Depth = 0
VIEW View
CHECK_DEADLOCK FALSE
