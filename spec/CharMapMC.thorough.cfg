SPECIFICATION Spec
CONSTANTS
  Depth = 3
  Variant = "fixed"
INVARIANTS Refines LatestWins ClearedIsEmpty
CHECK_DEADLOCK FALSE
