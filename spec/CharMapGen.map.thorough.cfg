SPECIFICATION Spec
CONSTANTS
  Depth = 3
  Mode = "cover"
  Target = "map"
VIEW View
CHECK_DEADLOCK FALSE
