------------------------- MODULE ConcurrentEvalTrace -------------------------
(***************************************************************************)
(* Trace validation for C19.                                               *)
(* Scheduled runs (goroutines gated at every variable / function / token   *)
(* access and released in a prescribed interleaving):                      *)
(*  {"op":"start","what":W,"procs":n,"gates":[g..],"seq":[r..],"snap":S}   *)
(*      gates[p] = the gated accesses of p's evaluation in program order;  *)
(*      seq[p] = result of a sequential evaluation under p's values        *)
(*  {"op":"step","p":i,"k":j,"what":g}     p passed its j-th gate          *)
(*  {"op":"finish","p":i,"result":r}                                       *)
(*  {"op":"end","snap":S}                                                  *)
(* Sequential repetition:                                                  *)
(*  {"op":"rstart","snap":S} {"op":"reval","env":k,"result":r} {"op":"rend","snap":S} *)
(* Separate instances: {"op":"iso","a1","a2","b1","b2","c1","c2","d","names0","names1"} results of      *)
(* separate calculators before / after another one was customised.         *)
(* Free-running goroutines under the race detector:                        *)
(*  {"op":"race","mode":M,"goroutines":n,"iters":n,"races":n,"mismatch":n} *)
(* snap = digest of the compiled program, its constants, the variable      *)
(* values of every collection and the function table.                      *)
(***************************************************************************)
EXTENDS Integers, Sequences, Json, TLC, Held
VARIABLES l, pc, fin, gates, seqres, snap0, memo
Trace == ndJsonDeserialize("trace.ndjson")
F(ok, name) == IF ok THEN "" ELSE name \o "; "
svars == <<pc, fin, gates, seqres, snap0, memo>>

Apply(e) ==
  CASE e.op = "start"  -> /\ pc' = [p \in 1 .. e.procs |-> 0] /\ fin' = [p \in 1 .. e.procs |-> FALSE]
                          /\ gates' = e.gates /\ seqres' = e.seq /\ snap0' = e.snap /\ UNCHANGED memo
    [] e.op = "step"   -> /\ pc' = IF e.p \in DOMAIN pc THEN [pc EXCEPT ![e.p] = e.k] ELSE pc
                          /\ UNCHANGED <<fin, gates, seqres, snap0, memo>>
    [] e.op = "finish" -> /\ fin' = IF e.p \in DOMAIN fin THEN [fin EXCEPT ![e.p] = TRUE] ELSE fin
                          /\ UNCHANGED <<pc, gates, seqres, snap0, memo>>
    [] e.op = "rstart" -> snap0' = e.snap /\ memo' = <<>> /\ UNCHANGED <<pc, fin, gates, seqres>>
    [] e.op = "reval"  -> memo' = Append(memo, <<e.env, e.result>>) /\ UNCHANGED <<pc, fin, gates, seqres, snap0>>
    [] OTHER           -> UNCHANGED svars

Fails(e) ==
  CASE e.op = "step" ->
         F(e.p \in DOMAIN pc /\ e.k = pc[e.p] + 1 /\ e.k <= Len(gates[e.p]) /\ e.what = gates[e.p][e.k],
           "an evaluation did not access its variables/functions/tokens in program order")
    [] e.op = "finish" ->
         F(e.p \in DOMAIN pc /\ pc[e.p] = Len(gates[e.p]), "an evaluation finished before passing all its gates")
         \o F(e.p \in DOMAIN pc /\ e.result = seqres[e.p], "a concurrent evaluation does not return the sequential result")
    [] e.op = "end" -> F(\A p \in DOMAIN fin : fin[p], "an evaluation did not finish")
                       \o F(e.snap = snap0, "evaluation modified the compiled program, its constants, the variable values or the function table")
    [] e.op = "reval" -> F(\A i \in 1 .. Len(memo) : memo[i][1] = e.env => memo[i][2] = e.result,
                           "evaluating again with equal inputs returned a different result")
                         \o F(e.result = e.fresh, "an evaluation interleaved with evaluations under other variable sets differs from a fresh evaluation under the same values")
    [] e.op = "rend" -> F(e.snap = snap0, "evaluation modified the compiled program, its constants, the variable values or the function table")
    [] e.op = "iso" -> F(e.a1 = e.a2 /\ e.b1 = e.b2 /\ e.c1 = e.c2 /\ e.d = e.c1 /\ e.names0 = e.names1,
                         "customising one instance (its function table or variables) changed the results or the function table of a separate instance")
    [] e.op = "scrib" -> F(e.again = e.first /\ e.other = e.first /\ e.third = e.first,
                           "a result that its caller overwrote in place shows through in a later evaluation (results are shared between evaluations)")
    [] e.op = "reent" -> F(e.result = e.want, "an evaluation nested inside another evaluation of the same calculator (through a caller-written function) does not return the sequential result")
    [] e.op = "race" -> F(e.races = 0, "the race detector reported a data race") \o F(e.mismatch = 0, "free-running concurrent evaluations returned results that differ from the sequential ones")
    [] OTHER -> ""

Init == l = 1 /\ pc = <<>> /\ fin = <<>> /\ gates = <<>> /\ seqres = <<>> /\ snap0 = "" /\ memo = <<>>
Next ==
  /\ l <= Len(Trace)
  /\ l' = l + 1
  /\ LET e == Trace[l] IN
     /\ Apply(e)
     /\ LET f == Fails(e) IN Report(l, f, Trace[l])
Spec == Init /\ [][Next]_<<l, pc, fin, gates, seqres, snap0, memo>>
Accepted == TLCGet("stats").diameter - 1 = Len(Trace)
=============================================================================
