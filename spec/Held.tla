-------------------------------- MODULE Held --------------------------------
(***************************************************************************)
(* Results are values: what a call handed out (a token list, a compiled    *)
(* program, a list of names, a converted variant, a decoded string ...)    *)
(* and an instance that is merely kept alive stay what they were while     *)
(* OTHER instances are created, configured and used, and while later calls *)
(* are made.  The recorder keeps such objects from an earlier step or      *)
(* segment, renders them again later and attaches both renderings to the   *)
(* later event (held_what, held_then, held_now).  Every trace              *)
(* specification reports through Report, which adds this clause to its     *)
(* own failure text.                                                       *)
(***************************************************************************)
EXTENDS TLC, Sequences
HeldFails(e) ==
  IF "held_then" \in DOMAIN e /\ e.held_then # e.held_now
  THEN "a result or instance kept from earlier (" \o e.held_what \o ") is no longer what it was after later calls / other instances; "
  ELSE ""
\* Specification -> code replay: an event of a behaviour that TLC generated from the abstract model (modules *Gen.tla)
\* carries `exp`, the observation the model predicted when it generated the step, and `got`, the recorder's projection of
\* what the real object showed after the same step.  (The trace specification recomputes the observation as well; this
\* clause ties the generated behaviour itself to the code, so a step the implementation cannot follow is reported even
\* where the two oracles would be wrong together.)
ExpFails(e) ==
  IF "exp" \notin DOMAIN e THEN ""
  ELSE IF "got" \notin DOMAIN e THEN "HARNESS: replayed behaviour without a projection; "
  ELSE IF e.exp = e.got THEN ""
  ELSE "replayed specification behaviour: the implementation does not show what the model predicted for this step; "
Report(l, f, e) == LET g == f \o HeldFails(e) \o ExpFails(e) IN g = "" \/ PrintT("VERIF-FAIL " \o ToString(l) \o " " \o g)
=============================================================================
