-------------------------------- MODULE Held --------------------------------
(***************************************************************************)
(* Results are values: what a call handed out (a token list, a compiled    *)
(* program, a list of names, a converted variant, a decoded string ...)    *)
(* and an instance that is merely kept alive stay what they were while     *)
(* OTHER instances are created, configured and used, and while later calls *)
(* are made.  The recorder keeps such objects from an earlier step or      *)
(* segment, renders them again later and attaches both renderings to the   *)
(* later event (held_what, held_then, held_now).  Every trace              *)
(* specification reports through Report, which adds this clause to its     *)
(* own failure text.                                                       *)
(***************************************************************************)
EXTENDS TLC, Sequences
HeldFails(e) ==
  IF "held_then" \in DOMAIN e /\ e.held_then # e.held_now
  THEN "a result or instance kept from earlier (" \o e.held_what \o ") is no longer what it was after later calls / other instances; "
  ELSE ""
Report(l, f, e) == LET g == f \o HeldFails(e) IN g = "" \/ PrintT("VERIF-FAIL " \o ToString(l) \o " " \o g)
=============================================================================
