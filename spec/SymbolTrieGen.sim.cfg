SPECIFICATION Spec
CONSTANTS
  MaxSyms = 8
  MaxSymLen = 3
  MaxInLen = 5
  Mode = "sim"
  Depth = 30
CHECK_DEADLOCK FALSE
