SPECIFICATION Spec
CONSTANTS
  Depth = 2
  Mode = "cover"
  Target = "tokenizer"
VIEW View
CHECK_DEADLOCK FALSE
