--------------------------- MODULE SymbolTrieTrace ---------------------------
(***************************************************************************)
(* Trace validation for C16 on the real generic.GenericSymbolState with a  *)
(* real io.StringScanner.  Events:                                         *)
(*   {"op":"new"}                         fresh symbol state               *)
(*   {"op":"add","sym":[cp..],"type":t}   GenericSymbolState.Add           *)
(*   {"op":"scan","input":[cp..]}         a new scanner over the input     *)
(*   {"op":"next","obs":{"type":t,"text":[cp..],"k":k'}}  NextToken; k' is *)
(*        the scanner cursor afterwards (hook VerifCursor)                 *)
(***************************************************************************)
EXTENDS SymbolTrie, Json, TLC, Held

VARIABLES l, input, k, alts    \* alts: symbol -> the types it was registered with BEFORE its latest registration
Trace == ndJsonDeserialize("trace.ndjson")
F(ok, name) == IF ok THEN "" ELSE name \o "; "

\* the symbols an instance has from its construction (none for the generic state): list of <<symbol, type>>
Preset(ps) == [s \in {ps[i][1] : i \in 1 .. Len(ps)} |-> ps[CHOOSE i \in 1 .. Len(ps) : ps[i][1] = s][2]]
\* The same symbol registered AGAIN with another type: "registering further symbols never alters the text or type reported for
\* existing ones" speaks of other symbols; whether the repeated registration replaces the type or leaves the first one is not
\* stated - every type the symbol was registered with is accepted from then on.
Apply(e) ==
  CASE e.op = "new"  -> syms' = (IF "preset" \in DOMAIN e THEN Preset(e.preset) ELSE <<>>) /\ input' = <<>> /\ k' = 0 /\ alts' = <<>>
    [] e.op = "add"  -> /\ Add(e.sym, e.type) /\ UNCHANGED <<input, k>>
                        /\ alts' = IF e.sym \in DOMAIN syms /\ syms[e.sym] # e.type
                                   THEN [x \in DOMAIN alts \cup {e.sym} |-> IF x = e.sym THEN (IF x \in DOMAIN alts THEN alts[x] ELSE {}) \cup {syms[e.sym]} ELSE alts[x]]
                                   ELSE alts
    [] e.op = "scan" -> input' = e.input /\ k' = 0 /\ UNCHANGED <<syms, alts>>
    [] e.op = "next" -> \* continue from the OBSERVED cursor, so that one bad token does not
                        \* put the rest of the segment out of step (each event is judged on its own)
                        /\ k' = IF e.obs.k \in 0 .. Len(input) THEN e.obs.k
                                ELSE IF k < Len(input) THEN Next(input, k)[3] ELSE k
                        /\ UNCHANGED <<syms, input, alts>>

Fails(e) ==
  IF e.op # "next" THEN ""
  ELSE IF k >= Len(input) THEN ""      \* driven only while characters remain; nothing to judge at the end
  ELSE LET r == Next(input, k) IN
          F(e.obs.text = r[2], "text is not the longest registered symbol (or the single next character)")
       \o F(e.obs.type = r[1] \/ (r[2] \in DOMAIN alts /\ e.obs.type \in alts[r[2]]), "type is not the type registered for that symbol")
       \o F(e.obs.k = r[3], "did not consume exactly the symbol")

Init == l = 1 /\ syms = <<>> /\ input = <<>> /\ k = 0 /\ alts = <<>>
Next_ ==
  /\ l <= Len(Trace)
  /\ l' = l + 1
  /\ LET e == Trace[l] IN
     /\ Apply(e)
     /\ LET f == Fails(e) IN Report(l, f, Trace[l])
Spec == Init /\ [][Next_]_<<l, syms, input, k, alts>>
Accepted == TLCGet("stats").diameter - 1 = Len(Trace)
=============================================================================
