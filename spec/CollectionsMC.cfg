SPECIFICATION Spec
CONSTANT MaxOps = 5
INVARIANTS LocateResolves FirstWins ClearEmpties ValuesCleared LenBound
CHECK_DEADLOCK FALSE
