------------------------------- MODULE GoSlice -------------------------------
(***************************************************************************)
(* Go slices over a heap of backing arrays, as far as aliasing matters.    *)
(* A slice value is a header <<array id, length>> (offset 0; capacity =    *)
(* length of the backing array); copying a slice value copies the header,  *)
(* not the array.  `append` writes in place when there is spare capacity - *)
(* visible through every other header of the same array - and otherwise    *)
(* moves to a new array whose capacity the runtime chooses (any value from *)
(* the needed length up to MaxCap: the model does not fix a growth policy, *)
(* so what holds here holds for every policy).                             *)
(* Operators are functions on an explicit heap h = [array id -> sequence]; *)
(* array ids are 1 .. n in order of allocation, `Fresh(h)` is the next.    *)
(***************************************************************************)
EXTENDS Integers, Sequences
CONSTANT MaxCap
NilSlice == <<0, 0>>
Fresh(h) == Len(h) + 1
Cap(h, s) == IF s[1] = 0 THEN 0 ELSE Len(h[s[1]])
Elems(h, s) == IF s[1] = 0 THEN <<>> ELSE SubSeq(h[s[1]], 1, s[2])
\* make([]T, n) with capacity c, filled from the sequence xs (padded with "zero")
Alloc(h, xs, c) == Append(h, [i \in 1 .. c |-> IF i <= Len(xs) THEN xs[i] ELSE "zero"])
\* s[i] = x   (0-based i < len)
Store(h, s, i, x) == [h EXCEPT ![s[1]][i + 1] = x]
\* the set of <<heap, slice>> results of append(s, x)
AppendResults(h, s, x) ==
  IF s[2] < Cap(h, s)
  THEN {<<[h EXCEPT ![s[1]][s[2] + 1] = x], <<s[1], s[2] + 1>> >>}
  ELSE {<<Alloc(h, Append(Elems(h, s), x), c), <<Fresh(h), s[2] + 1>> >> : c \in (s[2] + 1) .. (IF MaxCap > s[2] + 1 THEN MaxCap ELSE s[2] + 1)}
\* a := make([]T, len(s)); copy(a, s)      (exact capacity)
CopyExact(h, s) == <<Alloc(h, Elems(h, s), s[2]), <<Fresh(h), s[2]>> >>
\* append([]T{}, s...)   (own array, capacity chosen by the runtime)
CopyResults(h, s) == {<<Alloc(h, Elems(h, s), c), <<Fresh(h), s[2]>> >> : c \in s[2] .. (IF MaxCap > s[2] THEN MaxCap ELSE s[2])}
\* s[:n]   (n <= cap)
Reslice(s, n) == <<s[1], n>>
=============================================================================
