SPECIFICATION Spec
CONSTANT MaxLen = 5
INVARIANTS RoundTrip ReadBack
CHECK_DEADLOCK FALSE
