----------------------------- MODULE ScannerImpl -----------------------------
(***************************************************************************)
(* Implementation-shaped model of io/StringScanner.go: the incremental     *)
(* line/column update in Read, the `column > 0` shortcut and the full      *)
(* recomputation in Unread, the saturation tests, the peek arithmetic --   *)
(* one action per method, as written in the code.  ScannerMC checks that   *)
(* it refines Scanner under  k = position + 1.                             *)
(*                                                                         *)
(* The constant Variant selects the code variant:                          *)
(*   "orig"  : the code as first found -- `if c.position < -1 { return }`  *)
(*             (the guard never fires at the start), the `column > 0`      *)
(*             shortcut taken whatever is stepped over (end-of-input slot, *)
(*             CR, LF), PeekColumn = column+1 at end of input;             *)
(*   "fixed" : the repaired code (see the fix: commits in /repo).          *)
(***************************************************************************)
EXTENDS Integers, Sequences
CONSTANT Variant

EOFCH == -1
LF == 10
CR == 13

VARIABLES content, position, line, column
ivars == <<content, position, line, column>>

\* Go: charAt(position) with 0-based positions
charAt(p) == IF p < 0 \/ p >= Len(content) THEN EOFCH ELSE content[p + 1]
isLine(b, c, a) == (c = LF \/ c = CR) /\ ~(c = CR /\ (b = LF \/ a = LF))
isColumn(c) == c # LF /\ c # CR

IInit(c) == content = c /\ position = -1 /\ line = 1 /\ column = 0

IReadRet == IF position + 1 > Len(content) THEN EOFCH
            ELSE charAt(position + 1)

IRead ==
  /\ UNCHANGED content
  /\ IF position + 1 > Len(content) THEN UNCHANGED <<position, line, column>>
     ELSE /\ position' = position + 1
          /\ IF position' >= Len(content) THEN UNCHANGED <<line, column>>
             ELSE LET b == charAt(position' - 1)
                      c == charAt(position')
                      a == charAt(position' + 1)
                      l1 == IF isLine(b, c, a) THEN line + 1 ELSE line
                      c1 == IF isLine(b, c, a) THEN 0 ELSE column
                  IN /\ line' = l1
                     /\ column' = IF isColumn(c) THEN c1 + 1 ELSE c1

\* full recomputation loop of Unread: <<line, column>> after processing positions 0..p
RECURSIVE RecountTo(_)
RecountTo(p) ==
  IF p < 0 THEN <<1, 0>>
  ELSE LET q == RecountTo(p - 1)
           b == charAt(p - 1)
           c == charAt(p)
           a == charAt(p + 1)
           q1 == IF isLine(b, c, a) THEN <<q[1] + 1, 0>> ELSE q
       IN IF isColumn(c) THEN <<q1[1], q1[2] + 1>> ELSE q1

Recompute == LET r == RecountTo(position') IN line' = r[1] /\ column' = r[2]

IUnreadOrig ==
  /\ UNCHANGED content
  /\ IF position < -1 THEN UNCHANGED <<position, line, column>>      \* UnreadGuardNeverFires
     ELSE /\ position' = position - 1
          /\ IF column > 0 THEN column' = column - 1 /\ line' = line  \* UnreadShortcut
             ELSE Recompute

IUnreadFixed ==
  /\ UNCHANGED content
  /\ IF position < 0 THEN UNCHANGED <<position, line, column>>
     ELSE /\ position' = position - 1
          /\ IF position' + 1 >= Len(content) THEN UNCHANGED <<line, column>>  \* EOF slot
             ELSE IF column > 0 /\ isColumn(charAt(position' + 1))
                  THEN column' = column - 1 /\ line' = line
                  ELSE Recompute

IUnread == IF Variant = "orig" THEN IUnreadOrig ELSE IUnreadFixed

IReset == UNCHANGED content /\ position' = -1 /\ line' = 1 /\ column' = 0

IPeek == charAt(position + 1)
IPeekLine == IF isLine(charAt(position), charAt(position + 1), charAt(position + 2))
             THEN line + 1 ELSE line
IPeekColumn ==
  IF isLine(charAt(position), charAt(position + 1), charAt(position + 2)) THEN 0
  ELSE IF charAt(position + 1) = EOFCH /\ Variant # "orig" THEN column
  ELSE IF isColumn(charAt(position + 1)) THEN column + 1 ELSE column
=============================================================================
