SPECIFICATION Spec
CONSTANTS
  MaxLen = 5
  Variant = "fixed"
INVARIANTS Refines WellFormedProgram ParenNeutral
CHECK_DEADLOCK FALSE
