--------------------------- MODULE QuoteCodecTrace ---------------------------
(***************************************************************************)
(* Trace validation for C14 on the three real quote states.  Events:       *)
(*  {"op":"codec","state":S,"s":[..],"q":q,"enc":[..],"dec":[..],"outcome":O} *)
(*       enc = EncodeString(s,q), dec = DecodeString(enc,q)                *)
(*  {"op":"decode","state":S,"raw":[..],"q":q,"dec":[..],"outcome":O}      *)
(*       DecodeString on arbitrary text (lone quotes, empty, unterminated) *)
(*  {"op":"read","state":S,"s":[..],"q":q,"tail":[..],"enc":[..],          *)
(*   "first":[..],"decoded":[..],"outcome":O}                              *)
(*       the real tokenizer (expression / CSV) reads enc \o tail:          *)
(*       first = text of the first token (decoding off),                   *)
(*       decoded = value of the first token with decoding on               *)
(* Clauses: decode(encode(s)) = s; decode never fails; the encoding in a   *)
(* stream is exactly one token whose decoded value is s.  The exact text   *)
(* of enc is not prescribed (any encoding that round-trips is accepted).   *)
(***************************************************************************)
EXTENDS QuoteCodec, Json, TLC, Held
VARIABLE l
Trace == ndJsonDeserialize("trace.ndjson")
F(ok, name) == IF ok THEN "" ELSE name \o "; "

Fails(e) ==
  IF e.outcome # "ok" THEN "the codec call did not return normally (decoding/encoding must be total); "
  ELSE IF e.op = "codec" THEN F(e.dec = e.s, "decode(encode(s)) is not s")
  ELSE IF e.op = "decode" THEN ""
  ELSE IF e.op = "read" THEN
         F(e.first = e.enc, "the encoded string is not read back as exactly one token")
      \o F(e.decoded = e.s, "the decoded value of the token is not the original string")
  ELSE "unknown event; "

\* drift (reported, never a verdict): the code's encoding differs from the specification's
Drift(e) == e.op = "codec" /\ e.outcome = "ok" /\ e.enc # Encode(e.state, e.s, e.q)

Init == l = 1
Next ==
  /\ l <= Len(Trace)
  /\ l' = l + 1
  /\ LET e == Trace[l] IN
     /\ (~Drift(e) \/ PrintT("SPEC-DRIFT " \o ToString(l) \o " encoding differs from QuoteCodec.Encode"))
     /\ LET f == Fails(e) IN Report(l, f, Trace[l])
Spec == Init /\ [][Next]_l
Accepted == TLCGet("stats").diameter - 1 = Len(Trace)
=============================================================================
