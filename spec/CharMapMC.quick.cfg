SPECIFICATION Spec
CONSTANTS
  Depth = 2
  Variant = "fixed"
INVARIANTS Refines LatestWins ClearedIsEmpty
CHECK_DEADLOCK FALSE
