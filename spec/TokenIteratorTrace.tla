-------------------------- MODULE TokenIteratorTrace --------------------------
(***************************************************************************)
(* Trace validation for C05 (tokenizers).  Events on ONE reused instance:  *)
(*  {"op":"new","kind":K,"opts":[..]}                                      *)
(*  {"op":"setreader","input":[..],"fresh":[tok..]}   fresh = what a newly *)
(*        constructed instance with the same options returns for the input *)
(*  {"op":"hasnext","ret":BOOLEAN}                                         *)
(*  {"op":"next","tok":tok | []}                                           *)
(*  {"op":"buffer","input":[..],"fresh":[tok..],"toks":[tok..]}  a whole   *)
(*        TokenizeBuffer call on the reused instance                       *)
(* tok = [type, [cp..], line, column].                                     *)
(* Events of reused parser / calculator / template instances:              *)
(*  {"op":"reuse","what":W,"obs":X,"fresh":X}  obs on the reused instance  *)
(*        and on a fresh one for the same input and variable values        *)
(***************************************************************************)
EXTENDS TokenIterator, Json, TLC, Held
VARIABLE l
Trace == ndJsonDeserialize("trace.ndjson")
F(ok, name) == IF ok THEN "" ELSE name \o "; "

Apply(e) ==
  CASE e.op = "setreader" -> SetReader(e.fresh)
    [] e.op = "hasnext"   -> HasNext
    [] e.op = "next"      -> Next
    [] e.op = "new"       -> stream' = <<>> /\ i' = 0
    \* options changed directly after the reader was attached: from here on the stream of a new tokenizer with those options
    [] e.op = "setopts" /\ "atstart" \in DOMAIN e -> SetReader(e.fresh)
    [] OTHER              -> UNCHANGED ivars

Fails(e) ==
  CASE e.op = "hasnext" -> F(e.ret = HasNextRet, "has-next answer differs from the fresh stream (or a query advanced the stream)")
    [] e.op = "next"    -> F(e.tok = NextRet, "token differs from what a fresh instance produces at this position")
    [] e.op = "buffer"  -> F(e.toks = e.fresh, "tokens of a reused instance differ from those of a fresh instance")
    [] e.op = "reuse"   -> F(e.obs = e.fresh, "result of a reused instance differs from that of a fresh instance")
    [] OTHER            -> ""

Init == l = 1 /\ IInit
Step ==
  /\ l <= Len(Trace)
  /\ l' = l + 1
  /\ LET e == Trace[l] IN
     /\ Apply(e)
     /\ LET f == Fails(e) IN Report(l, f, Trace[l])
Spec == Init /\ [][Step]_<<l, stream, i>>
Accepted == TLCGet("stats").diameter - 1 = Len(Trace)
=============================================================================
