--------------------------------- MODULE Csv ---------------------------------
(***************************************************************************)
(* CSV framing (C09).  cfg = [seps |-> set of separator characters,        *)
(* quotes |-> set of quote characters].  A table is a non-empty sequence   *)
(* of rows, a row a non-empty sequence of fields, a field a code-point     *)
(* sequence.  A writing plan gives, per field, <<mode, quote, sep>>: mode  *)
(* "raw" or "quoted" with that quote character, sep = the separator        *)
(* written BEFORE the field (ignored for the first field of a row); rows   *)
(* are joined by one end-of-line spelling.                                 *)
(***************************************************************************)
EXTENDS Integers, Sequences, QuoteCodec

LFc == 10
CRc == 13
EolSpellings == {<<10>>, <<13>>, <<13, 10>>, <<10, 13>>}
TEolType == 2  TSymbolType == 7  TQuotedType == 8  TWordType == 9  TEofType == 1

Special(cfg, c) == c \in cfg.seps \/ c \in cfg.quotes \/ c = LFc \/ c = CRc
RawOK(cfg, f) == \A i \in 1 .. Len(f) : ~Special(cfg, f[i])

WriteField(cfg, f, plan) == IF plan[1] = "raw" THEN f ELSE DoubledEncode(f, plan[2])
RECURSIVE WriteRow(_, _, _, _)
WriteRow(cfg, row, plans, i) ==
  IF i > Len(row) THEN <<>>
  ELSE (IF i = 1 THEN <<>> ELSE <<plans[i][3]>>) \o WriteField(cfg, row[i], plans[i]) \o WriteRow(cfg, row, plans, i + 1)
RECURSIVE WriteTable(_, _, _, _, _)
WriteTable(cfg, table, plans, eol, r) ==
  IF r > Len(table) THEN <<>>
  ELSE (IF r = 1 THEN <<>> ELSE eol) \o WriteRow(cfg, table[r], plans[r], 1) \o WriteTable(cfg, table, plans, eol, r + 1)
Write(cfg, table, plans, eol) == WriteTable(cfg, table, plans, eol, 1)
PlanOK(cfg, table, plans, eol) ==
  /\ eol \in EolSpellings
  /\ \A r \in 1 .. Len(table) : \A i \in 1 .. Len(table[r]) :
        /\ plans[r][i][1] = "raw" => RawOK(cfg, table[r][i])
        /\ plans[r][i][1] = "quoted" => plans[r][i][2] \in cfg.quotes
        /\ i > 1 => plans[r][i][3] \in cfg.seps

(* Regrouping a token stream <<type, value>> (string decoding on): rows end at *)
(* end-of-line tokens, fields at separator symbols; a field is the value of    *)
(* its single word / quoted token, or empty.  Returns <<"ok", table>> or       *)
(* <<"malformed">>.                                                            *)
IsSep(cfg, t) == t[1] = TSymbolType /\ Len(t[2]) = 1 /\ t[2][1] \in cfg.seps
RECURSIVE Regroup(_, _, _, _, _, _)
\* rows done, current row (fields done), current field state: <<>> = nothing yet, <<v>> = has value
Regroup(cfg, toks, i, rows, row, cur) ==
  IF i > Len(toks) \/ toks[i][1] = TEofType
  THEN <<"ok", Append(rows, Append(row, IF cur = <<>> THEN <<>> ELSE cur[1]))>>
  ELSE LET t == toks[i] IN
       IF t[1] = TEolType
       THEN Regroup(cfg, toks, i + 1, Append(rows, Append(row, IF cur = <<>> THEN <<>> ELSE cur[1])), <<>>, <<>>)
       ELSE IF IsSep(cfg, t)
       THEN Regroup(cfg, toks, i + 1, rows, Append(row, IF cur = <<>> THEN <<>> ELSE cur[1]), <<>>)
       ELSE IF t[1] \in {TWordType, TQuotedType} /\ cur = <<>>
       THEN Regroup(cfg, toks, i + 1, rows, row, <<t[2]>>)
       ELSE <<"malformed">>
Rows(cfg, toks) == Regroup(cfg, toks, 1, <<>>, <<>>, <<>>)
EolTokensOK(toks) == \A i \in 1 .. Len(toks) : toks[i][1] = TEolType => toks[i][2] \in EolSpellings

(* Reference CSV lexer with decoding (used by the model check of the framing itself). *)
RECURSIVE WordEnd(_, _, _)
WordEnd(cfg, s, i) == IF i > Len(s) \/ Special(cfg, s[i]) THEN i - 1 ELSE WordEnd(cfg, s, i + 1)
RECURSIVE RefLex(_, _, _)
RefLex(cfg, s, k) ==     \* k = characters consumed
  IF k >= Len(s) THEN << <<TEofType, <<>>>> >>
  ELSE LET c == s[k + 1] IN
       IF c \in cfg.seps THEN << <<TSymbolType, <<c>>>> >> \o RefLex(cfg, s, k + 1)
       ELSE IF c = LFc \/ c = CRc
            THEN LET two == k + 2 <= Len(s) /\ s[k + 2] \in {LFc, CRc} /\ s[k + 2] # c IN
                 << <<TEolType, SubSeq(s, k + 1, IF two THEN k + 2 ELSE k + 1)>> >> \o RefLex(cfg, s, IF two THEN k + 2 ELSE k + 1)
       ELSE IF c \in cfg.quotes
            THEN LET raw == ReadQuoted(s, k) IN << <<TQuotedType, DoubledDecode(raw, c)>> >> \o RefLex(cfg, s, k + Len(raw))
       ELSE LET e == WordEnd(cfg, s, k + 1) IN << <<TWordType, SubSeq(s, k + 1, e)>> >> \o RefLex(cfg, s, e)
=============================================================================
