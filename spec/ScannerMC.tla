------------------------------ MODULE ScannerMC ------------------------------
(***************************************************************************)
(* Exhaustive check, for EVERY content up to MaxLen over {x, LF, CR} and   *)
(* with no bound on the length of the call history (the per-content state  *)
(* space is finite), that                                                  *)
(*   (a) the abstract Scanner keeps its type invariant and its observers   *)
(*       satisfy the clauses of C11 that relate them to each other, and    *)
(*   (b) the implementation-shaped model refines it under k = position+1:  *)
(*       every observer of the code model equals the abstract observer.    *)
(* (b) failing is a statement about the *model of the code*; bin/check     *)
(* only turns it into a verdict after reproducing it on the real code.     *)
(***************************************************************************)
EXTENDS Integers, Sequences, TLC
CONSTANTS MaxLen, Variant

VARIABLES content, k, position, line, column, last
A == INSTANCE Scanner
I == INSTANCE ScannerImpl

Alphabet == {120, 10, 13}
RECURSIVE Contents(_)
Contents(n) == IF n = 0 THEN {<<>>}
               ELSE LET S == Contents(n - 1) IN
                    S \cup {Append(s, c) : s \in {t \in S : Len(t) = n - 1}, c \in Alphabet}

vars == <<content, k, position, line, column, last>>

Init == \E c \in Contents(MaxLen) : A!SInit(c) /\ I!IInit(c) /\ last = <<"init", 0>>

Step(aAct, iAct, name, ret) == aAct /\ iAct /\ last' = <<name, ret>>

Next ==
  \/ /\ last' = <<"read", I!IReadRet, A!ReadRet>> /\ A!Read /\ I!IRead
  \/ /\ last' = <<"unread", 0, 0>> /\ A!Unread /\ I!IUnread
  \/ /\ last' = <<"reset", 0, 0>> /\ A!Reset /\ I!IReset

Spec == Init /\ [][Next]_vars

TypeOK == A!TypeOK
\* the refinement mapping and every observer
Refines ==
  /\ k = position + 1
  /\ A!Line = line /\ A!Column = column
  /\ A!Peek = I!IPeek
  /\ A!PeekLine = I!IPeekLine
  /\ A!PeekColumn = I!IPeekColumn
ReadRetOK == last[1] = "read" => last[2] = last[3]
\* the clauses of C11 that hold of the abstract spec by itself
AbstractLaws ==
  /\ k = 0 => A!Line = 1 /\ A!Column = 0
  /\ A!PeekLine >= A!Line
View == <<content, k, position, line, column>>
=============================================================================
