------------------------------- MODULE Outcome -------------------------------
(***************************************************************************)
(* C03: every public call on untrusted input is a two-step protocol whose  *)
(* only terminal states are a normal return - for evaluating calls exactly *)
(* one of a non-nil result or a non-nil error.  Panic, neither, both and   *)
(* hang are the bad states.  The variables count what has been seen so     *)
(* that the invariant "no bad terminal state was ever reached" can be      *)
(* stated on the trace specification.                                      *)
(***************************************************************************)
EXTENDS Integers
VARIABLES calls, bad
Good(kind, outcome) ==
  IF kind = "valerr" THEN outcome \in {"result", "error"}      \* evaluating call: a result or an error
  ELSE outcome = "returned"                                    \* error-only or value-only call: returns normally
OInit == calls = 0 /\ bad = 0
Return(kind, outcome) == calls' = calls + 1 /\ bad' = bad + (IF Good(kind, outcome) THEN 0 ELSE 1)
NeverBad == bad = 0
=============================================================================
