SPECIFICATION Spec
CONSTANTS
  MaxLen = 5
  Variant = "orig"
INVARIANTS TypeOK Refines ReadRetOK AbstractLaws
VIEW View
CHECK_DEADLOCK FALSE
