SPECIFICATION Spec
CONSTANTS
  MaxSym = 3
  MaxIn = 4
  MaxRegs = 14
  Variant = "fixed"
  Reads = FALSE
INVARIANTS Refines NoUnregisteredPrefix
CHECK_DEADLOCK FALSE
