----------------------------- MODULE SymbolTrieMC -----------------------------
(***************************************************************************)
(* Exhaustive refinement check for C16: for EVERY set of symbols among the *)
(* strings of length 1..MaxSym over {a,b}, reached by every registration   *)
(* order (symbols are added one at a time, in any order), each with its    *)
(* own token type, and for every input up to MaxIn over {a,b,c} and every  *)
(* position, the trie model returns what SymbolTrie.Next specifies.        *)
(* Reads are modelled as steps too (they only matter for the memoised      *)
(* ancestry of variant "orig").                                            *)
(***************************************************************************)
EXTENDS Integers, Sequences, FiniteSets, TLC
CONSTANTS MaxSym, MaxIn, MaxRegs, Variant, Reads
VARIABLES syms, nodes, valid, ttype, cache
A == INSTANCE SymbolTrie
I == INSTANCE SymbolTrieImpl

RECURSIVE Strs(_, _)
Strs(alpha, n) == IF n = 0 THEN {<<>>}
                  ELSE LET S == Strs(alpha, n - 1) IN
                       S \cup {Append(s, c) : s \in {t \in S : Len(t) = n - 1}, c \in alpha}
AB == {97, 98}
Universe == Strs(AB, MaxSym) \ {<<>>}
Inputs == Strs({97, 98, 99}, MaxIn) \ {<<>>}
\* each symbol has its own type: 100 + a number derived from its text
RECURSIVE Code(_)
Code(s) == IF s = <<>> THEN 0 ELSE 3 * Code(SubSeq(s, 1, Len(s) - 1)) + (s[Len(s)] - 96)
TypeOf(s) == 100 + Code(s)

vars == <<syms, nodes, valid, ttype, cache>>
Init == A!TInit /\ I!IInit
AddStep == /\ Cardinality(DOMAIN syms) < MaxRegs
           /\ \E s \in Universe \ DOMAIN syms : A!Add(s, TypeOf(s)) /\ I!IAdd(s, TypeOf(s))
ReadStep == /\ Reads
            /\ \E inp \in Inputs, k \in 0 .. MaxIn - 1, shared \in BOOLEAN :
                  k < Len(inp) /\ I!IMemo(inp, k, shared) /\ cache' # cache
            /\ UNCHANGED <<syms, nodes, valid, ttype>>
Next == AddStep \/ ReadStep
Spec == Init /\ [][Next]_vars

Refines == \A inp \in Inputs : \A k \in 0 .. Len(inp) - 1 : I!INext(inp, k) = A!Next(inp, k)
\* clauses of C16 on the abstract table itself
NoUnregisteredPrefix ==
  \A inp \in Inputs : \A k \in 0 .. Len(inp) - 1 :
     LET r == A!Next(inp, k) IN Len(r[2]) > 1 => r[2] \in DOMAIN syms /\ r[1] = syms[r[2]]
=============================================================================
