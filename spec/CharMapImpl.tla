----------------------------- MODULE CharMapImpl -----------------------------
(***************************************************************************)
(* Implementation-shaped model of CharReferenceMap.go: a direct table for  *)
(* 0x00..0xFF (modelled at the probe points only) and a newest-first list  *)
(* of intervals for 0x100..0xFFFE; AddInterval clamps `end` to 0xFFFE,     *)
(* fills the table part, and prepends the part above 0xFF to the list.     *)
(* Variant "orig": Lookup returned the interval's accessor *method value*  *)
(* (`interval.Reference` without the call) for characters >= 0x100, which  *)
(* is never a usable reference ("other"). Variant "fixed": the reference.  *)
(***************************************************************************)
EXTENDS Integers, Sequences
CONSTANTS Variant, LowProbes      \* LowProbes: the probe characters below 0x100

VARIABLES table, intervals        \* table: [LowProbes -> ref]; intervals: newest first
IInit == table = [p \in LowProbes |-> "nil"] /\ intervals = <<>>

IAddInterval(start, end0, ref) ==
  LET end == IF end0 >= 65535 THEN 65534 ELSE end0 IN
  /\ table' = [p \in LowProbes |-> IF start <= p /\ p <= end THEN ref ELSE table[p]]
  /\ intervals' = IF end >= 256
                  THEN <<<<(IF start < 256 THEN 256 ELSE start), end, ref>>>> \o intervals
                  ELSE intervals
IAddDefault(ref) == IAddInterval(0, 65534, ref)
IClear == table' = [p \in LowProbes |-> "nil"] /\ intervals' = <<>>

RECURSIVE First(_, _)
First(ivs, ch) == IF ivs = <<>> THEN "nil"
                  ELSE IF Head(ivs)[1] <= ch /\ ch <= Head(ivs)[2]
                       THEN (IF Variant = "orig" THEN "other" ELSE Head(ivs)[3])
                       ELSE First(Tail(ivs), ch)
ILookup(ch) == IF ch < 0 THEN "nil" ELSE IF ch < 256 THEN table[ch] ELSE First(intervals, ch)
=============================================================================
