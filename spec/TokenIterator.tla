---------------------------- MODULE TokenIterator ----------------------------
(***************************************************************************)
(* Abstract specification of a reused tokenizer instance (C05): after      *)
(* SetReader(x) the instance is an iterator over fresh(x), the stream a    *)
(* freshly constructed instance produces for x.  HasNext neither advances  *)
(* nor changes anything however often it is asked; Next returns the next   *)
(* element and advances; past the end Next answers "no token" forever.     *)
(* Nothing of what was processed before SetReader survives it.             *)
(***************************************************************************)
EXTENDS Integers, Sequences
VARIABLES stream, i
ivars == <<stream, i>>
NoToken == <<>>
IInit == stream = <<>> /\ i = 0
SetReader(fresh) == stream' = fresh /\ i' = 0
HasNextRet == i < Len(stream)
HasNext == UNCHANGED ivars
NextRet == IF i < Len(stream) THEN stream[i + 1] ELSE NoToken
Next == i' = (IF i < Len(stream) THEN i + 1 ELSE i) /\ UNCHANGED stream
TypeOK == i \in 0 .. Len(stream)
=============================================================================
