SPECIFICATION Spec
CONSTANT Check = "C12"
POSTCONDITION Accepted
CHECK_DEADLOCK FALSE
