package main

import (
	"fmt"
	cparsers "github.com/pip-services3-gox/pip-services3-expressions-gox/calculator/parsers"
	"math/rand"
	"strings"

	"github.com/pip-services3-gox/pip-services3-expressions-gox/calculator"
	"github.com/pip-services3-gox/pip-services3-expressions-gox/calculator/functions"
	"github.com/pip-services3-gox/pip-services3-expressions-gox/calculator/variables"
	"github.com/pip-services3-gox/pip-services3-expressions-gox/variants"
)

// C18: variables are discovered exactly and names resolve case-insensitively.
// Parts: "expr" (names reported for expressions, automatic variables, missing names), "coll" (the two
// collections against the list model), "tmpl" (names reported for templates; events of C10's executor).
func init() {
	props["C18"] = &Prop{
		Generate: genC18,
		Exec:     execC18,
		Rule: "expr/tmpl: one event per generated expression or template; coll: one segment per operation sequence on one " +
			"collection; non-trivial = distinct case with a name repeated in different letter case, or >= 3 collection operations",
		NonTrivial: func(seg []Ev) string {
			e := seg[0]
			switch toStr(e["op"]) {
			case "names":
				keys := map[string]map[string]bool{}
				for _, n := range e["nodes"].([]any) {
					x := n.(xnode)
					if x.K == "var" {
						if keys[x.Key] == nil {
							keys[x.Key] = map[string]bool{}
						}
						keys[x.Key][x.Text] = true
					}
				}
				for _, sp := range keys {
					if len(sp) >= 2 {
						return fmt.Sprint(e["text"])
					}
				}
				return ""
			case "tmpl":
				return fmt.Sprint(e["lex"])
			case "missing":
				return fmt.Sprint(e["text"])
			}
			if len(seg) >= 4 {
				return fmt.Sprint(seg)
			}
			return ""
		},
	}
}

type c18coll struct {
	kind string
	vars *variables.VariableCollection
	fns  *functions.FunctionCollection
	ids  map[any]int
	next int
}

// identities are strings so that "none" and an identity are values of one kind in the specification
func (c *c18coll) id(o any) string {
	if o == nil {
		return "none"
	}
	if x, ok := c.ids[o]; ok {
		return fmt.Sprint("#", x)
	}
	c.next++
	c.ids[o] = c.next
	return fmt.Sprint("#", c.next)
}

func (c *c18coll) list() []any {
	out := []any{}
	if c.kind == "variables" {
		for _, v := range c.vars.GetAll() {
			out = append(out, []any{v.Name(), collKey(v.Name()), c.id(v), v.Value().IsNull()})
		}
	} else {
		for _, f := range c.fns.GetAll() {
			out = append(out, []any{f.Name(), collKey(f.Name()), c.id(f), false})
		}
	}
	return out
}

func execC18(seg []Ev) []Ev {
	var c *c18coll
	out := make([]Ev, 0, len(seg))
	for _, in := range seg {
		op := toStr(in["op"])
		switch op {
		case "tmpl":
			out = append(out, execC10([]Ev{in})...)
			continue
		case "names":
			out = append(out, execNames(in))
			continue
		case "missing":
			out = append(out, execMissing(in))
			continue
		}
		e := Ev{"op": op}
		name, _ := in["name"].(string)
		key := collKey(name)
		if name != "" {
			e["name"], e["key"] = name, key
		}
		switch op {
		case "new":
			c = &c18coll{kind: toStr(in["kind"]), ids: map[any]int{}}
			e["kind"] = c.kind
			c.vars = variables.NewVariableCollection()
			c.fns = functions.NewFunctionCollection()
		case "add":
			nul := toBool(in["isnull"])
			if c.kind == "variables" {
				var val *variants.Variant
				if !nul {
					val = variants.VariantFromInteger(1)
				}
				v := variables.NewVariable(name, val)
				c.vars.Add(v)
				e["id"] = c.id(v)
			} else {
				nul = false
				f := functions.NewDelegatedFunction(name, func(p []*variants.Variant, o variants.IVariantOperations) (*variants.Variant, error) {
					return variants.Empty, nil
				})
				c.fns.Add(f)
				e["id"] = c.id(f)
			}
			e["isnull"] = nul
		case "find":
			if c.kind == "variables" {
				if v := c.vars.FindByName(name); v != nil {
					e["ret"] = c.id(v)
				} else {
					e["ret"] = "none"
				}
			} else {
				if f := c.fns.FindByName(name); f != nil {
					e["ret"] = c.id(f)
				} else {
					e["ret"] = "none"
				}
			}
		case "findindex":
			if c.kind == "variables" {
				e["ret"] = c.vars.FindIndexByName(name)
			} else {
				e["ret"] = c.fns.FindIndexByName(name)
			}
		case "locate":
			if c.kind == "variables" {
				e["ret"] = c.id(c.vars.Locate(name))
			} else { // function collections have no locate: use find-or-nothing
				e["op"] = "findindex"
				e["ret"] = c.fns.FindIndexByName(name)
			}
		case "remove":
			i := toInt(in["index"])
			e["index"] = i
			n := c.vars.Length()
			if c.kind != "variables" {
				n = c.fns.Length()
			}
			if i >= 0 && i < n { // an invalid index is API misuse and not driven
				if c.kind == "variables" {
					c.vars.Remove(i)
				} else {
					c.fns.Remove(i)
				}
			}
		case "addagain":
			// the object at that position is added once more (a collection is a list: it then occurs twice)
			i := toInt(in["index"])
			e["index"] = i
			e["id"] = "none"
			if c.kind == "variables" && i >= 0 && i < c.vars.Length() {
				v := c.vars.Get(i)
				c.vars.Add(v)
				e["id"] = c.id(v)
			} else if c.kind != "variables" && i >= 0 && i < c.fns.Length() {
				f := c.fns.Get(i)
				c.fns.Add(f)
				e["id"] = c.id(f)
			}
		case "removebyname":
			if c.kind == "variables" {
				c.vars.RemoveByName(name)
			} else {
				c.fns.RemoveByName(name)
			}
		case "clear":
			if c.kind == "variables" {
				c.vars.Clear()
			} else {
				c.fns.Clear()
			}
		case "clearvalues":
			if c.kind == "variables" {
				c.vars.ClearValues()
			} else {
				e["op"] = "length"
				e["ret"] = c.fns.Length()
			}
		case "setvalue":
			if c.kind == "variables" {
				if v := c.vars.FindByName(name); v != nil {
					v.SetValue(variants.VariantFromString("x"))
				}
			} else {
				e["op"] = "length"
				e["ret"] = c.fns.Length()
			}
		case "length":
			if c.kind == "variables" {
				e["ret"] = c.vars.Length()
			} else {
				e["ret"] = c.fns.Length()
			}
		case "get":
			i := toInt(in["index"])
			e["index"] = i
			n := c.vars.Length()
			if c.kind != "variables" {
				n = c.fns.Length()
			}
			e["ret"] = "none"
			if i >= 0 && i < n {
				if c.kind == "variables" {
					e["ret"] = c.id(c.vars.Get(i))
				} else {
					e["ret"] = c.id(c.fns.Get(i))
				}
			}
		}
		e["list"] = c.list()
		// a list that GetAll returned earlier is the caller's: later operations on the collection do not change it
		if c != nil {
			if kpColl == nil {
				kpColl = &keeper{}
			}
			kpColl.check(e)
			if c.kind == "variables" {
				all := c.vars.GetAll()
				kpColl.keep("list returned by GetAll at an earlier step", func() string {
					s := ""
					for _, v := range all {
						s += v.Name() + ","
					}
					return s
				})
			} else {
				all := c.fns.GetAll()
				kpColl.keep("list returned by GetAll at an earlier step", func() string {
					s := ""
					for _, f := range all {
						s += f.Name() + ","
					}
					return s
				})
			}
		}
		out = append(out, e)
	}
	kpColl = nil
	return out
}

// collKey: the key under which the collections compare names (the host's upper-case mapping)
var kpColl *keeper

func collKey(name string) string { return strings.ToUpper(name) }

// nameKey: the same comparison; the generated syntax trees spell their keys this way too
func nameKey(name string) string { return strings.ToUpper(name) }

func execNames(in Ev) Ev {
	a := astFromEv(in)
	root := toInt(in["root"])
	mode := toInt(in["mode"])
	seed := int64(toInt(in["pseed"]))
	r := rand.New(rand.NewSource(seed))
	p := &xprinter{a: a, mode: mode, r: r}
	p.expr(root)
	p.plusify()
	text := render(p.out, r, mode == 2)
	e := Ev{"op": "names", "nodes": nodesAny(a), "root": root, "mode": mode, "pseed": seed, "text": text}
	toks := make([][]string, len(p.out))
	for i, t := range p.out {
		toks[i] = []string{t.kind, t.ktext}
	}
	e["toks"] = toks
	calc := calculator.NewExpressionCalculator() // auto-variables are on by default
	// pre-existing entries: some of the expression's variables (in another letter case) and an unrelated one
	ids := map[any]int{}
	idOf := func(o any) int {
		if x, ok := ids[o]; ok {
			return x
		}
		ids[o] = len(ids) + 1
		return ids[o]
	}
	snapshot := func() []any {
		out := []any{}
		for _, v := range calc.DefaultVariables().GetAll() {
			out = append(out, []any{v.Name(), nameKey(v.Name()), idOf(v)*1000 + idOf(v.Value())})
		}
		return out
	}
	keys := varKeysOf(a)
	// every third case starts from a collection with nothing in it (the state a new calculator is in)
	startEmpty := seed%3 == 0
	if !startEmpty {
		calc.DefaultVariables().Add(variables.NewVariable("Unrelated", variants.VariantFromInteger(5)))
	}
	for i, k := range keys {
		if !startEmpty && r.Intn(3) == 0 {
			nm := k
			if i%2 == 0 {
				nm = strings.ToUpper(k)
			}
			calc.DefaultVariables().Add(variables.NewVariable(nm, variants.VariantFromInteger(10+i)))
		}
	}
	e["before"] = snapshot()
	var err error
	oc, _ := guarded(func() { err = calc.SetExpression(text) })
	e["names"], e["after"], e["lexok"] = []any{}, e["before"], true
	switch {
	case oc != "ok":
		e["set"] = "panic"
		return e
	case err != nil:
		e["set"] = "error"
	default:
		e["set"] = "ok"
	}
	var seen [][]string
	for _, t := range calc.OriginalTokens() {
		k, tx := lexKind(t)
		if k == "" {
			continue
		}
		if k == "Constant" && tx == "#num" {
			tx = t.Value()
		}
		seen = append(seen, []string{k, tx})
	}
	lexok := len(seen) == len(p.out)
	for i := 0; lexok && i < len(p.out); i++ {
		lexok = seen[i][0] == p.out[i].kind && seen[i][1] == p.out[i].ktext
	}
	e["lexok"] = lexok
	if err != nil {
		return e
	}
	// the parser is not exposed by the calculator; a parser of its own reports the names of the same text
	names := []any{}
	cp := parsersNew()
	if perr := cp.ParseString(text); perr == nil {
		for _, n := range cp.VariableNames() {
			names = append(names, []any{n, nameKey(n)})
		}
	}
	e["names"] = names
	// a parser that parsed another expression before (and, every other time, was cleared since) reports the names of THIS one
	rp := parsersNew()
	guarded(func() { rp.ParseString("zq + zw * Max(zq2, 1)") })
	if len(text)%2 == 1 {
		guarded(func() { rp.Clear() })
	}
	var rerr error
	if oc3, _ := guarded(func() { rerr = rp.ParseString(text) }); oc3 == "ok" && rerr == nil {
		nr := []any{}
		for _, n := range rp.VariableNames() {
			nr = append(nr, []any{n, nameKey(n)})
		}
		e["names_reused"] = nr
	}
	e["after"] = snapshot()
	// CreateVariables on a collection of the caller's: it gets variables of its own (setting one leaves the default ones alone)
	guarded(func() {
		other := variables.NewVariableCollection()
		calc.CreateVariables(other)
		before := snapshot()
		for _, v := range other.GetAll() {
			v.SetValue(variants.VariantFromString("set through the other collection"))
		}
		if after := snapshot(); fmt.Sprint(after) != fmt.Sprint(before) {
			e["held_what"], e["held_then"], e["held_now"] = "default variables after values were set in a collection filled by CreateVariables", short(fmt.Sprint(before)), short(fmt.Sprint(after))
		}
		got := ""
		for _, v := range other.GetAll() {
			got += v.Name() + ","
		}
		want := ""
		for _, n := range calc.DefaultVariables().GetAll() {
			_ = n
		}
		_ = want
		e["created"] = got
	})
	// the automatic variables are separate objects: giving one of them a value in place leaves the others as they were
	if vs := calc.DefaultVariables().GetAll(); len(vs) >= 2 {
		rest := func() string {
			s := ""
			for _, v := range vs[:len(vs)-1] {
				s += fmt.Sprint(v.Name(), "=", v.Value().Type(), ":", v.Value().String(), ";")
			}
			return s
		}
		then := rest()
		last := vs[len(vs)-1] // (the automatic variables are at the end)
		saved := last.Value().Clone()
		guarded(func() { last.Value().SetAsString("set in place") })
		now := rest()
		guarded(func() { last.Value().Assign(saved) })
		if _, already := e["held_what"]; !already || then != now {
			e["held_what"], e["held_then"], e["held_now"] = "values of the other variables after one variable's value was changed in place", short(then), short(now)
		}
	}
	return e
}

func execMissing(in Ev) Ev {
	what := toStr(in["what"])
	text := toStr(in["text"])
	key := toStr(in["key"])
	how, _ := in["how"].(string)
	e := Ev{"op": "missing", "what": what, "text": text, "key": key, "named": false, "how": how}
	calc := calculator.NewExpressionCalculator()
	calc.SetAutoVariables(how == "empty") // "empty": the default collection knows the name, the supplied collection is empty
	var err error
	var res *variants.Variant
	oc, _ := guarded(func() {
		err = calc.SetExpression(text)
		if err != nil {
			return
		}
		vars := variables.NewVariableCollection()
		if how == "empty" {
			if what == "variable" {
				res, err = calc.EvaluateUsingVariables(vars)
			} else {
				for _, v := range calc.DefaultVariables().GetAll() {
					vars.Add(variables.NewVariable(v.Name(), variants.VariantFromInteger(2)))
				}
				res, err = calc.EvaluateUsingVariablesAndFunctions(vars, functions.NewFunctionCollection())
			}
			return
		}
		for _, k := range []string{"p", "q"} {
			if k != key {
				vars.Add(variables.NewVariable(strings.ToUpper(k), variants.VariantFromInteger(2)))
			}
		}
		res, err = calc.EvaluateUsingVariables(vars)
	})
	switch {
	case oc != "ok":
		e["outcome"] = "panic"
	case err != nil:
		e["outcome"] = "error"
		msg := strings.ToLower(err.Error())
		e["named"] = strings.Contains(msg, key)
		if how == "empty" && what == "variable" {
			// every variable of the expression is missing from the empty collection: the error names whichever is met first
			for _, n := range []string{" p ", " q "} {
				if strings.Contains(msg, n) {
					e["named"] = true
				}
			}
		}
	case res == nil:
		e["outcome"] = "nil"
	default:
		e["outcome"] = "value"
	}
	return e
}

func genC18(g *Gen) {
	r := g.Rand()
	switch g.Part {
	case "expr":
		n := g.Pick(4000, 60000)
		for i := 0; i < n; i++ {
			a := &xast{}
			xg := &xgen{a: a, r: r}
			root := xg.tree(1 + r.Intn(4))
			if len(a.nodes) > 40 {
				continue
			}
			g.Run("random trees (identifiers in every position, repeated in different case)",
				[]Ev{{"op": "names", "nodes": nodesAny(a), "root": root, "mode": r.Intn(3), "pseed": int(r.Int31())}})
		}
		// many distinct variables, the late ones occurring again (also in another letter case)
		for _, cnt := range []int{8, 31, 32, 33, 34, 35, 40, 64, 65, 70, 130} {
			if cnt > g.Pick(70, 130) {
				continue
			}
			for variant := 0; variant < 3; variant++ {
				a := &xast{}
				var root int
				addVar := func(nm string) {
					v := a.add(xnode{K: "var", Text: nm, Key: strings.ToUpper(nm)})
					if root == 0 {
						root = v
					} else {
						root = a.add(xnode{K: "bin", Op: "Plus", Kids: []int{root, v}})
					}
				}
				for i := 0; i < cnt; i++ {
					addVar(fmt.Sprintf("v%d", i))
				}
				for _, i := range []int{cnt - 1, 0, cnt - 2, 33, 32, cnt - 1} {
					if i >= 0 && i < cnt {
						switch variant {
						case 0:
							addVar(fmt.Sprintf("v%d", i))
						case 1:
							addVar(fmt.Sprintf("V%d", i))
						default:
							addVar(fmt.Sprintf("v%d", i))
							addVar(fmt.Sprintf("w%d", i))
						}
					}
				}
				g.Run("many distinct variables, late ones repeated", []Ev{{"op": "names", "nodes": nodesAny(a), "root": root, "mode": 0, "pseed": int(r.Int31())}})
			}
		}
		// two names that one case mapping identifies and the other does not (the collections compare in upper case)
		for _, pr := range [][2]string{{"temp\u212a", "tempk"}, {"ma\u00df", "MA\u1e9e"}, {"\u00e5x", "\u212bx"}, {"\u0131d", "id"}, {"\u017fum", "sum_"}, {"a\u0130", "ai"}, {"\u03c9", "\u2126"}, {"x\u00b5", "x\u03bc"}} {
			for variant := 0; variant < 3; variant++ {
				a := &xast{}
				v1 := a.add(xnode{K: "var", Text: pr[0], Key: strings.ToUpper(pr[0])})
				c2 := a.add(xnode{K: "const", Op: "int", Text: "2"})
				m := a.add(xnode{K: "bin", Op: "Star", Kids: []int{v1, c2}})
				v2 := a.add(xnode{K: "var", Text: pr[1], Key: strings.ToUpper(pr[1])})
				root := a.add(xnode{K: "bin", Op: "Plus", Kids: []int{m, v2}})
				if variant == 1 {
					v3 := a.add(xnode{K: "var", Text: pr[0], Key: strings.ToUpper(pr[0])})
					root = a.add(xnode{K: "bin", Op: "Minus", Kids: []int{root, v3}})
				}
				if variant == 2 {
					root = a.add(xnode{K: "bin", Op: "Plus", Kids: []int{v2, m}})
				}
				g.Run("names that only one case mapping identifies", []Ev{{"op": "names", "nodes": nodesAny(a), "root": root, "mode": 0, "pseed": int(r.Int31())}})
			}
		}
		// quoted identifiers made of other identifiers of the expression joined by a separator: a name of its own
		for _, sep := range []string{",", " ", ";", "|", "\n", ", ", "+"} {
			for variant := 0; variant < 3; variant++ {
				a := &xast{}
				names := []string{"low", "high", "low" + sep + "high"}
				if variant == 1 {
					names = []string{"high", "low", "mid", "low" + sep + "mid"} // (not adjacent in the order of discovery)
				}
				if variant == 2 {
					names = []string{"low" + sep + "high", "low", "high", "high" + sep + "low"}
				}
				root := a.add(xnode{K: "var", Text: names[0], Key: strings.ToUpper(names[0])})
				for _, nm := range names[1:] {
					v := a.add(xnode{K: "var", Text: nm, Key: strings.ToUpper(nm)})
					root = a.add(xnode{K: "bin", Op: "Plus", Kids: []int{root, v}})
				}
				g.Run("identifiers made of other identifiers joined by a separator", []Ev{{"op": "names", "nodes": nodesAny(a), "root": root, "mode": 0, "pseed": int(r.Int31())}})
			}
		}
		// identifiers that look like something else: function names, keywords inside quotes, quoted identifiers
		special := []string{"f(x) + F(y) + f", "'a' + a + \"a\"", "\"quoted id\" + 1", "NOT NOTx AND nota", "Min(Max(a, b), A)", "x IS NULL OR X IS NOT NULL",
			"a[b] + A[B]", "'x' IN xs", "TRUE AND true_ OR False_", "sum(1,2) + Sum", "a.b", "_a + _A + __"}
		_ = special
		for _, fnm := range []string{"Min", "sum", "ABS"} {
			g.Run("name known to the defaults, empty collection supplied", []Ev{{"op": "missing", "what": "function", "how": "empty", "key": strings.ToLower(fnm), "text": fnm + "(p, 2) + q"}})
		}
		for _, what := range []string{"variable", "function"} {
			for _, tpl := range []string{"%s + 1", "p * (%s - q)", "Q + Min(p, %s)", "NOT (%s = p)", "p[%s]", "%s"} {
				nms := []string{"zz", "Missing_1", "ÜBER", "x9", "rate%d", "100%", "%s%v", "a b"}
				if what == "variable" {
					// a variable that is missing stays missing although a default FUNCTION of that name exists
					nms = append(nms, "Pi", "e", "min", "NOW", "Rnd", "abs")
				}
				for _, nm := range nms {
					name := nm
					if strings.ContainsAny(nm, "% ") || (nm[0] >= '0' && nm[0] <= '9') {
						name = "\"" + nm + "\"" // such a name can only be written as a quoted identifier
					}
					if what == "function" {
						name = name + "(p)"
					}
					g.Run("one unresolved "+what, []Ev{{"op": "missing", "what": what, "key": strings.ToLower(nm), "text": fmt.Sprintf(tpl, name)}})
					if what == "variable" {
						g.Run("name known to the defaults, empty collection supplied", []Ev{{"op": "missing", "what": what, "how": "empty", "key": strings.ToLower(nm), "text": fmt.Sprintf(tpl, name)}})
					}
				}
			}
		}
	case "coll":
		names := []string{"a", "A", "b", "Name_1", "NAME_1"}
		mk := func(op string, x int) Ev {
			switch op {
			case "add":
				return Ev{"op": op, "name": names[x%len(names)], "isnull": x%2 == 0}
			case "remove", "get", "addagain":
				return Ev{"op": op, "index": x % 4}
			case "clear", "clearvalues", "length":
				return Ev{"op": op}
			}
			return Ev{"op": op, "name": names[x%len(names)]}
		}
		ops := []string{"add", "find", "findindex", "locate", "remove", "removebyname", "clear", "clearvalues", "setvalue", "length", "get", "addagain"}
		// exhaustive: all sequences of 3 (quick) / 4 (thorough) state-changing operations over {a, A, b}, each followed by lookups
		var steps []Ev
		for _, nm := range []string{"a", "A", "b"} {
			steps = append(steps, Ev{"op": "add", "name": nm, "isnull": false}, Ev{"op": "locate", "name": nm}, Ev{"op": "removebyname", "name": nm})
		}
		steps = append(steps, Ev{"op": "remove", "index": 0}, Ev{"op": "remove", "index": 1}, Ev{"op": "clear"}, Ev{"op": "clearvalues"}, Ev{"op": "addagain", "index": 0})
		depth := g.Pick(3, 4)
		for _, kind := range []string{"variables", "functions"} {
			idx := make([]int, depth)
			for {
				seg := []Ev{{"op": "new", "kind": kind}}
				for _, i := range idx {
					seg = append(seg, cloneEv(steps[i]), Ev{"op": "findindex", "name": "A"}, Ev{"op": "find", "name": "b"})
				}
				g.Run(fmt.Sprintf("all sequences of %d operations: %s", depth, kind), seg)
				j := depth - 1
				for j >= 0 {
					idx[j]++
					if idx[j] < len(steps) {
						break
					}
					idx[j] = 0
					j--
				}
				if j < 0 {
					break
				}
			}
		}
		n := g.Pick(1500, 30000)
		for i := 0; i < n; i++ {
			seg := []Ev{{"op": "new", "kind": []string{"variables", "functions"}[r.Intn(2)]}}
			for k := 3 + r.Intn(35); k > 0; k-- {
				seg = append(seg, mk(ops[r.Intn(len(ops))], r.Intn(1000)))
			}
			g.Run("random operation sequences", seg)
		}
		// names whose upper-case form has another length in bytes or is an ASCII letter; many entries
		odd := []string{"\u2c65b", "\u023aB", "\u0131x", "Ix", "ix", "\u017ft", "ST", "st", "\u212aelvin", "kelvin", "Kelvin", "stra\u00dfe", "STRASSE", "\u00ff", "\u0178"}
		names = odd
		for i := 0; i < g.Pick(800, 8000); i++ {
			seg := []Ev{{"op": "new", "kind": []string{"variables", "functions"}[r.Intn(2)]}}
			for k := 3 + r.Intn(25); k > 0; k-- {
				seg = append(seg, mk([]string{"add", "add", "find", "findindex", "locate", "removebyname", "setvalue", "length"}[r.Intn(8)], r.Intn(1000)))
			}
			g.Run("names with unusual case mappings", seg)
		}
		// names that differ only in characters which are no letters (pairs that a bit trick folds together: ^ ~, [ {, ] }, @ `, _ DEL, \ |,
		// digits and the characters 16 places below), names containing separators (comma, blank, dot, colon)
		pairs := []string{"total^", "total~", "x[", "x{", "x]", "x}", "@v", "`v", "a_b", "a\x7fb", "p\\", "p|", "n1", "n!", "n0", "n ", "low,high", "low", "high", "a.b", "a:b", "a b", "ab"}
		names = pairs
		for i := 0; i < g.Pick(800, 8000); i++ {
			seg := []Ev{{"op": "new", "kind": []string{"variables", "functions"}[r.Intn(2)]}}
			for k := 3 + r.Intn(25); k > 0; k-- {
				seg = append(seg, mk([]string{"add", "add", "find", "findindex", "locate", "removebyname", "setvalue", "length"}[r.Intn(8)], r.Intn(1000)))
			}
			g.Run("names that differ only in characters that are no letters", seg)
		}
		for _, kind := range []string{"variables", "functions"} {
			for i := 0; i+1 < len(pairs); i += 2 {
				a, b := pairs[i], pairs[i+1]
				g.Run("names that differ only in characters that are no letters", []Ev{{"op": "new", "kind": kind}, {"op": "add", "name": a, "isnull": false}, {"op": "find", "name": b}, {"op": "findindex", "name": b},
					{"op": "locate", "name": b}, {"op": "add", "name": b, "isnull": false}, {"op": "find", "name": b}, {"op": "find", "name": a}, {"op": "removebyname", "name": b}, {"op": "find", "name": a}, {"op": "length"}})
			}
		}
		for _, kind := range []string{"variables", "functions"} {
			for _, nm := range odd {
				g.Run("names with unusual case mappings", []Ev{{"op": "new", "kind": kind}, {"op": "add", "name": "first", "isnull": false}, {"op": "add", "name": nm, "isnull": false},
					{"op": "find", "name": nm}, {"op": "findindex", "name": strings.ToUpper(nm)}, {"op": "locate", "name": strings.ToLower(nm)}, {"op": "removebyname", "name": nm}, {"op": "length"}})
			}
			for _, cnt := range []int{33, 65, 130, 300} {
				if cnt > g.Pick(130, 300) {
					continue
				}
				seg := []Ev{{"op": "new", "kind": kind}}
				for i := 0; i < cnt; i++ {
					seg = append(seg, Ev{"op": "add", "name": fmt.Sprintf("n%d", i), "isnull": i%2 == 0})
				}
				for _, i := range []int{0, 31, 32, 33, 63, 64, cnt - 1} {
					if i < cnt {
						seg = append(seg, Ev{"op": "find", "name": fmt.Sprintf("N%d", i)}, Ev{"op": "findindex", "name": fmt.Sprintf("n%d", i)}, Ev{"op": "get", "index": i})
					}
				}
				seg = append(seg, Ev{"op": "removebyname", "name": fmt.Sprintf("N%d", cnt-1)}, Ev{"op": "remove", "index": 32}, Ev{"op": "length"}, Ev{"op": "find", "name": "n33"}, Ev{"op": "clear"}, Ev{"op": "length"})
				g.Run("many entries", seg)
			}
		}
	case "tmpl":
		mg := &mgen{r: r}
		// templates without any variable: the empty template, literal text only, a comment only
		for _, lx := range [][]mlex{{}, {{"text", "just text"}}, {{"text", "x"}}, {{"{{", "{{"}, {"!", "!"}, {"word", "c"}, {"}}", "}}"}}} {
			g.Run("templates without variables", []Ev{{"op": "tmpl", "lex": lexAny(lx), "vars": []any{}, "wellformed": true, "caseseed": 1, "predef": []any{}}})
		}
		n := g.Pick(3000, 50000)
		for i := 0; i < n; i++ {
			var ns []*mnode
			for k := 1 + r.Intn(5); k > 0; k-- {
				ns = append(ns, mg.node(1+r.Intn(4)))
			}
			var lx []mlex
			mg.print(ns, &lx)
			lx = fixTexts(lx)
			var predef []any
			for _, nm := range mNames {
				switch r.Intn(6) {
				case 0:
					predef = append(predef, []any{cps(strings.ToUpper(nm)), cps("")})
				case 1:
					predef = append(predef, []any{cps(strings.ToLower(nm)), cps("v")})
				}
			}
			if predef == nil || i%2 == 0 {
				predef = []any{}
			}
			g.Run("random well-formed templates (names, if/unless words, repeated in different case)",
				[]Ev{{"op": "tmpl", "lex": lexAny(lx), "vars": []any{}, "wellformed": true, "caseseed": 1, "predef": predef}})
		}
	default:
		panic("C18: -part expr|coll|tmpl required")
	}
}

func parsersNew() *cparsers.ExpressionParser { return cparsers.NewExpressionParser() }
