package main

import (
	"encoding/json"
	"fmt"
	"strings"
	"time"

	calctok "github.com/pip-services3-gox/pip-services3-expressions-gox/calculator/tokenizers"
	"github.com/pip-services3-gox/pip-services3-expressions-gox/csv"
	sio "github.com/pip-services3-gox/pip-services3-expressions-gox/io"
	musttok "github.com/pip-services3-gox/pip-services3-expressions-gox/mustache/tokenizers"
	"github.com/pip-services3-gox/pip-services3-expressions-gox/tokenizers"
	"github.com/pip-services3-gox/pip-services3-expressions-gox/tokenizers/generic"
)

var tokKinds = []string{"generic", "expression", "csv", "mustache", "generic-custom", "generic-arrows", "csv-wide", "generic-quotes", "generic-unknownsym", "generic-quotedsym", "expression-custom", "generic-2quotes", "generic-interned"}

var optNames = []string{"skipUnknown", "skipWhitespaces", "skipComments", "skipEof", "mergeWhitespaces", "unifyNumbers", "decodeStrings"}

func newTokenizer(kind string) tokenizers.ITokenizer {
	switch kind {
	case "generic":
		return generic.NewGenericTokenizer()
	case "generic-custom":
		// the generic tokenizer with user-registered symbols whose proper prefixes are not all symbols
		t := generic.NewGenericTokenizer()
		t.SymbolState().Add("=:=", tokenizers.Symbol)
		t.SymbolState().Add("<!--", tokenizers.Symbol)
		t.SymbolState().Add("!>>>", tokenizers.Keyword)
		t.SymbolState().Add("<![CDATA[", tokenizers.Symbol)
		t.SymbolState().Add("===========", tokenizers.Symbol)
		return t
	case "generic-arrows":
		// a narrower interval registered over the default word interval of the non-Latin range
		t := generic.NewGenericTokenizer()
		t.SetCharacterState(0x2190, 0x21ff, t.SymbolState())
		t.SetCharacterState(0x3000, 0x3000, t.WhitespaceState())
		// white space beyond ASCII: the no-break space, the em space and the ideographic space are white space of this tokenizer
		t.SetCharacterState(0xa0, 0xa0, t.WhitespaceState())
		t.SetCharacterState(0x2003, 0x2003, t.WhitespaceState())
		if ws, ok := t.WhitespaceState().(*generic.GenericWhitespaceState); ok {
			ws.SetWhitespaceChars(0x3000, 0x3000, true)
			ws.SetWhitespaceChars(0xa0, 0xa0, true)
			ws.SetWhitespaceChars(0x2003, 0x2003, true)
		}
		return t
	case "generic-quotes":
		// non-ASCII quote characters handed to the quote state
		t := generic.NewGenericTokenizer()
		t.SetCharacterState(0xab, 0xab, t.QuoteState())
		t.SetCharacterState(0x201c, 0x201c, t.QuoteState())
		return t
	case "generic-2quotes":
		// a second quote state of another type serves one more quote character
		t := generic.NewGenericTokenizer()
		t.SetCharacterState('`', '`', calctok.NewExpressionQuoteState())
		return t
	case "generic-interned":
		// a caller-written whitespace state that hands out one shared token object for a line feed
		t := generic.NewGenericTokenizer()
		ws := &internedWS{inner: generic.NewGenericWhitespaceState(), lf: tokenizers.NewToken(tokenizers.Whitespace, "\n", 0, 0)}
		t.SetWhitespaceState(ws)
		t.SetCharacterState(0, ' ', ws)
		return t
	case "generic-quotedsym":
		// registered symbols that carry the Quoted type (and begin and end with the same character): they are symbols, no quote
		// state has read them
		t := generic.NewGenericTokenizer()
		t.SymbolState().Add("``", tokenizers.Quoted)
		t.SymbolState().Add("|x|", tokenizers.Quoted)
		t.SymbolState().Add("!!", tokenizers.Quoted)
		t.SymbolState().Add("||", tokenizers.Word)
		return t
	case "generic-unknownsym":
		// registered symbols that a state itself delivers with the Unknown type
		t := generic.NewGenericTokenizer()
		t.SymbolState().Add("?", tokenizers.Unknown)
		t.SymbolState().Add("?!", tokenizers.Unknown)
		return t
	case "csv-wide":
		t := csv.NewCsvTokenizer()
		t.SetFieldSeparators([]rune{0xff1b})
		t.SetQuoteSymbols([]rune{0xab, '"'})
		return t
	case "expression-custom":
		// the expression tokenizer with user-registered symbols, two of them starting with the sign
		t := calctok.NewExpressionTokenizer()
		t.SymbolState().Add("->", tokenizers.Symbol)
		t.SymbolState().Add("=>", tokenizers.Symbol)
		t.SymbolState().Add("--", tokenizers.Symbol)
		t.SymbolState().Add("-=", tokenizers.Symbol)
		t.SymbolState().Add("..", tokenizers.Special)
		return t
	case "expression":
		return calctok.NewExpressionTokenizer()
	case "csv":
		return csv.NewCsvTokenizer()
	case "mustache":
		return musttok.NewMustacheTokenizer()
	}
	panic("unknown tokenizer kind " + kind)
}

// setOpts sets all seven options explicitly (bit i = optNames[i]).
func setOpts(t tokenizers.ITokenizer, bits int) {
	t.SetSkipUnknown(bits&1 != 0)
	t.SetSkipWhitespaces(bits&2 != 0)
	t.SetSkipComments(bits&4 != 0)
	t.SetSkipEof(bits&8 != 0)
	t.SetMergeWhitespaces(bits&16 != 0)
	t.SetUnifyNumbers(bits&32 != 0)
	t.SetDecodeStrings(bits&64 != 0)
}

// setOptsRev: the same options set in the opposite order of calls
func setOptsRev(t tokenizers.ITokenizer, bits int) {
	t.SetDecodeStrings(bits&64 != 0)
	t.SetUnifyNumbers(bits&32 != 0)
	t.SetMergeWhitespaces(bits&16 != 0)
	t.SetSkipEof(bits&8 != 0)
	t.SetSkipComments(bits&4 != 0)
	t.SetSkipWhitespaces(bits&2 != 0)
	t.SetSkipUnknown(bits&1 != 0)
}

func optList(bits int) []string {
	out := []string{}
	for i, n := range optNames {
		if bits&(1<<uint(i)) != 0 {
			out = append(out, n)
		}
	}
	return out
}

func optBits(v any) int {
	bits := 0
	for _, x := range toList(v) {
		for i, n := range optNames {
			if n == toStr(x) {
				bits |= 1 << uint(i)
			}
		}
	}
	return bits
}

func tokJSON(toks []*tokenizers.Token) [][]any {
	out := make([][]any, 0, len(toks))
	for _, t := range toks {
		if t == nil {
			out = append(out, []any{-1, []int{}, 0, 0})
			continue
		}
		out = append(out, []any{t.Type(), cps(t.Value()), t.Line(), t.Column()})
	}
	return out
}

var hangs = 0

// guarded runs f with recover and a watchdog. outcome: ok | panic | hang.
func guarded(f func()) (outcome string, detail string) {
	if hangs >= 3 {
		return "aborted", "not executed: 3 calls already hang in this process"
	}
	done := make(chan [2]string, 1)
	go func() {
		defer func() {
			if r := recover(); r != nil {
				done <- [2]string{"panic", fmt.Sprint(r)}
			}
		}()
		f()
		done <- [2]string{"ok", ""}
	}()
	tm := time.NewTimer(3 * time.Second)
	defer tm.Stop()
	select {
	case r := <-done:
		return r[0], r[1]
	case <-tm.C:
		hangs++
		return "hang", "no return within 3s"
	}
}

// tokenize runs a fresh tokenizer of the kind under the option bits over the input.
func tokenize(kind string, bits int, input string) (toks [][]any, outcome, detail string) {
	var res []*tokenizers.Token
	outcome, detail = guarded(func() {
		t := newTokenizer(kind)
		tokenizeCount++
		switch tokenizeCount % 3 {
		case 0:
			setOpts(t, bits)
		case 1:
			setOptsRev(t, bits)
		default: // everything on first, then what is not wanted off again (in the reverse order)
			setOpts(t, 127)
			setOptsRev(t, bits)
		}
		res = t.TokenizeBuffer(input)
	})
	if outcome != "ok" {
		return [][]any{}, outcome, detail
	}
	return tokJSON(res), outcome, detail
}

// exec of a "tok" event: base stream (options off) and stream under opts
func execTok(seg []Ev) []Ev {
	out := make([]Ev, 0, len(seg))
	for _, in := range seg {
		kind := toStr(in["kind"])
		input := string(toRunes(in["input"]))
		bits := optBits(in["opts"])
		e := Ev{"op": "tok", "kind": kind, "opts": optList(bits), "input": cps(input)}
		base, oc, det := tokenize(kind, 0, input)
		if pf, ok := in["prefix"]; ok {
			// a stream handed over in the middle: the caller has read the prefix (a heading, say) from the scanner itself; the
			// tokens are those of what is left of the stream
			prefix := string(toRunes(pf))
			e["prefix"] = cps(prefix)
			e["strings"] = toBool(in["strings"])
			var res []*tokenizers.Token
			oc, det = guarded(func() {
				sc := sio.NewStringScanner(prefix + input)
				for range []rune(prefix) {
					sc.Read()
				}
				t := newTokenizer(kind)
				setOpts(t, 0)
				if toBool(in["strings"]) {
					// the ...ToStrings entry point gives the values of the same tokens
					vals := t.TokenizeStreamToStrings(sc)
					for _, v := range vals {
						res = append(res, tokenizers.NewToken(tokenizers.Unknown, v, 0, 0))
					}
					if n := len(res); n > 0 && res[n-1].Value() == "" {
						res[n-1] = tokenizers.NewToken(tokenizers.Eof, "", 0, 0)
					}
				} else {
					res = t.TokenizeStream(sc)
				}
			})
			base = [][]any{}
			if oc == "ok" {
				base = tokJSON(res)
			}
		}
		e["base"] = base
		e["outcome_base"] = oc
		if oc == "ok" && bits != 0 {
			var o2 [][]any
			o2, oc, det = tokenize(kind, bits, input)
			e["out"] = o2
		} else {
			e["out"] = base
		}
		e["outcome"] = oc
		if det != "" {
			e["detail"] = det
		}
		if oc == "aborted" {
			continue // never recorded: the case was not executed
		}
		tokCount++
		if oc == "ok" && len(input) < 6000 && (tokCount%6 == 0 || len(input) >= 60) {
			tokAfterglow(e, kind, bits, input)
		}
		out = append(out, e)
	}
	return out
}

type internedWS struct {
	inner *generic.GenericWhitespaceState
	lf    *tokenizers.Token
}

func (s *internedWS) NextToken(scanner sio.IScanner, tokenizer tokenizers.ITokenizer) *tokenizers.Token {
	if scanner.Peek() == '\n' {
		scanner.Read()
		return s.lf
	}
	return s.inner.NextToken(scanner, tokenizer)
}
func (s *internedWS) SetWhitespaceChars(from, to rune, enable bool) {
	s.inner.SetWhitespaceChars(from, to, enable)
}
func (s *internedWS) ClearWhitespaceChars() { s.inner.ClearWhitespaceChars() }

var tokenizeCount = 0
var tokCount = 0

func tokRender(ts []*tokenizers.Token) string {
	b, _ := json.Marshal(tokJSON(ts))
	return string(b)
}

// tokAfterglow: (1) the list a tokenizer returned stays what it was when the same tokenizer tokenizes another text;
// (2) a tokenizer that ran with options and has them switched off again yields the option-free stream of a new one;
// (3) across cases: the list and the tokenizer of this case are looked at again after the next case (hold).
func tokAfterglow(e Ev, kind string, bits int, input string) {
	bad := func(what, then, now string) {
		if _, dup := e["held_what"]; !dup {
			e["held_what"], e["held_then"], e["held_now"] = what, short(then), short(now)
		}
	}
	guarded(func() {
		tb := newTokenizer(kind)
		setOpts(tb, 0)
		base := tb.TokenizeBuffer(input)
		then := tokRender(base)
		tb.TokenizeBuffer("zz 9,<= 'q' {{x}}\n" + input + " tail")
		if now := tokRender(base); now != then {
			bad("token list after the same tokenizer tokenized another text", then, now)
		}
		to := newTokenizer(kind)
		setOpts(to, bits|16|64)
		withOpts := to.TokenizeBuffer(input)
		thenOpts := tokRender(withOpts)
		setOpts(to, 0)
		again := to.TokenizeBuffer(input)
		if now := tokRender(again); now != then {
			bad("option-free stream of a tokenizer that ran the same text with options before", then, now)
		}
		if now := tokRender(withOpts); now != thenOpts {
			bad("token list under options after the same tokenizer ran again", thenOpts, now)
		}
		// the entry points that return strings give the values of the tokens the other entry points return
		vals := make([]string, len(base))
		for i, tk := range base {
			vals[i] = tk.Value()
		}
		ts := newTokenizer(kind)
		setOpts(ts, 0)
		if s1, s2 := ts.TokenizeBufferToStrings(input), ts.TokenizeStreamToStrings(sio.NewStringScanner(input)); fmt.Sprint(s1) != fmt.Sprint(vals) || fmt.Sprint(s2) != fmt.Sprint(vals) {
			bad("values returned by TokenizeBufferToStrings / TokenizeStreamToStrings (then: values of the tokens)", fmt.Sprint(vals), fmt.Sprint(s1)+" / "+fmt.Sprint(s2))
		}
		hold("token list and tokenizer of the previous case ("+kind+")", func() string { return tokRender(base) + tokRender(tb.TokenizeBuffer(input)) })
	})
}

// alphabets of significant characters per tokenizer (every class that selects a different state)
var tokAlpha = map[string][]rune{
	"generic":            {'a', '1', '.', '-', '"', '\'', '<', '=', '>', '#', ' ', '\n', '_', 0xe9, 0x416, 0x1F600},
	"expression":         {'a', '1', '.', '-', '/', '*', '\'', '"', '<', '>', '=', '!', 'e', '+', ' ', '\n', 0x416, 0x1F600},
	"csv":                {'a', ',', '"', '\r', '\n', ';', ' ', 0x416, 0x1F600},
	"mustache":           {'a', '{', '}', '#', '/', '"', ' ', '\n', '^', 0x416, 0x1F600},
	"generic-custom":     {'a', '=', ':', '<', '!', '-', '>', '1', ' '},
	"generic-arrows":     {'a', 0x2192, 0x2190, 0x3000, 0x416, 0x21ff, 0x2200, ' ', '\'', '1', 0xa0, 0x2003},
	"csv-wide":           {'a', 0xff1b, 0xab, '"', '\r', '\n', 0x416, ',', 0x65e5},
	"generic-quotes":     {'a', 0xab, 0x201c, '\'', '"', ' ', 0x416, '1', '\n'},
	"generic-unknownsym": {'a', '?', '!', ' ', '1', '<', 0xffff, '#', '\n'},
	"generic-quotedsym":  {'a', '`', '|', 'x', '!', ' ', '\'', '1', '#'},
	"expression-custom":  {'a', '1', '-', '>', '=', '.', '<', ' ', '\''},
	"generic-2quotes":    {'a', '`', '\'', '"', ' ', '1', '\n'},
	"generic-interned":   {'a', ' ', '\n', '\r', '1', '#'},
}

// the most significant subset (push-back paths) for deeper exhaustive enumeration
var tokAlphaCore = map[string][]rune{
	"generic":            {'a', '1', '.', '-', '\'', '<', '=', ' '},
	"expression":         {'1', '.', '-', '/', '*', 'e', '<', '\''},
	"csv":                {'a', ',', '"', '\r', '\n'},
	"mustache":           {'a', '{', '}', '#', ' ', '"'},
	"generic-custom":     {'=', ':', '<', '!', '-', '>'},
	"generic-arrows":     {'a', 0x2192, 0x3000, 0x416, ' ', 0xa0, 0x2003},
	"csv-wide":           {'a', 0xff1b, 0xab, '\r', 0x416},
	"generic-quotes":     {'a', 0xab, 0x201c, '\'', ' '},
	"generic-unknownsym": {'a', '?', '!', ' ', 0xffff},
	"generic-quotedsym":  {'a', '`', '|', 'x', '!', '\''},
	"expression-custom":  {'a', '1', '-', '>', '='},
	"generic-2quotes":    {'a', '`', '\'', ' '},
	"generic-interned":   {'a', ' ', '\n', '\r'},
}

var tokSnippets = map[string][]string{
	"generic":            {"a1 <= b-c # rest\nx", "-.5 . - 'q' \"r\" <> >= 12.5.6", "x-1 -x .a a. 1.", "пример 'стр' -", "'unterminated", "a\r\nb\n\rc\rd"},
	"expression":         {"a + b*2 - f(x, 'it''s') /* c */ <= 3.5e-2", "1e 1e+ 1.e5 .5 . - / /* open", "NOT x IS NULL and \"q\"\"r\" != 2 >> 1", "a/b /**/ c/", "x<>y<=z>=w<<1", "'abc\n'\r\n1", "a i\u017f null or x l\u0131ke 'y' and b li\u212ae c", "fal\u017fe x\uffffy <\u013d \u013c"},
	"csv":                {"a,b,c\r\n1,\"x,y\",3\n", "\"a\"\"b\",,\r,\n\r\"", "a;b\rc\n\nd\"", "\"unterminated,\r\n", "поле,\"знач\"\"ение\"\n"},
	"generic-custom":     {"a=:=b=:c=d", "<!-- x --> <!- <! !>>> !>> !>", "=:=:=:<!--!>>>", "x<![CDATA[y]]> <![CDAT <![CDATA =========== ============ =========="},
	"generic-arrows":     {"страна a → b\u3000x→→y ←", "日本\u3000語 → 'q→' 12", "a\u00a0b \u2003\u3000\u00a0 c\u2003"},
	"csv-wide":           {"日本；語；«q；»»r«\r\nстрана；\"x\"\"y\"；；\n", "a,b；c\r«open；"},
	"generic-quotes":     {"a «b c« “d“ 'e' \"f\" «open", "x«« ““y «'« “\"“"},
	"generic-unknownsym": {"a ? b ?! c !? <= ?", "??!?\uffff?# c\n?"},
	"generic-quotedsym":  {"a `` b |x| c !! 'q' || d", "``|x|!!`|x||x|!'``'"},
	"expression-custom":  {"a->b => c-- -= -1 - 2 --3 ->> =>= <=> a-b", "x-->y -=- 1e-5 -.5 ->"},
	"generic-2quotes":    {"a `b``c` 'd' \"e\" `open", "`` ```` `'` '`' x"},
	"generic-interned":   {"a\nb \n c\n\nd \r\n e", "\n x # c\n\n"},
	"mustache":           {"Hello, {{Name}}!", "{{#if A}}x{{/if}}{{^B}}y{{/B}}", "{{{raw}}} {{! c }} {{ a b }} {", "{{ 'q' \"r\" }}} }} {{", "a{b{{c}d}}e}}}", "{{#a}}\n{{/a}}\r\n"},
}

// rareRunes: code points that only matter to a specific comparison, table index or case mapping: the ends of every range the
// tokenizers configure, characters whose low byte or low 16 bits alias an ASCII character, letters whose upper/lower case has
// another UTF-8 length or is an ASCII letter, Unicode spaces and digits outside ASCII, the replacement character, astral planes.
var rareRunes = []rune{0x0000, 0x0001, 0x001f, 0x007f, 0x0080, 0x0085, 0x00a0, 0x00bf, 0x00c0, 0x00df, 0x00ff, 0x0100, 0x0101, 0x010a, 0x010d, 0x0120, 0x0122, 0x0127, 0x012c,
	0x0130, 0x0131, 0x013c, 0x013d, 0x013e, 0x0141, 0x017b, 0x017f, 0x01c5, 0x023a, 0x030a, 0x0345, 0x03a3, 0x03c2, 0x040a, 0x043c, 0x043d, 0x043e, 0x0660, 0x0663, 0x0969,
	0x1e9e, 0x200b, 0x200d, 0x2028, 0x2029, 0x212a, 0x212b, 0x2c65, 0x3000, 0xd7ff, 0xe000, 0xfeff, 0xff0a, 0xff13, 0xff1d, 0xff22, 0xfffd, 0xfffe, 0xffff,
	0x10000, 0x10041, 0x1003c, 0x2000b, 0x1f60a, 0x1f600, 0x10ffff}

// rareContexts: %s is replaced by the rare character
var rareContexts = []string{"%s", "a%s", "%sa", "a%sb", "1%s", "1%s2", "1e%s", "-%s", ".%s", "1.%s", "<%s", ">%s", "!%s", "=%s", "\r%s", "\n%s\n", "'%s'", "'a%sb' c", "\"%s\"", "a %s b",
	"/*%s*/", "{{%s}}", "{{#%s}}x{{/%s}}", "a{{ %s }}b", "1,%s,2", "\"%s\",x", "%s%s", "a%s%sb", "# %s\nx", "%s1", "%s'q'", "%s<=", " %s "}

func rareInputs() [][]rune {
	var out [][]rune
	for _, c := range rareRunes {
		for _, ctx := range rareContexts {
			out = append(out, []rune(strings.ReplaceAll(ctx, "%s", string(c))))
		}
	}
	return out
}

// guardedLong: like guarded for a call that legitimately runs long (no watchdog)
func guardedLong(f func()) (outcome string, detail string) {
	defer func() {
		if r := recover(); r != nil {
			outcome, detail = "panic", fmt.Sprint(r)
		}
	}()
	f()
	return "ok", ""
}
