package main

import (
	"fmt"
	"time"

	calctok "github.com/pip-services3-gox/pip-services3-expressions-gox/calculator/tokenizers"
	"github.com/pip-services3-gox/pip-services3-expressions-gox/csv"
	musttok "github.com/pip-services3-gox/pip-services3-expressions-gox/mustache/tokenizers"
	"github.com/pip-services3-gox/pip-services3-expressions-gox/tokenizers"
	"github.com/pip-services3-gox/pip-services3-expressions-gox/tokenizers/generic"
)

var tokKinds = []string{"generic", "expression", "csv", "mustache", "generic-custom"}

var optNames = []string{"skipUnknown", "skipWhitespaces", "skipComments", "skipEof", "mergeWhitespaces", "unifyNumbers", "decodeStrings"}

func newTokenizer(kind string) tokenizers.ITokenizer {
	switch kind {
	case "generic":
		return generic.NewGenericTokenizer()
	case "generic-custom":
		// the generic tokenizer with user-registered symbols whose proper prefixes are not all symbols
		t := generic.NewGenericTokenizer()
		t.SymbolState().Add("=:=", tokenizers.Symbol)
		t.SymbolState().Add("<!--", tokenizers.Symbol)
		t.SymbolState().Add("!>>>", tokenizers.Keyword)
		return t
	case "expression":
		return calctok.NewExpressionTokenizer()
	case "csv":
		return csv.NewCsvTokenizer()
	case "mustache":
		return musttok.NewMustacheTokenizer()
	}
	panic("unknown tokenizer kind " + kind)
}

// setOpts sets all seven options explicitly (bit i = optNames[i]).
func setOpts(t tokenizers.ITokenizer, bits int) {
	t.SetSkipUnknown(bits&1 != 0)
	t.SetSkipWhitespaces(bits&2 != 0)
	t.SetSkipComments(bits&4 != 0)
	t.SetSkipEof(bits&8 != 0)
	t.SetMergeWhitespaces(bits&16 != 0)
	t.SetUnifyNumbers(bits&32 != 0)
	t.SetDecodeStrings(bits&64 != 0)
}

func optList(bits int) []string {
	out := []string{}
	for i, n := range optNames {
		if bits&(1<<uint(i)) != 0 {
			out = append(out, n)
		}
	}
	return out
}

func optBits(v any) int {
	bits := 0
	for _, x := range toList(v) {
		for i, n := range optNames {
			if n == toStr(x) {
				bits |= 1 << uint(i)
			}
		}
	}
	return bits
}

func tokJSON(toks []*tokenizers.Token) [][]any {
	out := make([][]any, 0, len(toks))
	for _, t := range toks {
		if t == nil {
			out = append(out, []any{-1, []int{}, 0, 0})
			continue
		}
		out = append(out, []any{t.Type(), cps(t.Value()), t.Line(), t.Column()})
	}
	return out
}

var hangs = 0

// guarded runs f with recover and a watchdog. outcome: ok | panic | hang.
func guarded(f func()) (outcome string, detail string) {
	if hangs >= 3 {
		return "aborted", "not executed: 3 calls already hang in this process"
	}
	done := make(chan [2]string, 1)
	go func() {
		defer func() {
			if r := recover(); r != nil {
				done <- [2]string{"panic", fmt.Sprint(r)}
			}
		}()
		f()
		done <- [2]string{"ok", ""}
	}()
	tm := time.NewTimer(3 * time.Second)
	defer tm.Stop()
	select {
	case r := <-done:
		return r[0], r[1]
	case <-tm.C:
		hangs++
		return "hang", "no return within 3s"
	}
}

// tokenize runs a fresh tokenizer of the kind under the option bits over the input.
func tokenize(kind string, bits int, input string) (toks [][]any, outcome, detail string) {
	var res []*tokenizers.Token
	outcome, detail = guarded(func() {
		t := newTokenizer(kind)
		setOpts(t, bits)
		res = t.TokenizeBuffer(input)
	})
	if outcome != "ok" {
		return [][]any{}, outcome, detail
	}
	return tokJSON(res), outcome, detail
}

// exec of a "tok" event: base stream (options off) and stream under opts
func execTok(seg []Ev) []Ev {
	out := make([]Ev, 0, len(seg))
	for _, in := range seg {
		kind := toStr(in["kind"])
		input := string(toRunes(in["input"]))
		bits := optBits(in["opts"])
		e := Ev{"op": "tok", "kind": kind, "opts": optList(bits), "input": cps(input)}
		base, oc, det := tokenize(kind, 0, input)
		e["base"] = base
		e["outcome_base"] = oc
		if oc == "ok" && bits != 0 {
			var o2 [][]any
			o2, oc, det = tokenize(kind, bits, input)
			e["out"] = o2
		} else {
			e["out"] = base
		}
		e["outcome"] = oc
		if det != "" {
			e["detail"] = det
		}
		if oc == "aborted" {
			continue // never recorded: the case was not executed
		}
		out = append(out, e)
	}
	return out
}

// alphabets of significant characters per tokenizer (every class that selects a different state)
var tokAlpha = map[string][]rune{
	"generic":    {'a', '1', '.', '-', '"', '\'', '<', '=', '>', '#', ' ', '\n', '_', 0xe9, 0x416, 0x1F600},
	"expression": {'a', '1', '.', '-', '/', '*', '\'', '"', '<', '>', '=', '!', 'e', '+', ' ', '\n', 0x416, 0x1F600},
	"csv":        {'a', ',', '"', '\r', '\n', ';', ' ', 0x416, 0x1F600},
	"mustache":   {'a', '{', '}', '#', '/', '"', ' ', '\n', '^', 0x416, 0x1F600},
	"generic-custom": {'a', '=', ':', '<', '!', '-', '>', '1', ' '},
}

// the most significant subset (push-back paths) for deeper exhaustive enumeration
var tokAlphaCore = map[string][]rune{
	"generic":    {'a', '1', '.', '-', '\'', '<', '=', ' '},
	"expression": {'1', '.', '-', '/', '*', 'e', '<', '\''},
	"csv":        {'a', ',', '"', '\r', '\n'},
	"mustache":   {'a', '{', '}', '#', ' ', '"'},
	"generic-custom": {'=', ':', '<', '!', '-', '>'},
}

var tokSnippets = map[string][]string{
	"generic":    {"a1 <= b-c # rest\nx", "-.5 . - 'q' \"r\" <> >= 12.5.6", "x-1 -x .a a. 1.", "пример 'стр' -", "'unterminated", "a\r\nb\n\rc\rd"},
	"expression": {"a + b*2 - f(x, 'it''s') /* c */ <= 3.5e-2", "1e 1e+ 1.e5 .5 . - / /* open", "NOT x IS NULL and \"q\"\"r\" != 2 >> 1", "a/b /**/ c/", "x<>y<=z>=w<<1", "'abc\n'\r\n1"},
	"csv":        {"a,b,c\r\n1,\"x,y\",3\n", "\"a\"\"b\",,\r,\n\r\"", "a;b\rc\n\nd\"", "\"unterminated,\r\n", "поле,\"знач\"\"ение\"\n"},
	"generic-custom": {"a=:=b=:c=d", "<!-- x --> <!- <! !>>> !>> !>", "=:=:=:<!--!>>>"},
	"mustache":   {"Hello, {{Name}}!", "{{#if A}}x{{/if}}{{^B}}y{{/B}}", "{{{raw}}} {{! c }} {{ a b }} {", "{{ 'q' \"r\" }}} }} {{", "a{b{{c}d}}e}}}", "{{#a}}\n{{/a}}\r\n"},
}
