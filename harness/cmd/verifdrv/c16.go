package main

import (
	"fmt"
	calctok "github.com/pip-services3-gox/pip-services3-expressions-gox/calculator/tokenizers"
	"github.com/pip-services3-gox/pip-services3-expressions-gox/csv"
	"github.com/pip-services3-gox/pip-services3-expressions-gox/tokenizers"
	"sort"
	"strings"

	sio "github.com/pip-services3-gox/pip-services3-expressions-gox/io"
	"github.com/pip-services3-gox/pip-services3-expressions-gox/tokenizers/generic"
)

// C16: symbol tables return the longest registered symbol with its own type.
func init() {
	props["C16"] = &Prop{
		Generate: genC16,
		Exec:     execC16,
		Rule: "segment = one symbol state: registrations in some order, then several inputs tokenized to the end one after " +
			"the other on the same instance; non-trivial = distinct (registration list) with >= 2 symbols sharing a first character",
		NonTrivial: func(seg []Ev) string {
			first := map[int]int{}
			key := ""
			for _, e := range seg {
				if e["op"] == "add" {
					s := e["sym"].([]int)
					first[s[0]]++
					key += fmt.Sprint(s, e["type"], "|")
				}
			}
			for _, n := range first {
				if n >= 2 {
					return key
				}
			}
			return ""
		},
	}
}

func execC16(seg []Ev) []Ev {
	var st tokenizers.ISymbolState
	var sc *sio.StringScanner
	var via tokenizers.ITokenizer // when set: tokens are read through this tokenizer (its other states hand '-', '.', '/' over to the symbol state)
	out := make([]Ev, 0, len(seg))
	for _, in := range seg {
		e := Ev{"op": in["op"]}
		switch toStr(in["op"]) {
		case "new":
			via = nil
			if k, ok := in["kind"]; ok && toStr(k) == "csv" {
				// the CSV symbol state: the four line ends registered at construction
				st = csv.NewCsvSymbolState()
				e["kind"] = "csv"
				e["preset"] = []any{[]any{cps("\n"), tokenizers.Eol}, []any{cps("\r"), tokenizers.Eol}, []any{cps("\r\n"), tokenizers.Eol}, []any{cps("\n\r"), tokenizers.Eol}}
			} else if ok && toStr(k) == "viatokenizer" {
				// a generic tokenizer with a C++-style comment state on '/': its number and comment states meet '-', '.', '/' first
				gt := generic.NewGenericTokenizer()
				gt.SetCharacterState('/', '/', generic.NewCppCommentState())
				setOpts(gt, 0)
				st, via = gt.SymbolState(), gt
				e["kind"] = "viatokenizer"
				e["preset"] = []any{[]any{cps("<>"), tokenizers.Symbol}, []any{cps("<="), tokenizers.Symbol}, []any{cps(">="), tokenizers.Symbol}}
			} else if ok && toStr(k) == "expression" {
				// the expression tokenizer's symbol state: the same machinery with six symbols registered at construction
				st = calctok.NewExpressionSymbolState()
				e["kind"] = "expression"
				e["preset"] = []any{[]any{cps("<>"), tokenizers.Symbol}, []any{cps("<="), tokenizers.Symbol}, []any{cps(">="), tokenizers.Symbol},
					[]any{cps("!="), tokenizers.Symbol}, []any{cps(">>"), tokenizers.Symbol}, []any{cps("<<"), tokenizers.Symbol}}
			} else {
				st = generic.NewGenericSymbolState()
			}
			sc = sio.NewStringScanner("")
		case "addbytes": // a symbol given as bytes that are not well-formed UTF-8: its characters are those the host's conversion yields
			bs := toList(in["bytes"])
			b := make([]byte, len(bs))
			for j, x := range bs {
				b[j] = byte(toInt(x))
			}
			t := toInt(in["type"])
			e["op"], e["bytes"], e["frombytes"] = "add", bs, true
			e["sym"], e["type"] = cpsR([]rune(string(b))), t
			st.Add(string(b), t)
		case "add":
			s := toRunes(in["sym"])
			t := toInt(in["type"])
			e["sym"], e["type"] = cpsR(s), t
			st.Add(string(s), t)
		case "scan":
			r := toRunes(in["input"])
			e["input"] = cpsR(r)
			sc = sio.NewStringScanner(string(r))
			if via != nil {
				via.SetReader(sc)
			}
		case "next":
			var tok *tokenizers.Token
			if via != nil {
				tok = via.NextToken()
				if tok == nil {
					tok = tokenizers.NewToken(-1, "", 0, 0)
				}
			} else {
				tok = st.NextToken(sc, nil)
			}
			e["obs"] = Ev{"type": tok.Type(), "text": cps(tok.Value()), "k": sc.VerifCursor()}
		}
		out = append(out, e)
	}
	return out
}

// c16segment builds: new, adds, then for each input: scan + one next per token (the number of next
// events is decided by running the real code: next is repeated until the scanner reaches the end).
func c16run(g *Gen, gen string, syms [][]rune, types []int, inputs [][]rune) {
	st := generic.NewGenericSymbolState()
	seg := []Ev{{"op": "new"}}
	for i, s := range syms {
		seg = append(seg, Ev{"op": "add", "sym": cpsR(s), "type": types[i]})
		st.Add(string(s), types[i])
	}
	for _, in := range inputs {
		if len(in) == 0 {
			continue
		}
		seg = append(seg, Ev{"op": "scan", "input": cpsR(in)})
		sc := sio.NewStringScanner(string(in))
		guard := 0
		for sc.Peek() != -1 && guard < len(in)+2 {
			st.NextToken(sc, nil)
			seg = append(seg, Ev{"op": "next"})
			guard++
		}
	}
	g.Run(gen, seg)
}

func genC16(g *Gen) {
	// symbols handed over as bytes that are not well-formed UTF-8 (Latin-1 text, say): the symbol is the characters the host's
	// conversion yields for those bytes - the ones a scanner delivers for the same bytes in an input
	for _, bs := range [][]int{{0xa7}, {0x61, 0xff}, {0xe9, 0xe9}, {0xc3}, {0x3c, 0xa7, 0x3e}} {
		for _, input := range []string{"\ufffd\u00a7a\ufffdb", "a\ufffd\ufffd\u00e9<\ufffd>", "\u00a7\u00e9\u00c3<\u00a7>"} {
			seg := []Ev{{"op": "new"}, {"op": "addbytes", "bytes": toAnyList2(bs), "type": 105}, {"op": "add", "sym": cps("<="), "type": 106}, {"op": "scan", "input": cps(input)}}
			for i := 0; i <= len([]rune(input)); i++ {
				seg = append(seg, Ev{"op": "next"})
			}
			g.Run("symbols given as bytes that are not well-formed UTF-8", seg)
		}
	}
	// universe: strings of length 1..3 over {a,b}
	var uni [][]rune
	allStrings([]rune{'a', 'b'}, 3, func(s []rune) {
		if len(s) > 0 {
			uni = append(uni, s)
		}
	})
	sort.Slice(uni, func(i, j int) bool { return string(uni[i]) < string(uni[j]) })
	typeOf := func(s []rune) int {
		c := 0
		for _, r := range s {
			c = 3*c + int(r-96)
		}
		return 100 + c
	}
	var inputs3, inputs4 [][]rune
	allStrings([]rune{'a', 'b', 'c'}, 4, func(s []rune) {
		if len(s) > 0 && len(s) <= 3 {
			inputs3 = append(inputs3, s)
		}
		if len(s) > 0 {
			inputs4 = append(inputs4, s)
		}
	})
	r := g.Rand()
	shuffled := func(in [][]rune) [][]rune {
		o := append([][]rune{}, in...)
		r.Shuffle(len(o), func(i, j int) { o[i], o[j] = o[j], o[i] })
		return o
	}
	inputs := inputs3
	if g.Thorough() {
		inputs = inputs4
	}
	run := func(gen string, set [][]rune) {
		types := make([]int, len(set))
		for i, s := range set {
			types[i] = typeOf(s)
		}
		c16run(g, gen, set, types, shuffled(inputs))
	}
	// all sets of <= 2 (quick) / <= 3 (thorough) symbols in every registration order
	n := len(uni)
	for i := 0; i < n; i++ {
		run("sets<=k all orders", [][]rune{uni[i]})
		for j := 0; j < n; j++ {
			if j == i {
				continue
			}
			run("sets<=k all orders", [][]rune{uni[i], uni[j]})
			if g.Thorough() {
				for k := 0; k < n; k++ {
					if k != i && k != j {
						run("sets<=k all orders", [][]rune{uni[i], uni[j], uni[k]})
					}
				}
			}
		}
	}
	// random larger sets in random order (thorough: also every one of the 16384 subsets once)
	m := g.Pick(250, 3000)
	for x := 0; x < m; x++ {
		sz := 3 + r.Intn(10)
		perm := r.Perm(n)[:sz]
		set := make([][]rune, sz)
		for i, p := range perm {
			set[i] = uni[p]
		}
		run("random sets", set)
	}
	if g.Thorough() {
		for mask := 1; mask < 1<<uint(n); mask++ {
			var set [][]rune
			for i := 0; i < n; i++ {
				if mask&(1<<uint(i)) != 0 {
					set = append(set, uni[i])
				}
			}
			r.Shuffle(len(set), func(i, j int) { set[i], set[j] = set[j], set[i] })
			types := make([]int, len(set))
			for i, s := range set {
				types[i] = typeOf(s)
			}
			c16run(g, "all 16384 subsets, random order", set, types, shuffled(inputs3)[:20])
		}
	}
	// every ordered pair of symbols: register the first, read every input, register the second, read every input again
	for i := 0; i < n; i++ {
		for j := 0; j < n; j++ {
			if i == j {
				continue
			}
			st := generic.NewGenericSymbolState()
			seg := []Ev{{"op": "new"}}
			for _, s := range [][]rune{uni[i], uni[j]} {
				seg = append(seg, Ev{"op": "add", "sym": cpsR(s), "type": typeOf(s)})
				st.Add(string(s), typeOf(s))
				for _, in := range inputs3 {
					seg = append(seg, Ev{"op": "scan", "input": cpsR(in)})
					sc := sio.NewStringScanner(string(in))
					for guard := 0; sc.Peek() != -1 && guard < len(in)+2; guard++ {
						st.NextToken(sc, nil)
						seg = append(seg, Ev{"op": "next"})
					}
				}
			}
			g.Run("ordered pairs of registrations with reads in between", seg)
		}
	}
	// a long symbol first, then one of its proper prefixes, reads before and after (nodes deep in the tree whose ancestors become symbols later)
	var ab4 [][]rune
	allStrings([]rune{'a', 'b'}, 4, func(s []rune) {
		if len(s) > 0 {
			ab4 = append(ab4, s)
		}
	})
	for _, long := range ab4 {
		if len(long) != 4 {
			continue
		}
		for pl := 1; pl <= 3; pl++ {
			for _, first := range []bool{true, false} {
				st := generic.NewGenericSymbolState()
				seg := []Ev{{"op": "new"}}
				order := [][]rune{long, long[:pl]}
				if !first {
					order = [][]rune{long[:pl], long}
				}
				for _, s := range order {
					ty := 200 + len(s)
					seg = append(seg, Ev{"op": "add", "sym": cpsR(s), "type": ty})
					st.Add(string(s), ty)
					for _, in := range ab4 {
						seg = append(seg, Ev{"op": "scan", "input": cpsR(in)})
						sc := sio.NewStringScanner(string(in))
						for guard := 0; sc.Peek() != -1 && guard < len(in)+2; guard++ {
							st.NextToken(sc, nil)
							seg = append(seg, Ev{"op": "next"})
						}
					}
				}
				g.Run("a long symbol and one of its prefixes, reads in between", seg)
			}
		}
	}
	// registration interleaved with reading (a table that is extended after it has been used)
	m3 := g.Pick(400, 6000)
	for x := 0; x < m3; x++ {
		st := generic.NewGenericSymbolState()
		seg := []Ev{{"op": "new"}}
		perm := r.Perm(n)[:2+r.Intn(6)]
		for _, pi := range perm {
			s := uni[pi]
			seg = append(seg, Ev{"op": "add", "sym": cpsR(s), "type": typeOf(s)})
			st.Add(string(s), typeOf(s))
			for y := 0; y < 1+r.Intn(3); y++ {
				in := inputs4[r.Intn(len(inputs4))]
				seg = append(seg, Ev{"op": "scan", "input": cpsR(in)})
				sc := sio.NewStringScanner(string(in))
				for guard := 0; sc.Peek() != -1 && guard < len(in)+2; guard++ {
					st.NextToken(sc, nil)
					seg = append(seg, Ev{"op": "next"})
				}
			}
		}
		g.Run("registration interleaved with reading", seg)
	}
	// many siblings under one node, very long symbols, hundreds of registrations between two reads of the same input
	{
		type reg struct {
			s []rune
			t int
		}
		// number of tokens a longest-match reading of the input yields under the registrations made so far
		count := func(regs []reg, in []rune) int {
			n := 0
			for i := 0; i < len(in); n++ {
				best := 1
				for _, rg := range regs {
					if len(rg.s) > best && i+len(rg.s) <= len(in) && string(in[i:i+len(rg.s)]) == string(rg.s) {
						best = len(rg.s)
					}
				}
				i += best
			}
			return n
		}
		emit := func(gen string, steps []any) {
			seg := []Ev{{"op": "new"}}
			var regs []reg
			for _, st := range steps {
				switch x := st.(type) {
				case reg:
					regs = append(regs, x)
					seg = append(seg, Ev{"op": "add", "sym": cpsR(x.s), "type": x.t})
				case []rune:
					seg = append(seg, Ev{"op": "scan", "input": cpsR(x)})
					for k := count(regs, x); k > 0; k-- {
						seg = append(seg, Ev{"op": "next"})
					}
				}
			}
			g.Run(gen, seg)
		}
		firsts := []rune("abcdefghijklmnopqrstuvwxyz0123456789@$%&*+-/<=>?^_~|")
		for _, nsib := range []int{15, 16, 17, 18, 33, 50} {
			for _, parent := range []string{"", "<", "ab"} {
				var steps []any
				for i := 0; i < nsib; i++ {
					steps = append(steps, reg{[]rune(parent + string(firsts[i])), 100 + i})
				}
				probe := []rune(parent + "a=" + parent + string(firsts[nsib-1]) + "=" + parent + "b" + parent + "a=x")
				steps = append(steps, probe)
				// extend and re-type symbols that start with the early and the late siblings
				steps = append(steps, reg{[]rune(parent + "a="), 200}, reg{[]rune(parent + string(firsts[nsib-1]) + "="), 201}, reg{[]rune(parent + "b"), 202}, probe,
					reg{[]rune(parent + "a=x"), 203}, reg{[]rune(parent + string(firsts[nsib/2]) + "!!"), 204}, probe, []rune(parent+string(firsts[nsib/2])+"!!"+parent+string(firsts[nsib/2])+"!"))
				emit("many siblings under one node", steps)
			}
		}
		// the CSV symbol state with further line-end symbols; symbols starting with '-', '.', '/' read through a tokenizer
		emit2 := func(gen, kind string, steps []any) {
			seg := []Ev{{"op": "new", "kind": kind}}
			var regs []reg
			switch kind {
			case "csv":
				regs = []reg{{[]rune("\n"), 2}, {[]rune("\r"), 2}, {[]rune("\r\n"), 2}, {[]rune("\n\r"), 2}}
			case "viatokenizer":
				regs = []reg{{[]rune("<>"), 7}, {[]rune("<="), 7}, {[]rune(">="), 7}}
			}
			for _, st := range steps {
				switch x := st.(type) {
				case reg:
					regs = append(regs, x)
					seg = append(seg, Ev{"op": "add", "sym": cpsR(x.s), "type": x.t})
				case []rune:
					seg = append(seg, Ev{"op": "scan", "input": cpsR(x)})
					for k := count(regs, x); k > 0; k-- {
						seg = append(seg, Ev{"op": "next"})
					}
				}
			}
			g.Run(gen, seg)
		}
		emit2("the CSV symbol state with further symbols", "csv", []any{[]rune("\r\n\r\n\n\n\r\r\n\r"), reg{[]rune("\r\n\r\n"), 13}, reg{[]rune("\n\n"), 12}, []rune("\r\n\r\n\n\n\r\n\r\r\n"),
			reg{[]rune("\n"), 10}, reg{[]rune("\r\r"), 7}, []rune("\n\r\r\n\n\n\n\r\n\r\n;\r")})
		emit2("symbols met first by the number and comment states", "viatokenizer", []any{[]rune("->-=..-./=/>"), reg{[]rune("->"), 10}, reg{[]rune(".."), 13}, reg{[]rune("/="), 10}, reg{[]rune("-."), 12},
			[]rune("->-=..-./=/>-..->"), reg{[]rune("/"), 10}, reg{[]rune("-"), 12}, reg{[]rune("."), 13}, reg{[]rune("-=>"), 9}, []rune("/-.->-=>-=/=.."), reg{[]rune("-->"), 8}, []rune("-->--->..->")})
		// symbols that contain U+0000; token types far outside the built-in range
		emit("unusual symbol characters and type codes", []any{reg{[]rune("<\x00>"), 0x10001}, reg{[]rune("\x00\x00"), 70000}, reg{[]rune("a\x00"), -5}, []rune("<\x00><\x00x\x00\x00\x00a\x00a"),
			reg{[]rune("<\x00"), 1 << 40}, []rune("<\x00><\x00x<"), reg{[]rune("=="), 32768}, reg{[]rune("="), 65536}, []rune("===")})
		// instances of the expression symbol state: what one registers the next one does not have
		for rep := 0; rep < 3; rep++ {
			seg := []Ev{{"op": "new", "kind": "expression"}, {"op": "scan", "input": cps("=><=")}, {"op": "next"}, {"op": "next"}, {"op": "next"},
				{"op": "add", "sym": cps("=>"), "type": 300}, {"op": "add", "sym": cps("<=>"), "type": 301}, {"op": "scan", "input": cps("=><=>")}, {"op": "next"}, {"op": "next"},
				{"op": "new", "kind": "expression"}, {"op": "scan", "input": cps("=><=>!=")}, {"op": "next"}, {"op": "next"}, {"op": "next"}, {"op": "next"}, {"op": "next"},
				{"op": "new"}, {"op": "scan", "input": cps("=><=")}, {"op": "next"}, {"op": "next"}, {"op": "next"}, {"op": "next"}}
			g.Run("instances of the expression symbol state", seg)
		}
		for _, sym := range []string{"<", "<=", "<=>", "ab", "é="} {
			probe := []rune(sym + " " + sym + "x<=>=" + sym)
			emit("the same symbol registered again", []any{reg{[]rune("<"), 10}, reg{[]rune(sym), 700}, probe, reg{[]rune(sym), 701}, probe, reg{[]rune(sym + "!"), 702}, reg{[]rune(sym), 703}, probe,
				append(append([]rune{}, probe...), []rune(sym+"!"+sym)...)})
		}
		wide := []rune{0x416, 0x2192, 0x10c, 0x13d, 0x3d, 0xff1d, 0x1f600, 0x43d}
		var ws []any
		for i, c := range wide {
			ws = append(ws, reg{[]rune{'<', c}, 300 + i})
		}
		ws = append(ws, []rune("<Ж<→<Č<Ľ<=<＝<😀<н<x"), reg{[]rune("<Ľ="), 320}, []rune("<Ľ=<Ľ<=<н="))
		emit("many siblings under one node", ws)
		for _, ln := range []int{64, 127, 128, 129, 130, 150, 256, 257, 300} {
			if ln > g.Pick(200, 400) {
				continue
			}
			long := []rune(strings.Repeat("<=>!", 80))[:ln]
			in := append(append(append([]rune{}, long...), long[:ln-10]...), 'x')
			emit("very long symbols", []any{reg{long, 400}, in, reg{long[:ln-10], 401}, in, reg{append(append([]rune{}, long...), '#'), 402}, append(append([]rune{}, in...), append(long, '#')...)})
		}
		for _, between := range []int{200, 254, 255, 256, 257, 258, 511, 512, 513, 1024} {
			if between > g.Pick(300, 1100) {
				continue
			}
			for _, lateIdx := range []int{0, between / 2, between - 1} {
				steps := []any{reg{[]rune("#"), 500}, []rune("@@ @# @")}
				for i := 0; i < between; i++ {
					if i == lateIdx {
						steps = append(steps, reg{[]rune("@@"), 501})
					} else {
						steps = append(steps, reg{[]rune{'q', rune(0x4e00 + i)}, 600 + i%7})
					}
				}
				steps = append(steps, []rune("@@ @# @"), reg{[]rune("@#"), 502}, []rune("@@ @# @"))
				emit("hundreds of registrations between two reads", steps)
			}
		}
	}
	// larger alphabet, longer symbols, types shared/reused, non-ASCII
	alpha := []rune{'<', '>', '=', '!', '{', '}', 0xe9, 0x416, '\n', '\r'}
	m2 := g.Pick(150, 2000)
	for x := 0; x < m2; x++ {
		cnt := 1 + r.Intn(8)
		seen := map[string]bool{}
		var set [][]rune
		var types []int
		for len(set) < cnt {
			ln := 1 + r.Intn(4)
			s := make([]rune, ln)
			for i := range s {
				s[i] = alpha[r.Intn(4+r.Intn(len(alpha)-3))]
			}
			if seen[string(s)] {
				continue
			}
			seen[string(s)] = true
			set = append(set, s)
			types = append(types, []int{7, 2, 13, 101, 102}[r.Intn(5)])
		}
		var ins [][]rune
		for y := 0; y < 12; y++ {
			ln := 1 + r.Intn(8)
			s := make([]rune, ln)
			for i := range s {
				s[i] = alpha[r.Intn(len(alpha))]
			}
			ins = append(ins, s)
		}
		c16run(g, "random symbols over a wider alphabet", set, types, ins)
	}
}

func toAnyList2(xs []int) []any {
	out := make([]any, len(xs))
	for i, x := range xs {
		out[i] = x
	}
	return out
}
