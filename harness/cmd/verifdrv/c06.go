package main

import (
	"fmt"
	"math"
	"strconv"
	"time"

	"github.com/pip-services3-gox/pip-services3-expressions-gox/variants"
)

// C06: variant operators implement the arithmetic of the first operand's type.

// valJSON renders a variant as the value record of VariantOps.tla.
func valJSON(v *variants.Variant) Ev {
	if v == nil {
		return Ev{"t": "nil", "s": "", "c": []int{}, "k": "none", "n": 0, "u": "", "w": false, "z": false}
	}
	e := Ev{"t": vtypeNames[v.Type()], "k": "none", "n": 0, "u": "", "w": false}
	small := func(x int64) bool { return x >= -(1<<20) && x <= (1<<20) }
	e["z"] = false
	frac := func(f float64) {
		if f == 0 {
			e["z"] = math.Signbit(f) // the sign of a zero, kept apart: -0 and 0 are the same value but not the same result of an operator
			f = 0
		}
		e["s"] = strconv.FormatFloat(f, 'g', -1, 64)
		if !math.IsNaN(f) && !math.IsInf(f, 0) && math.Abs(f) < (1<<20) && f*8 == math.Trunc(f*8) {
			e["k"], e["n"] = "frac", int(f*8)
		}
	}
	switch v.Type() {
	case variants.Null:
		e["s"] = "null"
	case variants.Integer:
		x := int64(v.AsInteger())
		e["s"] = strconv.FormatInt(x, 10)
		if small(x) {
			e["k"], e["n"] = "int", int(x)
		}
	case variants.Long:
		x := v.AsLong()
		e["s"] = strconv.FormatInt(x, 10)
		if small(x) {
			e["k"], e["n"] = "int", int(x)
		}
	case variants.Float:
		frac(float64(v.AsFloat()))
	case variants.Double:
		frac(v.AsDouble())
	case variants.String:
		e["s"] = string([]byte(v.AsString())) // copied now: the text may share storage that later calls overwrite
		e["k"] = "str"
	case variants.Boolean:
		e["s"] = fmt.Sprint(v.AsBoolean())
		e["k"] = "bool"
		if v.AsBoolean() {
			e["n"] = 1
		}
	case variants.TimeSpan:
		d := v.AsTimeSpan()
		e["s"] = strconv.FormatInt(int64(d), 10) + "ns"
		if d%time.Millisecond == 0 {
			e["w"] = true
			e["u"] = strconv.FormatInt(int64(d/time.Millisecond), 10)
		}
		if d%time.Millisecond == 0 && small(int64(d/time.Millisecond)) {
			e["k"], e["n"] = "int", int(d/time.Millisecond)
		}
	case variants.DateTime:
		t := v.AsDateTime()
		e["s"] = strconv.FormatInt(t.Unix(), 10) + "s+" + strconv.Itoa(t.Nanosecond())
		e["u"] = strconv.FormatInt(t.Unix(), 10)
		e["w"] = t.Nanosecond() == 0
		if t.Nanosecond() == 0 && small(t.Unix()) {
			e["k"], e["n"] = "int", int(t.Unix())
		}
	case variants.Array:
		e["s"] = fmt.Sprintf("array(%d)", v.Length())
	default:
		e["s"] = fmt.Sprintf("%T", v.AsObject())
	}
	var txt string
	if oc, _ := guarded(func() { txt = v.String() }); oc != "ok" {
		txt = "?"
	}
	if v.Type() == variants.Array || v.Type() == variants.Object {
		txt = "?"
	}
	e["c"] = cps(txt)
	return e
}

type c06obj struct{ a int }

type c06tagged struct {
	Name string
	Tags []string
}

func valuePool(full bool) []*variants.Variant {
	arr := variants.VariantFromArray([]*variants.Variant{variants.VariantFromInteger(1), variants.VariantFromString("abc"), variants.VariantFromInteger(2)})
	obj := variants.VariantFromObject(&c06obj{1})
	t := func(s int64) *variants.Variant { return variants.VariantFromDateTime(time.Unix(s, 0).UTC()) }
	d := func(x time.Duration) *variants.Variant { return variants.VariantFromTimeSpan(x) }
	pool := []*variants.Variant{
		variants.EmptyVariant(),
		variants.VariantFromInteger(0), variants.VariantFromInteger(7), variants.VariantFromInteger(-8), variants.VariantFromInteger(3),
		variants.VariantFromLong(0), variants.VariantFromLong(5), variants.VariantFromLong(-2),
		variants.VariantFromFloat(1.5), variants.VariantFromFloat(-2.25), variants.VariantFromFloat(0),
		variants.VariantFromDouble(2.5), variants.VariantFromDouble(-0.5), variants.VariantFromDouble(4), variants.VariantFromDouble(0),
		variants.VariantFromString("abc"), variants.VariantFromString("3"), variants.VariantFromString(""), variants.VariantFromString("é"),
		variants.VariantFromBoolean(true), variants.VariantFromBoolean(false),
		d(1500 * time.Millisecond), d(-2 * time.Second), d(0),
		t(0), t(100), t(86400),
		obj, arr,
	}
	if c06extraSeed != 0 {
		rr := newRand(c06extraSeed)
		for i := 0; i < 36; i++ {
			switch i % 6 {
			case 0:
				pool = append(pool, variants.VariantFromInteger(rr.Intn(4001)-2000))
			case 1:
				pool = append(pool, variants.VariantFromLong(int64(rr.Intn(2000001)-1000000)))
			case 2:
				pool = append(pool, variants.VariantFromDouble(float64(rr.Intn(16001)-8000)/8))
			case 3:
				pool = append(pool, variants.VariantFromFloat(float32(rr.Intn(1601)-800)/4))
			case 4:
				pool = append(pool, d(time.Duration(rr.Intn(20001)-10000)*time.Millisecond))
			default:
				pool = append(pool, variants.VariantFromString(fmt.Sprint(rr.Intn(2001)-1000)))
			}
		}
	}
	if full {
		pool = append(pool,
			variants.VariantFromInteger(1), variants.VariantFromInteger(-1), variants.VariantFromInteger(2), variants.VariantFromInteger(100), variants.VariantFromInteger(4096),
			variants.VariantFromInteger(math.MaxInt64), variants.VariantFromInteger(math.MinInt64), variants.VariantFromInteger(math.MaxInt32), variants.VariantFromInteger(-65),
			variants.VariantFromLong(1), variants.VariantFromLong(-1), variants.VariantFromLong(64), variants.VariantFromLong(math.MaxInt64), variants.VariantFromLong(math.MinInt64), variants.VariantFromLong(1<<53),
			variants.VariantFromFloat(0.125), variants.VariantFromFloat(3), variants.VariantFromFloat(math.MaxFloat32), variants.VariantFromFloat(float32(math.Inf(1))), variants.VariantFromFloat(float32(math.NaN())), variants.VariantFromFloat(0.1),
			variants.VariantFromDouble(1e300), variants.VariantFromDouble(math.Inf(1)), variants.VariantFromDouble(math.Inf(-1)), variants.VariantFromDouble(math.NaN()), variants.VariantFromDouble(0.1), variants.VariantFromDouble(-3),
			variants.VariantFromString("-2"), variants.VariantFromString("2.5"), variants.VariantFromString("true"), variants.VariantFromString("abd"), variants.VariantFromString("ab"),
			d(time.Hour), d(time.Nanosecond), d(-1500*time.Millisecond),
			t(1700000000), t(-5),
			variants.VariantFromArray([]*variants.Variant{}), variants.VariantFromObject(map[string]int{"a": 1}),
			// host values whose type is uncomparable only through a component (a struct with a slice field, an array of slices, a
			// struct holding a function), twice each with equal contents
			variants.VariantFromObject(c06tagged{"s1", []string{"x"}}), variants.VariantFromObject(c06tagged{"s1", []string{"x"}}),
			variants.VariantFromObject([1][]int{{1}}), variants.VariantFromObject([1][]int{{1}}),
			variants.VariantFromObject(struct{ F func() }{nil}), variants.VariantFromObject(struct{ M map[string]int }{map[string]int{"a": 1}}),
			variants.VariantFromInteger(64), variants.VariantFromInteger(10), variants.VariantFromLong(19), variants.VariantFromInteger(-3), variants.VariantFromLong(41), variants.VariantFromLong(2),
			// the same instants in other zones, instants with nanoseconds
			variants.VariantFromDateTime(time.Unix(86400, 0).In(time.FixedZone("east", 10800))), variants.VariantFromDateTime(time.Unix(100, 0).In(time.FixedZone("west", -34200))),
			variants.VariantFromDateTime(time.Unix(100, 500).UTC()), variants.VariantFromDateTime(time.Unix(100, 0).Local()),
		)
	}
	return pool
}

var c06pool []*variants.Variant
var c06extraSeed int64 // thorough tier: seeded random values are appended to the boundary pool

func c06mgr(name string) variants.IVariantOperations {
	if name == "safe" {
		return variants.NewTypeSafeVariantOperations()
	}
	return variants.NewTypeUnsafeVariantOperations()
}

func binCall(m variants.IVariantOperations, name string, a, b *variants.Variant) (*variants.Variant, error) {
	switch name {
	case "Add":
		return m.Add(a, b)
	case "Sub":
		return m.Sub(a, b)
	case "Mul":
		return m.Mul(a, b)
	case "Div":
		return m.Div(a, b)
	case "Mod":
		return m.Mod(a, b)
	case "Pow":
		return m.Pow(a, b)
	case "And":
		return m.And(a, b)
	case "Or":
		return m.Or(a, b)
	case "Xor":
		return m.Xor(a, b)
	case "Lsh":
		return m.Lsh(a, b)
	case "Rsh":
		return m.Rsh(a, b)
	case "Equal":
		return m.Equal(a, b)
	case "NotEqual":
		return m.NotEqual(a, b)
	case "More":
		return m.More(a, b)
	case "Less":
		return m.Less(a, b)
	case "MoreEqual":
		return m.MoreEqual(a, b)
	case "LessEqual":
		return m.LessEqual(a, b)
	case "In":
		return m.In(a, b)
	case "GetElement":
		return m.GetElement(a, b)
	}
	panic("binCall " + name)
}

var binNames = []string{"Add", "Sub", "Mul", "Div", "Mod", "Pow", "And", "Or", "Xor", "Lsh", "Rsh", "Equal", "NotEqual", "More", "Less", "MoreEqual", "LessEqual"}

// call runs f guarded and classifies the outcome
func opOutcome(f func() (*variants.Variant, error)) (string, *variants.Variant, string) {
	var r *variants.Variant
	var err error
	oc, det := guarded(func() { r, err = f() })
	switch {
	case oc != "ok":
		return "panic", nil, det
	case err != nil && r != nil:
		return "both", r, ""
	case err != nil:
		return "error", nil, err.Error()
	case r == nil:
		return "nil", nil, ""
	}
	return "value", r, ""
}

func truth(oc string, r *variants.Variant) string {
	switch {
	case oc == "value" && r.Type() == variants.Boolean:
		return fmt.Sprint(r.AsBoolean())
	case oc == "value" && r.Type() == variants.Null:
		return "null"
	case oc == "value":
		return "other"
	}
	if oc == "both" || oc == "nil" {
		return "error"
	}
	return oc
}

func poolOf(full bool) []*variants.Variant {
	if c06pool == nil || full {
		c06pool = valuePool(full)
	}
	return c06pool
}

var strBytes string

func execC06(seg []Ev) []Ev {
	out := make([]Ev, 0, len(seg))
	// state of a history segment ("bstep" events): one long-lived manager, two reusable operand objects, results kept
	var hm variants.IVariantOperations
	ha, hb := variants.EmptyVariant(), variants.EmptyVariant()
	kp := &keeper{}
	for _, in := range seg {
		full := toBool(in["full"])
		if v, ok := in["xseed"]; ok {
			c06extraSeed = int64(toInt(v))
		}
		pool := valuePool(full) // fresh objects for every event: operators must not depend on earlier calls
		wide := false
		if w, ok := in["wide"]; ok && toBool(w) {
			wide = true
			pool = widePool()
		}
		op := toStr(in["op"])
		mgr := toStr(in["mgr"])
		m := c06mgr(mgr)
		e := Ev{"op": op, "mgr": mgr, "full": full, "xseed": int(c06extraSeed), "wide": wide}
		get := func(k string) *variants.Variant {
			i := toInt(in[k])
			e[k+"i"] = i
			return pool[i%len(pool)]
		}
		// inputs are given as indexes ai, bi into the value pool
		in2 := Ev{}
		for k, v := range in {
			in2[k] = v
		}
		in = in2
		a := pool[toInt(in["ai"])%len(pool)]
		e["ai"] = toInt(in["ai"])
		var b *variants.Variant
		if _, ok := in["bi"]; ok {
			b = pool[toInt(in["bi"])%len(pool)]
			e["bi"] = toInt(in["bi"])
			e["b"] = valJSON(b)
		}
		e["a"] = valJSON(a)
		_ = get
		nilv := valJSON(nil)
		switch op {
		case "bstep":
			// the operator on a long-lived manager, operands optionally held in objects that are re-assigned in place from step to step
			if hm == nil {
				hm = c06mgr(mgr)
			}
			name, ipa, ipb := toStr(in["name"]), toBool(in["ipa"]), toBool(in["ipb"])
			x, y := a, b
			if ipa {
				guarded(func() { ha.Assign(a) })
				x = ha
			}
			if ipb {
				guarded(func() { hb.Assign(b) })
				y = hb
			}
			oc, r, _ := opOutcome(func() (*variants.Variant, error) { return binCall(hm, name, x, y) })
			fp := valuePool(full)
			if wide {
				fp = widePool()
			}
			fo, fr, _ := opOutcome(func() (*variants.Variant, error) {
				return binCall(c06mgr(mgr), name, fp[toInt(in["ai"])%len(fp)], fp[toInt(in["bi"])%len(fp)])
			})
			e["name"], e["ipa"], e["ipb"], e["outcome"], e["r"], e["fo"], e["fr"] = name, ipa, ipb, oc, valJSON(r), fo, valJSON(fr)
			if oc == "value" && r != x && r != y {
				res := r
				kp.keep("result of an earlier operator call", func() string { j := valJSON(res); return fmt.Sprint(j["t"], j["s"]) })
			}
			kp.check(e)
		case "bin":
			name := toStr(in["name"])
			e["name"] = name
			// with a text as first operand the second one is "converted to the first operand's type": the text it is converted to
			// is the manager's own conversion (how a number or a date is written is not C06's subject)
			if a.Type() == variants.String && b != nil && b.Type() != variants.String && b.Type() != variants.Null {
				var cv *variants.Variant
				var cerr error
				if o, _ := guarded(func() { cv, cerr = m.Convert(b.Clone(), variants.String) }); o == "ok" && cerr == nil && cv != nil && cv.Type() == variants.String {
					bj := valJSON(b)
					bj["c"] = cps(string([]byte(cv.AsString())))
					e["b"] = bj
				}
			}
			oc, r, det := opOutcome(func() (*variants.Variant, error) { return binCall(m, name, a, b) })
			e["outcome"], e["r"] = oc, valJSON(r)
			e["bfits"] = b == nil || fitsInt64(b)
			if h, ok := hostBin(name, a, b, mgr == "unsafe"); ok {
				e["host"] = valJSON(h)
			}
			if det != "" {
				e["detail"] = det
			}
		case "un":
			name := toStr(in["name"])
			e["name"] = name
			oc, r, det := opOutcome(func() (*variants.Variant, error) {
				if name == "Not" {
					return m.Not(a)
				}
				return m.Negative(a)
			})
			e["outcome"], e["r"] = oc, valJSON(r)
			if det != "" {
				e["detail"] = det
			}
			// the host's own unary operator on the native type
			if name == "Negative" {
				switch a.Type() {
				case variants.Integer:
					e["host"] = valJSON(variants.VariantFromInteger(-a.AsInteger()))
				case variants.Long:
					e["host"] = valJSON(variants.VariantFromLong(-a.AsLong()))
				case variants.Float:
					e["host"] = valJSON(variants.VariantFromFloat(-a.AsFloat()))
				case variants.Double:
					e["host"] = valJSON(variants.VariantFromDouble(-a.AsDouble()))
				}
			} else {
				switch a.Type() {
				case variants.Integer:
					e["host"] = valJSON(variants.VariantFromInteger(^a.AsInteger()))
				case variants.Long:
					e["host"] = valJSON(variants.VariantFromLong(^a.AsLong()))
				case variants.Boolean:
					e["host"] = valJSON(variants.VariantFromBoolean(!a.AsBoolean()))
				}
			}
		case "cmp":
			c := func(name string, x, y *variants.Variant) string {
				oc, r, _ := opOutcome(func() (*variants.Variant, error) { return binCall(m, name, x, y) })
				return truth(oc, r)
			}
			e["lt"], e["gt"], e["le"], e["ge"] = c("Less", a, b), c("More", a, b), c("LessEqual", a, b), c("MoreEqual", a, b)
			e["eq"], e["ne"], e["gtba"], e["ltba"] = c("Equal", a, b), c("NotEqual", a, b), c("More", b, a), c("Less", b, a)
			isNaN := func(v *variants.Variant) bool {
				return (v.Type() == variants.Double && math.IsNaN(v.AsDouble())) || (v.Type() == variants.Float && math.IsNaN(float64(v.AsFloat())))
			}
			e["nan"] = isNaN(a) || isNaN(b)
		case "law":
			law := toStr(in["law"])
			e["law"] = law
			var r2 *variants.Variant
			oc, r, _ := opOutcome(func() (*variants.Variant, error) {
				step := func(name string, x, y *variants.Variant) (*variants.Variant, error) { return binCall(m, name, x, y) }
				switch law {
				case "addsub":
					x, err := step("Add", a, b)
					if err != nil {
						return nil, err
					}
					return step("Sub", x, b)
				case "xorxor":
					x, err := step("Xor", a, b)
					if err != nil {
						return nil, err
					}
					return step("Xor", x, b)
				case "negneg":
					x, err := m.Negative(a)
					if err != nil {
						return nil, err
					}
					return m.Negative(x)
				case "notnot":
					x, err := m.Not(a)
					if err != nil {
						return nil, err
					}
					return m.Not(x)
				case "divmod":
					q, err := step("Div", a, b)
					if err != nil {
						return nil, err
					}
					p, err := step("Mul", q, b)
					if err != nil {
						return nil, err
					}
					md, err := step("Mod", a, b)
					if err != nil {
						return nil, err
					}
					return step("Add", p, md)
				case "selfstring":
					// an integer compared with its own decimal text: the text converts back to exactly that integer
					if a.Type() != variants.Integer && a.Type() != variants.Long {
						return nil, fmt.Errorf("not applicable")
					}
					txt := variants.VariantFromString(valJSON(a)["s"].(string))
					x, err := step("Sub", a, txt)
					if err != nil {
						return nil, err
					}
					r2, err = step("Equal", a, txt)
					if err != nil {
						return nil, err
					}
					return x, nil
				default: // addcomm
					x, err := step("Add", a, b)
					if err != nil {
						return nil, err
					}
					y, err := step("Add", b, a)
					if err != nil {
						return nil, err
					}
					r2 = y
					return x, nil
				}
			})
			isNaN := func(v *variants.Variant) bool {
				return (v.Type() == variants.Double && math.IsNaN(v.AsDouble())) || (v.Type() == variants.Float && math.IsNaN(float64(v.AsFloat())))
			}
			e["nan"] = isNaN(a) || (b != nil && isNaN(b))
			e["outcome"], e["r"], e["r2"] = oc, valJSON(r), nilv
			if r2 != nil {
				e["r2"] = valJSON(r2)
			}
		case "alias":
			// the result of an operation must not depend on what a caller did to an earlier result:
			// call, scribble over the returned variant (unless it is one of the operands), call again
			name := toStr(in["name"])
			e["name"] = name
			call := func() (string, *variants.Variant, string) {
				return opOutcome(func() (*variants.Variant, error) {
					switch name {
					case "Not":
						return m.Not(a)
					case "Negative":
						return m.Negative(a)
					case "Convert":
						return m.Convert(a, b.Type())
					}
					return binCall(m, name, a, b)
				})
			}
			o1, r1, _ := call()
			e["o1"], e["r1"] = o1, valJSON(r1)
			e["scribbled"] = false
			if o1 == "value" && r1 != a && r1 != b {
				r1.SetAsInteger(424242)
				e["scribbled"] = true
			}
			o2, r2, _ := call()
			e["o2"], e["r2"] = o2, valJSON(r2)
			// the operands after the two calls (an operator reads its operands, it does not write them)
			e["aa"], e["ba"] = valJSON(a), valJSON(b)
		case "powdouble":
			// '^' on integers is the same exponentiation as on the equal doubles
			toD := func(v *variants.Variant) *variants.Variant {
				switch v.Type() {
				case variants.Integer:
					return variants.VariantFromDouble(float64(v.AsInteger()))
				case variants.Long:
					return variants.VariantFromDouble(float64(v.AsLong()))
				}
				return nil
			}
			da, db := toD(a), toD(b)
			e["o1"], e["r1"], e["o2"], e["r2"] = "skip", nilv, "skip", nilv
			if da != nil && db != nil && valJSON(da)["s"] == valJSON(a)["s"] && valJSON(db)["s"] == valJSON(b)["s"] {
				o1, r1, _ := opOutcome(func() (*variants.Variant, error) { return m.Pow(a, b) })
				o2, r2, _ := opOutcome(func() (*variants.Variant, error) { return m.Pow(da, db) })
				e["o1"], e["r1"], e["o2"], e["r2"] = o1, valJSON(r1), o2, valJSON(r2)
			}
		case "in":
			// container = the pool's array extended with a; item = b
			elems := []*variants.Variant{variants.VariantFromInteger(1), variants.VariantFromString("abc"), a, variants.VariantFromDouble(2)}
			arr := variants.VariantFromArray(elems)
			eqs := []string{}
			for _, el := range elems {
				oc, r, _ := opOutcome(func() (*variants.Variant, error) { return m.Equal(b, el) })
				eqs = append(eqs, truth(oc, r))
			}
			oc, r, det := opOutcome(func() (*variants.Variant, error) { return m.In(arr, b) })
			e["item"], e["eqs"], e["outcome"], e["r"] = valJSON(b), eqs, oc, valJSON(r)
			if det != "" {
				e["detail"] = det
			}
		case "elem":
			kind := toStr(in["kind"])
			e["kind"] = kind
			elems := []*variants.Variant{variants.VariantFromInteger(1), variants.VariantFromString("x"), variants.VariantFromInteger(1)}
			var cont *variants.Variant
			str := []rune("aé日z")
			if t, ok := in["text"]; ok { // a container text given byte by byte (it need not be well-formed UTF-8)
				bs := toList(t)
				b := make([]byte, len(bs))
				for j, x := range bs {
					b[j] = byte(toInt(x))
				}
				str = []rune(string(b))
				e["text"] = t
				defer func() {}()
				kind = "string"
				strBytes = string(b)
			} else {
				strBytes = string(str)
			}
			if kind == "array" {
				cont = variants.VariantFromArray(elems)
				e["len"] = len(elems)
			} else {
				cont = variants.VariantFromString(strBytes)
				e["len"] = len(str)
			}
			oc, r, det := opOutcome(func() (*variants.Variant, error) { return m.GetElement(cont, a) })
			hit := -1
			if oc == "value" {
				if kind == "array" {
					for i, el := range elems {
						if el == r {
							hit = i
						}
					}
				} else if r.Type() == variants.String {
					idx := -2
					if a.Type() == variants.Integer {
						idx = a.AsInteger()
					} else if a.Type() == variants.Long {
						idx = int(a.AsLong())
					}
					for i, c := range str {
						if string(c) == r.AsString() && (idx == i || idx == -2) {
							hit = i
						}
					}
				}
			}
			e["index"], e["outcome"], e["hit"] = valJSON(a), oc, hit
			if det != "" {
				e["detail"] = det
			}
		}
		out = append(out, e)
	}
	return out
}

func init() {
	props["C06"] = &Prop{
		Generate: genC06,
		Exec:     execC06,
		Rule: "one event per (manager, operator, operand pair); non-trivial = distinct event whose operands have different types " +
			"or lie at a boundary (zero, negative, extreme, NaN/Inf, empty string)",
		NonTrivial: func(seg []Ev) string {
			e := seg[0]
			a := e["a"].(Ev)
			key := fmt.Sprint(e["op"], e["mgr"], e["name"], e["law"], e["kind"], a["t"], a["s"])
			if b, ok := e["b"].(Ev); ok {
				key += fmt.Sprint(b["t"], b["s"])
				if b["t"] != a["t"] || b["k"] == "none" || a["k"] == "none" || b["s"] == "0" || b["s"] == "" {
					return key
				}
				return ""
			}
			return key
		},
	}
}

func genC06(g *Gen) {
	full := true // the complete boundary pool is cheap enough for every run
	if g.Thorough() {
		c06extraSeed = g.Seed
	}
	// indexing into texts that are not well-formed UTF-8 (every index, also exactly at the undecodable bytes)
	for _, b := range [][]byte{[]byte("\xffabc"), []byte("ab\xff"), []byte("a\xe2\x82b"), []byte("\xc3"), []byte("\xed\xa0\x80z"), []byte("é\xffé"), []byte("x\x00y")} {
		bl := make([]any, len(b))
		for j, x := range b {
			bl[j] = int(x)
		}
		for _, mgr := range []string{"unsafe", "safe"} {
			for ai := 0; ai < 9; ai++ { // the first pool entries: null and the small integers / longs
				g.Run("indexing into texts that are not well-formed UTF-8", []Ev{{"op": "elem", "mgr": mgr, "kind": "string", "ai": ai, "full": full, "text": bl, "xseed": int(c06extraSeed)}})
			}
		}
	}
	n := len(valuePool(full))
	nw := len(widePool())
	// histories on one manager with operand objects that are re-assigned in place
	rh := g.Rand()
	strIdx := []int{}
	for i, v := range valuePool(full) {
		if v.Type() == variants.String || v.Type() == variants.Array {
			strIdx = append(strIdx, i)
		}
	}
	for _, mgr := range []string{"unsafe", "safe"} {
		// the same container / operand object re-assigned in place between two calls
		for _, s1 := range strIdx {
			for _, s2 := range strIdx {
				if s1 == s2 {
					continue
				}
				for idx := 1; idx <= 4; idx++ { // the small integers at the start of the pool
					g.Run("an operand object re-assigned in place between calls", []Ev{
						{"op": "bstep", "mgr": mgr, "name": "GetElement", "ai": s1, "bi": idx, "ipa": true, "ipb": false, "full": full, "xseed": int(c06extraSeed)},
						{"op": "bstep", "mgr": mgr, "name": "GetElement", "ai": s2, "bi": idx, "ipa": true, "ipb": idx%2 == 0, "full": full, "xseed": int(c06extraSeed)},
						{"op": "bstep", "mgr": mgr, "name": "Add", "ai": s1, "bi": s2, "ipa": true, "ipb": true, "full": full, "xseed": int(c06extraSeed)},
						{"op": "bstep", "mgr": mgr, "name": "GetElement", "ai": s1, "bi": idx, "ipa": true, "ipb": false, "full": full, "xseed": int(c06extraSeed)},
						{"op": "bstep", "mgr": mgr, "name": "Equal", "ai": s2, "bi": s1, "ipa": true, "ipb": true, "full": full, "xseed": int(c06extraSeed)}})
				}
			}
		}
		for rep := 0; rep < g.Pick(60, 1500); rep++ {
			var seg []Ev
			names := append(append([]string{}, binNames...), "GetElement", "In")
			name := names[rh.Intn(len(names))]
			ai := rh.Intn(n)
			for st := 0; st < 3+rh.Intn(8); st++ {
				if rh.Intn(3) == 0 {
					name = names[rh.Intn(len(names))]
				}
				if rh.Intn(3) == 0 {
					ai = rh.Intn(n)
				}
				bi := rh.Intn(n)
				if rh.Intn(2) == 0 {
					bi = strIdx[rh.Intn(len(strIdx))]
				}
				if name == "GetElement" && rh.Intn(2) == 0 {
					ai, bi = strIdx[rh.Intn(len(strIdx))], rh.Intn(8) // small integers sit at the start of the pool
				}
				seg = append(seg, Ev{"op": "bstep", "mgr": mgr, "name": name, "ai": ai, "bi": bi, "ipa": rh.Intn(2) == 0, "ipb": rh.Intn(3) != 0, "full": full, "xseed": int(c06extraSeed)})
			}
			g.Run("histories on one manager, operands re-assigned in place", seg)
		}
	}
	for _, mgr := range []string{"unsafe", "safe"} {
		wp := widePool()
		numeric := func(v *variants.Variant) bool { return v.Type() >= variants.Integer && v.Type() <= variants.Double }
		for ai := 0; ai < nw; ai++ {
			for bi := 0; bi < nw; bi++ {
				// quick tier: all numeric pairs and all pairs of one type; a fifth of the mixed rest
				if !g.Thorough() && !(numeric(wp[ai]) && numeric(wp[bi])) && wp[ai].Type() != wp[bi].Type() && (ai*7+bi)%5 != 0 {
					continue
				}
				for _, name := range binNames {
					if name != "Pow" {
						g.Run("host arithmetic on wide values (extreme magnitudes, rounding midpoints)", []Ev{{"op": "bin", "mgr": mgr, "name": name, "ai": ai, "bi": bi, "full": full, "wide": true, "xseed": int(c06extraSeed)}})
					}
				}
			}
		}
	}
	for _, mgr := range []string{"unsafe", "safe"} {
		for ai := 0; ai < n; ai++ {
			for _, un := range []string{"Not", "Negative"} {
				g.Run("unary operators x all values", []Ev{{"op": "un", "mgr": mgr, "name": un, "ai": ai, "full": full, "xseed": int(c06extraSeed)}})
			}
			for _, law := range []string{"negneg", "notnot", "selfstring"} {
				g.Run("algebraic laws", []Ev{{"op": "law", "mgr": mgr, "law": law, "ai": ai, "bi": ai, "full": full, "xseed": int(c06extraSeed)}})
			}
			for _, kind := range []string{"array", "string"} {
				g.Run("indexing x all index values", []Ev{{"op": "elem", "mgr": mgr, "kind": kind, "ai": ai, "full": full, "xseed": int(c06extraSeed)}})
			}
			for bi := 0; bi < n; bi++ {
				for _, name := range binNames {
					g.Run("all operators x all ordered pairs of values", []Ev{{"op": "bin", "mgr": mgr, "name": name, "ai": ai, "bi": bi, "full": full, "xseed": int(c06extraSeed)}})
				}
				g.Run("comparison consistency", []Ev{{"op": "cmp", "mgr": mgr, "ai": ai, "bi": bi, "full": full, "xseed": int(c06extraSeed)}})
				for _, law := range []string{"addsub", "xorxor", "divmod", "addcomm"} {
					g.Run("algebraic laws", []Ev{{"op": "law", "mgr": mgr, "law": law, "ai": ai, "bi": bi, "full": full, "xseed": int(c06extraSeed)}})
				}
				g.Run("membership", []Ev{{"op": "in", "mgr": mgr, "ai": ai, "bi": bi, "full": full, "xseed": int(c06extraSeed)}})
				for _, name := range []string{"Add", "Sub", "Mul", "Div", "Mod", "And", "Equal", "Less", "In", "Pow", "Lsh"} {
					if (ai+bi)%3 == 0 || ai == 0 || bi == 0 {
						g.Run("results are not aliased between calls", []Ev{{"op": "alias", "mgr": mgr, "name": name, "ai": ai, "bi": bi, "full": full, "xseed": int(c06extraSeed)}})
					}
				}
				g.Run("'^' on integers equals '^' on the equal doubles", []Ev{{"op": "powdouble", "mgr": mgr, "ai": ai, "bi": bi, "full": full, "xseed": int(c06extraSeed)}})
			}
		}
	}
}
