package main

import (
	"encoding/hex"
	"fmt"
	"math"
	"math/rand"
	"strconv"
	"strings"
	"time"

	"github.com/pip-services3-gox/pip-services3-expressions-gox/calculator"
	"github.com/pip-services3-gox/pip-services3-expressions-gox/calculator/functions"
	"github.com/pip-services3-gox/pip-services3-expressions-gox/variants"
)

// C08: built-in functions compute what their names denote.
func init() {
	props["C08"] = &Prop{
		Generate: genC08,
		Exec:     execC08,
		Rule: "one event per (manager, function, spelling, argument list), called directly and through an expression; " +
			"non-trivial = distinct event with a valid argument count and at least one argument",
		NonTrivial: func(seg []Ev) string {
			e := seg[0]
			if e["op"] == "rndmany" {
				return fmt.Sprint(e["name"], e["rseed"], e["count"])
			}
			if len(e["args"].([]any)) == 0 {
				return ""
			}
			return fmt.Sprint(e["mgr"], e["name"], e["argspec"])
		},
	}
}

// an argument is described by a spec string so that events replay exactly:
//
//	i:<int> l:<int64> f:<float32 text> d:<float64 text> s:<text> b:<bool> n (null) t:<unix s> ts:<ms> a (array) o (object)
func argFromSpec(s string) *variants.Variant {
	k, v := s, ""
	if i := strings.Index(s, ":"); i >= 0 {
		k, v = s[:i], s[i+1:]
	}
	switch k {
	case "i":
		x, _ := strconv.Atoi(v)
		return variants.VariantFromInteger(x)
	case "l":
		x, _ := strconv.ParseInt(v, 10, 64)
		return variants.VariantFromLong(x)
	case "f":
		x, _ := strconv.ParseFloat(v, 32)
		return variants.VariantFromFloat(float32(x))
	case "d":
		x, _ := strconv.ParseFloat(v, 64)
		return variants.VariantFromDouble(x)
	case "s":
		return variants.VariantFromString(v)
	case "sx": // a string given byte by byte in hex (texts that are not well-formed UTF-8)
		b, _ := hex.DecodeString(v)
		return variants.VariantFromString(string(b))
	case "b":
		return variants.VariantFromBoolean(v == "true")
	case "t":
		x, _ := strconv.ParseInt(v, 10, 64)
		return variants.VariantFromDateTime(time.Unix(x, 0))
	case "tz", "tl": // a date-time in a zone of its own (tz:<unix>:<offset seconds>) / in the host's local zone (tl:<unix>)
		parts := strings.Split(v, ":")
		x, _ := strconv.ParseInt(parts[0], 10, 64)
		if k == "tl" {
			return variants.VariantFromDateTime(time.Unix(x, 0).In(time.Local))
		}
		off, _ := strconv.Atoi(parts[1])
		return variants.VariantFromDateTime(time.Unix(x, 0).In(time.FixedZone("zone", off)))
	case "ts":
		x, _ := strconv.ParseInt(v, 10, 64)
		return variants.VariantFromTimeSpan(time.Duration(x) * time.Millisecond)
	case "a":
		return variants.VariantFromArray([]*variants.Variant{variants.VariantFromInteger(1), variants.VariantFromString("x")})
	case "i32":
		return variants.NewVariant(int32(5))
	case "u":
		return variants.NewVariant(uint(7))
	case "u32":
		return variants.VariantFromObject(uint32(9))
	case "ag": // an array that grew through an indexed write past its end (the skipped positions are nulls)
		g := variants.VariantFromArray([]*variants.Variant{variants.VariantFromInteger(1)})
		g.SetByIndex(4, variants.VariantFromInteger(9))
		g.SetLength(7)
		return g
	case "o":
		return variants.VariantFromObject(&c06obj{2})
	}
	return variants.EmptyVariant()
}

var c08hostZone = time.Local

func execC08(seg []Ev) []Ev {
	out := make([]Ev, 0, len(seg))
	defer func() { time.Local = c08hostZone }()
	for _, in := range seg {
		if toStr(in["op"]) == "rndmany" {
			// many draws from one generator state: the smallest and the largest floor(v * 2^24) seen
			name, count, seed := toStr(in["name"]), toInt(in["count"]), int64(toInt(in["rseed"]))
			e := Ev{"op": "rndmany", "mgr": toStr(in["mgr"]), "name": name, "count": count, "rseed": int(seed), "min24": 0, "max24": 0, "bad": 0, "outcome": "ok"}
			fn := functions.NewDefaultFunctionCollection().FindByName(name)
			m := c06mgr(toStr(in["mgr"]))
			if seed != 0 {
				rand.Seed(seed)
			}
			mn, mx, bad := math.Inf(1), math.Inf(-1), 0
			oc, _ := guardedLong(func() {
				for i := 0; i < count; i++ {
					r, err := fn.Calculate(nil, m)
					if err != nil || r == nil || (r.Type() != variants.Float && r.Type() != variants.Double) {
						bad++
						continue
					}
					var f float64
					if r.Type() == variants.Float {
						f = float64(r.AsFloat())
					} else {
						f = r.AsDouble()
					}
					if f < mn {
						mn = f
					}
					if f > mx {
						mx = f
					}
				}
			})
			e["outcome"], e["bad"] = oc, bad
			if bad < count && oc == "ok" {
				e["min24"], e["max24"] = int(math.Floor(mn*(1<<24))), int(math.Floor(mx*(1<<24)))
			}
			out = append(out, e)
			continue
		}
		mgr, name := toStr(in["mgr"]), toStr(in["name"])
		var specs []string
		for _, x := range toList(in["argspec"]) {
			specs = append(specs, toStr(x))
		}
		if specs == nil {
			specs = []string{}
		}
		// "tl:" arguments: the call is made on a host whose local zone is not UTC
		time.Local = c08hostZone
		// every other time the function table exists BEFORE the host's zone is what it is at the call (the zone is read when a
		// function is called, not when the table is made)
		collEarly := functions.NewDefaultFunctionCollection()
		if len(specs) > 0 && strings.HasPrefix(specs[0], "tl:") {
			time.Local = time.FixedZone("host", 19800)
		}
		if hz, ok := in["hostzone"]; ok { // a host whose local zone has daylight saving
			time.Local = zone(toStr(hz))
		}
		args := make([]*variants.Variant, len(specs))
		aj := make([]any, len(specs))
		for i, s := range specs {
			args[i] = argFromSpec(s)
			aj[i] = valJSON(args[i])
		}
		e := Ev{"op": "fn", "mgr": mgr, "name": name, "canon": strings.ToLower(name), "argspec": specs, "args": aj,
			"hit": 0, "hits": []int{}, "want": "", "want64": "", "rms": -1, "t0": 0, "t1": 0, "rsec": 0, "n24": -1, "parts": []int{}, "aparts": []int{},
			"eo": "none", "er": valJSON(nil)}
		m := c06mgr(mgr)
		coll := functions.NewDefaultFunctionCollection()
		if (len(name)+len(specs))%2 == 0 {
			coll = collEarly
		}
		fn := coll.FindByName(name)
		e["found"] = fn != nil
		if fn == nil {
			e["outcome"], e["r"] = "none", valJSON(nil)
			out = append(out, e)
			continue
		}
		if hz, ok := in["hostzone"]; ok {
			e["hostzone"] = hz
		}
		// the list handed over is a prefix of a longer list of the caller's: what lies behind it stays untouched as well
		full := make([]*variants.Variant, len(args), len(args)+8)
		copy(full, args)
		behind := full[len(args) : len(args)+8]
		sentinels := make([]*variants.Variant, 8)
		for i := range behind {
			sentinels[i] = variants.VariantFromInteger(900 + i)
			behind[i] = sentinels[i]
		}
		args = full
		given := append([]*variants.Variant{}, args...)
		t0 := time.Now().Unix()
		oc, r, det := opOutcome(func() (*variants.Variant, error) { return fn.Calculate(args, m) })
		t1 := time.Now().Unix()
		// the caller's argument list is the caller's: the same objects in the same places after the call
		e["argsame"] = len(given) == len(args)
		for i := range given {
			if i < len(args) && given[i] != args[i] {
				e["argsame"] = false
			}
		}
		for i := range behind {
			if behind[i] != sentinels[i] {
				e["argsame"] = false
			}
		}
		// Date: what the host's calendar gives for the same components in the host's zone (any values, carried as the host carries them)
		e["hostsec"] = "none"
		if strings.EqualFold(name, "date") && len(args) >= 2 && len(args) <= 7 {
			allInt := true
			c := []int{0, 1, 1, 0, 0, 0, 0}
			for i, a := range args {
				if a.Type() != variants.Integer && a.Type() != variants.Long {
					allInt = false
				} else if a.Type() == variants.Integer {
					c[i] = a.AsInteger()
				} else {
					c[i] = int(a.AsLong())
				}
			}
			// (in which unit a seventh component counts - fractions of a second - is not stated: only whole-second components are compared)
			if allInt && c[6] == 0 {
				e["hostsec"] = strconv.FormatInt(time.Date(c[0], time.Month(c[1]), c[2], c[3], c[4], c[5], c[6], time.Local).Unix(), 10)
			}
		}
		e["outcome"], e["r"], e["t0"], e["t1"] = oc, valJSON(r), int(t0), int(t1)
		if det != "" {
			e["detail"] = det
		}
		if oc == "value" {
			for i, a := range args {
				if a == r {
					e["hit"] = i + 1
				}
			}
			switch r.Type() {
			case variants.Array:
				hits := []int{}
				for _, el := range r.AsArray() {
					h := 0
					for i, a := range args {
						if a == el {
							h = i + 1
						}
					}
					hits = append(hits, h)
				}
				e["hits"] = hits
			case variants.Long:
				e["rsec"] = int(r.AsLong() % (1 << 40))
			case variants.Integer:
				e["rsec"] = int(int64(r.AsInteger()) % (1 << 40))
			case variants.DateTime:
				t := r.AsDateTime()
				e["rsec"] = int(t.Unix() % (1 << 40))
				lt := t.In(time.Local)
				e["parts"] = []int{lt.Year(), int(lt.Month()), lt.Day(), lt.Hour(), lt.Minute(), lt.Second()}
			case variants.TimeSpan:
				if ms := r.AsTimeSpan().Milliseconds(); r.AsTimeSpan()%time.Millisecond == 0 && ms > -(1<<31) && ms < (1<<31) {
					e["rms"] = int(ms)
				}
			case variants.Float:
				// floor(v * 2^24): in [0, 2^24) exactly when v is in [0, 1)
				if f := math.Floor(float64(r.AsFloat()) * (1 << 24)); math.Abs(f) < (1 << 30) {
					e["n24"] = int(f)
				}
			case variants.Double:
				if f := math.Floor(r.AsDouble() * (1 << 24)); math.Abs(f) < (1 << 30) {
					e["n24"] = int(f)
				}
			}
		}
		// the IEEE functions: what the host's math library gives for the argument converted to a double (any magnitude, NaN, infinities)
		// Contains is the host's substring test on the two texts as they are (byte for byte)
		e["hostcontains"] = "none"
		if e["canon"] == "contains" && len(args) == 2 && args[0].Type() == variants.String && args[1].Type() == variants.String {
			e["hostcontains"] = fmt.Sprint(strings.Contains(args[0].AsString(), args[1].AsString()))
		}
		e["hostmath"] = "none"
		if len(args) == 1 {
			x, isNum := 0.0, true
			switch args[0].Type() {
			case variants.Integer:
				x = float64(args[0].AsInteger())
			case variants.Long:
				x = float64(args[0].AsLong())
			case variants.Float:
				x = float64(args[0].AsFloat())
			case variants.Double:
				x = args[0].AsDouble()
			default:
				isNum = false
			}
			hm := map[string]func(float64) float64{"acos": math.Acos, "asin": math.Asin, "atan": math.Atan, "exp": math.Exp, "log": math.Log, "ln": math.Log, "log10": math.Log10,
				"ceil": math.Ceil, "ceiling": math.Ceil, "floor": math.Floor, "round": math.Round, "cos": math.Cos, "sin": math.Sin, "tan": math.Tan, "sqr": math.Sqrt, "sqrt": math.Sqrt}
			// the host's value, written in the numeric type the function answered with (the rounding functions: any numeric type)
			inType := func(v float64) any {
				if oc == "value" && r != nil {
					switch r.Type() {
					case variants.Integer, variants.Long:
						if math.IsNaN(v) || math.Abs(v) >= 9e18 {
							return "none"
						}
						return strconv.FormatInt(int64(v), 10)
					case variants.Float:
						return valJSON(variants.VariantFromFloat(float32(v)))["s"]
					}
				}
				return valJSON(variants.VariantFromDouble(v))["s"]
			}
			lname := strings.ToLower(name)
			rounding := map[string]bool{"ceil": true, "ceiling": true, "floor": true, "round": true}
			if f, ok := hm[lname]; ok && isNum {
				if rounding[lname] {
					e["hostmath"] = inType(f(x))
					if lname == "round" {
						e["hostmath2"] = inType(math.RoundToEven(x)) // (an exact half goes away from zero or to the even neighbour)
					}
				} else {
					e["hostmath"] = valJSON(variants.VariantFromDouble(f(x)))["s"]
				}
			}
			if (lname == "trunc" || lname == "truncate") && isNum && !math.IsNaN(x) && (math.Abs(x) < 9e18 || (oc == "value" && r != nil && (r.Type() == variants.Double || r.Type() == variants.Float))) {
				e["hostmath"] = inType(math.Trunc(x))
			}
		}
		// a result is the caller's to change: the next call must not be affected (deterministic functions only)
		e["again"] = "same"
		if oc == "value" && e["hit"] == 0 && r.Type() != variants.Array {
			switch strings.ToLower(name) {
			case "ticks", "now", "rnd", "random":
			default:
				before := valJSON(r)
				guarded(func() { r.SetAsString("scribbled by the caller") })
				_, r2, _ := opOutcome(func() (*variants.Variant, error) { return fn.Calculate(append([]*variants.Variant{}, given...), m) })
				after := valJSON(r2)
				if before["t"] != after["t"] || before["s"] != after["s"] {
					e["again"] = fmt.Sprint(after["t"], ":", after["s"])
				}
			}
		}
		switch e["canon"] {
		case "e":
			e["want"] = strconv.FormatFloat(float64(float32(math.E)), 'g', -1, 64)
			e["want64"] = strconv.FormatFloat(math.E, 'g', -1, 64)
		case "pi":
			e["want"] = strconv.FormatFloat(float64(float32(math.Pi)), 'g', -1, 64)
			e["want64"] = strconv.FormatFloat(math.Pi, 'g', -1, 64)
		case "dayofweek":
			if len(args) == 1 && args[0].Type() == variants.DateTime {
				t := args[0].AsDateTime()
				e["aparts"] = []int{t.Year(), int(t.Month()), t.Day()}
			}
		}
		// the same call through an expression: Name(p0, p1, ...)
		calc := calculator.NewExpressionCalculator()
		calc.SetVariantOperations(m)
		var ps []string
		for i := range args {
			ps = append(ps, fmt.Sprintf("p%d", i))
		}
		eo, er, _ := opOutcome(func() (*variants.Variant, error) {
			if err := calc.SetExpression(name + "(" + strings.Join(ps, ", ") + ")"); err != nil {
				return nil, err
			}
			for i, a := range args {
				calc.DefaultVariables().FindByName(ps[i]).SetValue(a)
			}
			return calc.Evaluate()
		})
		e["eo"], e["er"] = eo, valJSON(er)
		out = append(out, e)
	}
	return out
}

var c08generic = []string{"i:0", "i:3", "i:-8", "l:5", "l:-2", "f:1.5", "f:-2.25", "d:2.5", "d:4", "d:-0.5", "s:abc", "s:3", "s:", "b:true", "b:false", "n",
	"t:86400", "ts:1500", "a", "ag", "i32", "u", "u32", "o", "i:1", "i:2", "d:0", "d:1", "i:9223372036854775807", "l:-9223372036854775808", "l:9007199254740993", "d:NaN", "d:+Inf", "f:0.1"}

var hostZoneForNext = ""

func genC08(g *Gen) {
	r := g.Rand()
	// the random functions stay inside [0,1) over many draws and over many generator states
	for _, name := range []string{"Rnd", "RANDOM"} {
		for s := 1; s <= g.Pick(40, 400); s++ {
			g.Run("many draws x generator states", []Ev{{"op": "rndmany", "mgr": "unsafe", "name": name, "count": 30000, "rseed": s*811 + int(g.Seed)}})
		}
		for _, s := range []int{1622, 1, 42} {
			g.Run("many draws x generator states", []Ev{{"op": "rndmany", "mgr": "safe", "name": name, "count": 30000, "rseed": s}})
		}
		g.Run("many draws x generator states", []Ev{{"op": "rndmany", "mgr": "unsafe", "name": name, "count": g.Pick(20_000_000, 400_000_000), "rseed": int(g.Seed) + 7}})
	}
	spell := func(n string, rr *rand.Rand) []string {
		mixed := []rune(n)
		for i := range mixed {
			if rr.Intn(2) == 0 {
				mixed[i] = []rune(strings.ToUpper(string(mixed[i])))[0]
			} else {
				mixed[i] = []rune(strings.ToLower(string(mixed[i])))[0]
			}
		}
		return []string{n, strings.ToUpper(n), strings.ToLower(n), string(mixed)}
	}
	emit := func(gen, mgr, name string, specs []string) {
		sl := make([]any, len(specs))
		for i, s := range specs {
			sl[i] = s
		}
		ev := Ev{"op": "fn", "mgr": mgr, "name": name, "argspec": sl}
		if hostZoneForNext != "" {
			ev["hostzone"] = hostZoneForNext
		}
		g.Run(gen, []Ev{ev})
	}
	nums := []string{"i:0", "i:1", "i:2", "i:3", "i:-8", "i:7", "l:5", "l:-2", "l:0", "f:1.5", "f:-2.25", "f:0", "d:2.5", "d:-0.5", "d:4", "d:0", "d:1", "d:-3.5", "d:0.5", "d:9", "d:16", "i:25", "l:100"}
	targeted := map[string][][]string{
		"timespan": {{"i:5"}, {"l:1500"}, {"i:1", "i:2", "i:3"}, {"i:1", "i:2", "i:3", "i:4"}, {"i:1", "i:2", "i:3", "i:4", "i:5"}, {"i:0", "i:0", "i:0", "i:0", "i:7"}, {"l:2", "i:0", "i:30"}, {"i:-1", "i:0", "i:0"}},
		"date":     {{"l:86400"}, {"i:0"}, {"i:2020"}, {"i:2020", "i:2"}, {"i:2020", "i:2", "i:28"}, {"i:1999", "i:12", "i:5", "i:23"}, {"i:2024", "i:7", "i:4", "i:9", "i:30"}, {"i:2001", "i:1", "i:1", "i:0", "i:0", "i:59"}, {"i:2020", "i:2", "i:3", "i:4", "i:5", "i:6", "i:7"},
			{"i:2020", "i:1", "i:1", "a"}, {"i:2020", "i:1", "i:1", "i:1", "o"}, {"i:2020", "i:1", "i:1", "i:1", "i:1", "a"}, {"i:2020", "i:1", "i:1", "i:1", "i:1", "i:1", "o"}, {"i:2020", "i:1", "i:1", "l:5"},
			{"a", "i:1", "i:1"}, {"i:2020", "o"}, {"i:2020", "i:1", "a"}},
		"dayofweek": {{"t:0"}, {"t:86400"}, {"t:1700000000"}, {"t:951782400"}, {"t:1709164800"}, {"t:-86400"}, {"t:4102444800"}, {"l:86400"}, {"s:x"},
			{"tz:1700000000:10800"}, {"tz:1700000000:-28800"}, {"tz:1700006400:-3600"}, {"tz:1700006400:3600"}, {"tz:951782400:-60"}, {"tz:951782399:60"}, {"tz:1709164800:50400"}, {"tz:1709164800:-43200"},
			{"tz:86399:1"}, {"tz:86400:-1"}, {"tz:4102444800:19800"}, {"tl:1700000000"}, {"tl:1700071200"}, {"tl:951762600"}, {"tl:86400"}},
		"if":       {{"b:true", "i:1", "i:2"}, {"b:false", "i:1", "i:2"}, {"i:0", "s:a", "s:b"}, {"i:5", "s:a", "s:b"}, {"d:0", "n", "i:1"}, {"d:0.5", "n", "i:1"}},
		"choose":   {{"i:1", "s:a", "s:b"}, {"i:2", "s:a", "s:b"}, {"i:3", "s:a", "s:b", "s:c"}, {"i:3", "s:a", "s:b"}, {"i:-1", "s:a", "s:b"}, {"i:0", "s:a", "s:b"}, {"l:2", "i:7", "i:8", "i:9"}, {"i:7", "s:a", "s:b"}},
		"contains": {{"s:hello", "s:ell"}, {"s:hello", "s:xyz"}, {"s:hello", "s:"}, {"s:héllo", "s:é"}, {"s:abc", "s:abcd"}, {"s:", "s:a"}, {"i:123", "i:2"}, {"s:a1", "i:1"},
			{"sx:61fe62", "sx:ff"}, {"sx:61ff62", "sx:ff"}, {"sx:61ff62", "s:\uFFFD"}, {"s:a\uFFFDb", "sx:ff"}, {"s:a\uFFFDb", "s:\uFFFD"}, {"s:h\u00e9llo", "sx:c3"}, {"s:h\u00e9llo", "sx:a9"},
			{"sx:c3", "s:\u00e9"}, {"sx:e282", "sx:e2"}, {"sx:e282ac", "sx:82"}, {"s:x", "s:x"}, {"s:\U0001F600", "sx:f09f"}, {"s:abc", "s:c"}, {"s:abc", "s:d"}},
		"empty":    {{"n"}, {"i:0"}, {"s:"}, {"s:x"}, {"d:0"}, {"b:false"}, {"a"}},
		"array":    {{}, {"i:1"}, {"i:1", "s:x", "n"}, {"a", "o", "d:1", "i:2", "i:3", "i:4", "i:5", "i:6"}},
		"abs":      {{"i:-8"}, {"i:7"}, {"l:-9007199254740993"}, {"l:9007199254740993"}, {"i:-9223372036854775807"}, {"l:-9223372036854775808"}, {"f:-2.25"}, {"d:-0.5"}, {"d:3.5"}, {"s:-3"}, {"b:true"}, {"n"}, {"a"}},
	}
	// Date with components that have to be carried (months > 12, days > 31, hours > 23, huge fractions), also on hosts whose zone has daylight saving
	for _, hz := range []string{"", "Europe/Berlin", "America/New_York", "Australia/Lord_Howe"} {
		hostZoneForNext = hz
		for _, cs := range [][]int{{2021, 10, 31, 0, 30, 0, 10800000000000}, {2021, 3, 28, 0, 30, 0, 10800000000000}, {2021, 10, 31, 2, 30}, {2021, 3, 28, 2, 30}, {2021, 11, 7, 1, 30, 0}, {2021, 3, 14, 2, 30},
			{2020, 13, 1}, {2020, 0, 0}, {2021, 2, 31}, {2021, 12, 31, 25, 61, 61}, {2021, 1, 1, -1, -1, -1, -1}, {2021, 10, 30, 27, 0, 0}, {2021, 10, 31, 0, 0, 10800}, {2021, 4, 4, 1, 45, 0, 1800000000000}, {1, 1, 1}, {9999, 12, 31}} {
			specs := make([]string, len(cs))
			for i, c := range cs {
				specs[i] = fmt.Sprintf("i:%d", c)
			}
			emit("Date with carried components x host zones", "unsafe", "Date", specs)
			specs[0] = fmt.Sprintf("l:%d", cs[0])
			emit("Date with carried components x host zones", "safe", "date", specs[:2])
		}
		for _, u := range []string{"t:1636263000", "t:1636266600", "t:1635640200", "t:1616893200"} {
			emit("Date with carried components x host zones", "unsafe", "DayOfWeek", []string{u})
		}
	}
	hostZoneForNext = ""
	// calendar sweeps: the last days of every month in leap and common years, the ends of the day; the weekday of every day of four years
	for _, mgr := range []string{"unsafe", "safe"} {
		for _, y := range []int{1972, 1999, 2000, 2023, 2024, 2100} {
			for m := 1; m <= 12; m++ {
				for _, d := range []int{1, 28, 29, 30, 31} {
					if d > time.Date(y, time.Month(m)+1, 0, 0, 0, 0, 0, time.UTC).Day() {
						continue
					}
					emit("calendar sweep", mgr, "Date", []string{fmt.Sprintf("i:%d", y), fmt.Sprintf("i:%d", m), fmt.Sprintf("i:%d", d)})
					if mgr == "unsafe" && (d >= 28 || m == 1) {
						emit("calendar sweep", mgr, "date", []string{fmt.Sprintf("i:%d", y), fmt.Sprintf("i:%d", m), fmt.Sprintf("i:%d", d), "i:23", "i:59", "i:59"})
						emit("calendar sweep", mgr, "DATE", []string{fmt.Sprintf("l:%d", y), fmt.Sprintf("i:%d", m), fmt.Sprintf("i:%d", d), "i:0", "i:0"})
					}
				}
			}
		}
		if mgr == "unsafe" {
			for _, y := range []int{2000, 2023, 2024, 2100} {
				for day := 0; day < 366; day++ {
					t := time.Date(y, 1, 1, []int{0, 12, 23}[day%3], []int{0, 30, 59}[day%3], []int{0, 0, 59}[day%3], 0, time.UTC).AddDate(0, 0, day)
					emit("calendar sweep", mgr, "DayOfWeek", []string{fmt.Sprintf("t:%d", t.Unix())})
				}
			}
		}
	}
	for _, name := range defaultFnNames {
		canon := strings.ToLower(name)
		for si, sp := range spell(name, r) {
			for _, mgr := range []string{"unsafe", "safe"} {
				// every argument count 0..8 with seeded random arguments of every type
				for n := 0; n <= 8; n++ {
					reps := g.Pick(2, 14)
					if si > 0 {
						reps = g.Pick(1, 4)
					}
					for k := 0; k < reps; k++ {
						specs := make([]string, n)
						for i := range specs {
							switch {
							case k == 0:
								specs[i] = nums[r.Intn(len(nums))]
							case k%3 == 2: // seeded random numbers inside the exactly modelled domain
								switch r.Intn(4) {
								case 0:
									specs[i] = fmt.Sprintf("i:%d", r.Intn(2001)-1000)
								case 1:
									specs[i] = fmt.Sprintf("l:%d", r.Intn(200001)-100000)
								case 2:
									specs[i] = fmt.Sprintf("d:%v", float64(r.Intn(16001)-8000)/8)
								default:
									specs[i] = fmt.Sprintf("f:%v", float64(r.Intn(1601)-800)/4)
								}
							default:
								specs[i] = c08generic[r.Intn(len(c08generic))]
							}
						}
						emit("all names x spellings x argument counts 0..8", mgr, sp, specs)
					}
				}
				if si > 1 {
					continue
				}
				// long argument lists (every variadic function; the others must report the wrong count)
				for _, n := range []int{9, 16, 31, 32, 33, 34, 40, 63, 64, 65, 100, 128, 129, 257} {
					if n > g.Pick(130, 300) || (si == 1 && n%2 == 0) {
						continue
					}
					specs := make([]string, n)
					for i := range specs {
						specs[i] = fmt.Sprintf("i:%d", (i*37+11)%101-50)
					}
					if canon == "choose" {
						specs[0] = fmt.Sprintf("i:%d", n-1)
					}
					emit("long argument lists", mgr, sp, specs)
					ds := make([]string, n)
					for i := range ds {
						ds[i] = fmt.Sprintf("d:%v", float64((i*53+7)%201-100)/8)
					}
					ds[n-1] = "d:-99.5" // the extreme value comes last
					emit("long argument lists", mgr, sp, ds)
					ds2 := append([]string{}, ds...)
					ds2[n-1], ds2[n-2] = "d:1", "d:99.5"
					emit("long argument lists", mgr, sp, ds2)
					if canon == "choose" {
						for _, pick := range []int{1, 31, 32, 33, n - 2, n - 1} {
							if pick < n {
								cs := append([]string{}, specs...)
								cs[0] = fmt.Sprintf("i:%d", pick)
								emit("long argument lists", mgr, sp, cs)
							}
						}
					}
				}
				for _, t := range targeted[canon] {
					emit("targeted arguments", mgr, sp, t)
				}
				// one-argument functions over the numeric pool and the generic pool
				if canon != "array" {
					halves := []string{"d:0.5", "d:1.5", "d:2.5", "d:-0.5", "d:-1.5", "d:-2.5", "d:0.49999999999999994", "d:-0.49999999999999994", "d:4503599627370495.5", "d:4503599627370496.5", "d:-0",
						"d:-Inf", "d:1e308", "d:5e-324", "d:1e-7", "l:9223372036854775807", "l:9007199254740993", "i:-9223372036854775808", "f:0.5", "f:2.5", "f:-1.5", "f:16777217", "d:3.141592653589793", "d:1.5707963267948966", "d:1e22", "d:-1e22"}
					for _, a := range append(append(append([]string{}, nums...), c08generic...), halves...) {
						emit("one argument from the boundary pool", mgr, sp, []string{a})
					}
				}
				// two and three arguments for the folding functions
				if canon == "min" || canon == "max" || canon == "sum" {
					for _, a := range nums {
						for _, b := range nums {
							emit("folding functions x pairs", mgr, sp, []string{a, b})
						}
						emit("folding functions x triples", mgr, sp, []string{a, nums[r.Intn(len(nums))], nums[r.Intn(len(nums))]})
					}
					for _, t := range [][]string{{"s:b", "s:a"}, {"s:a", "s:b", "s:A"}, {"i:1", "n"}, {"n", "i:1"}, {"b:true", "b:false"}, {"i:1", "s:x"}, {"s:x", "i:1"}, {"d:NaN", "d:1"}} {
						emit("folding functions x special operands", mgr, sp, t)
					}
				}
			}
		}
	}
}
