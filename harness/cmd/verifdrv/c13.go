package main

import (
	"fmt"
	"math/rand"
	"strings"
)

// C13: lexeme sequences tokenize back to themselves with the right classes.
type lexeme struct {
	cls  string
	text string
}

func init() {
	props["C13"] = &Prop{
		Generate: genC13,
		Exec:     execC13,
		Rule: "one event per (tokenizer, lexeme sequence); non-trivial = distinct sequence that contains a multi-character symbol, " +
			"a keyword not in upper case, a non-Latin identifier, a number in scientific notation or a quoted string containing " +
			"quotes / newlines / non-ASCII text",
		NonTrivial: func(seg []Ev) string {
			e := seg[0]
			key := fmt.Sprint(e["kind"], e["lexemes"])
			for _, l := range e["lexemes"].([]any) {
				ll := l.([]any)
				cls, txt := ll[0].(string), string(toRunes(ll[1]))
				switch {
				case cls == "symbol" && len(txt) > 1, cls == "keyword" && txt != strings.ToUpper(txt),
					cls == "float" && strings.ContainsAny(txt, "eE"), (cls == "quoted" || cls == "dquoted") && len(txt) > 2:
					return key
				case cls == "word":
					for _, c := range txt {
						if c > 127 {
							return key
						}
					}
				}
			}
			return ""
		},
	}
}

func execC13(seg []Ev) []Ev {
	out := make([]Ev, 0, len(seg))
	for _, in := range seg {
		kind := toStr(in["kind"])
		var sb strings.Builder
		lj := []any{}
		for _, l := range toList(in["lexemes"]) {
			ll := toList(l)
			t := string(toRunes(ll[1]))
			sb.WriteString(t)
			lj = append(lj, []any{toStr(ll[0]), cps(t)})
		}
		toks, oc, det := tokenize(kind, 0, sb.String())
		tj := [][]any{}
		for _, t := range toks {
			tj = append(tj, []any{t[0], t[1]})
		}
		e := Ev{"op": "lex", "kind": kind, "lexemes": lj, "toks": tj, "outcome": oc, "text": sb.String()}
		if det != "" {
			e["detail"] = det
		}
		out = append(out, e)
	}
	return out
}

// ---- Go mirror of the separability rule (the trace specification re-validates every adjacency) ----
func isDigit(c rune) bool { return c >= '0' && c <= '9' }
func isLatin(c rune) bool { return (c >= 'a' && c <= 'z') || (c >= 'A' && c <= 'Z') }
func wordPart(kind string, c rune) bool {
	if kind == "generic" {
		return isLatin(c) || isDigit(c) || c == '-' || c == '_' || (c >= 0xC0 && c <= 0xFFFE)
	}
	return isLatin(c) || isDigit(c) || c == '_' || (c >= 0xC0 && c <= 0xFFFE)
}
func canAbut(kind string, a, b lexeme) bool {
	s1, s2 := []rune(a.text), []rune(b.text)
	last, first := s1[len(s1)-1], s2[0]
	switch a.cls {
	case "word", "keyword":
		return !wordPart(kind, first)
	case "integer", "float":
		return !isDigit(first) && first != '.' && (kind == "generic" || (first != 'e' && first != 'E'))
	case "quoted", "dquoted":
		return kind == "generic" || first != last
	case "comment":
		return kind != "generic" || first == '\n' || first == '\r'
	case "ws":
		return !(first >= 0 && first <= ' ')
	case "special":
		return first != '.'
	case "symbol":
		if len(s1) > 1 {
			return true
		}
		if kind == "expression-custom" && last == '.' && first == '.' {
			return false
		}
		if strings.ContainsRune("<>!=", last) && strings.ContainsRune("<=>", first) {
			return false
		}
		if kind == "expression-custom" && last == '-' && strings.ContainsRune(">=-", first) {
			return false
		}
		if last == '-' && kind == "generic" && (isDigit(first) || first == '.') {
			return false
		}
		if last == '.' && isDigit(first) {
			return false
		}
		if last == '/' && kind != "generic" && first == '*' {
			return false
		}
		return true
	}
	return false
}

var c13keywords = []string{"AND", "OR", "NOT", "XOR", "LIKE", "IS", "IN", "NULL", "TRUE", "FALSE"}

func c13pool(kind string) map[string][]string {
	if kind == "generic" {
		return map[string][]string{
			"word":    {"abc", "x1", "a-b_c", "été", "Жук", "日本", "a", "Zz-9"},
			"integer": {"0", "12", "007", "-5"},
			"float":   {"1.5", "0.25", "-2.5", "10.0"},
			"quoted":  {"'abc'", "'a b\n'", "'é\"x'", "''", "' '"},
			"dquoted": {"\"q\"", "\"it's\"", "\"\"", "\"Ж 1\""},
			"comment": {"# c", "#", "# 'not a string' <= -1"},
			"ws":      {" ", "\t ", "\n", "\r\n "},
			"symbol":  {"<>", "<=", ">=", "<", ">", "=", "+", "*", "(", ")", ",", "-", ".", "/", "!", "{", ";"},
		}
	}
	if kind == "expression-custom" {
		p := c13pool("expression")
		p["symbol"] = append([]string{"->", "=>", "--", "-="}, p["symbol"]...)
		p["special"] = []string{".."} // registered with the Special type
		return p
	}
	kws := []string{}
	for _, k := range c13keywords {
		kws = append(kws, k, strings.ToLower(k), k[:1]+strings.ToLower(k[1:]))
		if odd := strings.ToLower(k[:1]) + strings.NewReplacer("s", "\u017f", "i", "\u0131").Replace(strings.ToLower(k[1:])); odd != strings.ToLower(k) {
			kws = append(kws, odd) // long s / dotless i: their upper case is the ASCII letter
		}
	}
	return map[string][]string{
		"word":    {"abc", "_x1", "été", "aЖ9", "ANDy", "nota", "e1", "E", "li\u212ae", "a\ufffe", "o\u0280"},
		"keyword": kws,
		"integer": {"0", "12", "007"},
		"float":   {"1.5", "0.25", "1e5", "2.5E-3", "3e+2", "1.5e10", "10.0"},
		"quoted":  {"'abc'", "'it''s'", "''''", "'a\nb'", "'日本'", "''", "'\"'"},
		"dquoted": {"\"q\"", "\"a\"\"b\"", "\"\"", "\"it's\""},
		"comment": {"/* c */", "/**/", "/* a\n * b */", "/* 'x' */"},
		"ws":      {" ", "\t ", "\n", "\r\n "},
		"symbol":  {"<=", ">=", "<>", "!=", ">>", "<<", "<", ">", "=", "!", "+", "-", "*", "(", ")", ",", ".", "/", "%", "^", "[", "]", "$"},
	}
}

// c13rare: lexemes that only a specific comparison, table index, magnitude or buffer length tells apart
func c13rare(kind string) map[string][]string {
	if kind == "expression-custom" {
		kind = "expression"
	}
	long := strings.Repeat("ab", 150)
	digits := strings.Repeat("1234567890", 30)
	if kind == "generic" {
		return map[string][]string{
			"word":    {"ондатра", "нет", "мир", "\u013da", "\u0663x", "\u0969", "\uff13a", "a\u0663", "\u010d", "x\u200dy", "\ufffdz", "a\ufffd", "\u01c5", "\u017f", "\u0131", "\u043c", "\u013c", long, "\uff0a", "\u040a"},
			"integer": {"9223372036854775807", "9223372036854775808", "18446744073709551616", "123456789012345678901234567890", digits, "-9223372036854775809"},
			"float":   {"0.000000000000000000000000000001", "123456789012345678901234567890.5", digits + "." + digits, "-0.0"},
			"quoted":  {"'" + long + "'", "'\ufffd'", "'a\uffffb'", "'\U0001f60a'"},
			"dquoted": {"\"" + long + "\"", "\"\uffff\""},
			"comment": {"# \uffff x", "# " + long},
			"ws":      {strings.Repeat(" ", 300), "\u0001\u001f"},
			"symbol":  {},
		}
	}
	return map[string][]string{
		"word":    {"a\u0663", "e\u0663", "a\ufffd", "x\u200d", long, "\u00e9\u017f", "_\uff13", "a\u043e"},
		"keyword": {},
		"integer": {"9223372036854775807", "9223372036854775808", "18446744073709551616", digits},
		"float":   {"1e400", "1e-400", "12345678901234567890e5", digits + "." + digits, "0.000000000000000000000000000001", "1.5E+300"},
		"quoted":  {"'" + long + "'", "'\ufffd'", "'a\uffffb'", "'" + strings.Repeat("''", 140) + "'"},
		"dquoted": {"\"" + long + "\"", "\"\uffff\""},
		"comment": {"/* \uffff */", "/*" + long + "*/"},
		"ws":      {strings.Repeat(" ", 300)},
		"symbol":  {"\u0663", "\uff14", "\u043c", "\u043e", "\u013d", "\u013c", "\u0121", "\u200d", "\ufffd", "\u0131", "\u212a"},
	}
}

var c13classes = []string{"word", "keyword", "integer", "float", "quoted", "dquoted", "comment", "ws", "symbol", "special"}

// join inserts a whitespace lexeme wherever two neighbours could merge
func c13join(kind string, seq []lexeme, r *rand.Rand) []lexeme {
	var out []lexeme
	for _, l := range seq {
		if len(out) > 0 {
			p := out[len(out)-1]
			if !canAbut(kind, p, l) || (r != nil && p.cls != "ws" && l.cls != "ws" && r.Intn(4) == 0) {
				sep := lexeme{"ws", " "}
				if p.cls == "comment" && kind == "generic" {
					sep = lexeme{"ws", "\n"}
				}
				if p.cls == "ws" {
					continue // two whitespace runs would merge: drop the second lexeme
				}
				if l.cls == "ws" {
					// a whitespace run that must also terminate a line comment: let it start with the line break
					if !canAbut(kind, p, l) {
						l.text = "\n" + l.text
					}
					out = append(out, l)
					continue
				}
				out = append(out, sep)
			}
		}
		out = append(out, l)
	}
	return out
}

func c13emit(g *Gen, gen, kind string, seq []lexeme) {
	lj := make([]any, len(seq))
	for i, l := range seq {
		lj[i] = []any{l.cls, cps(l.text)}
	}
	g.Run(gen, []Ev{{"op": "lex", "kind": kind, "lexemes": lj}})
}

func randomPayload(kind, cls string, r *rand.Rand) string {
	pick := func(rs []rune) rune { return rs[r.Intn(len(rs))] }
	n := 1 + r.Intn(8)
	var sb strings.Builder
	switch cls {
	case "word":
		starts := []rune{'a', 'Z', 'q', 0xe9, 0xC0, 0xFF}
		if kind == "generic" {
			starts = append(starts, 0x100, 0x416, 0x65e5, 0xFFFE)
		} else {
			starts = append(starts, '_')
		}
		parts := []rune{'a', 'B', '0', '9', '_', 0xe9, 0x416, 0x65e5, 0xFFFE, 0x100}
		if kind == "generic" {
			parts = append(parts, '-')
		}
		sb.WriteRune(pick(starts))
		for i := 1; i < n; i++ {
			sb.WriteRune(pick(parts))
		}
		s := sb.String()
		for _, k := range c13keywords {
			if strings.ToUpper(s) == k {
				return s + "_"
			}
		}
		return s
	case "integer":
		for i := 0; i < n; i++ {
			sb.WriteRune(rune('0' + r.Intn(10)))
		}
	case "float":
		for i := 0; i < 1+r.Intn(4); i++ {
			sb.WriteRune(rune('0' + r.Intn(10)))
		}
		if kind == "generic" || r.Intn(2) == 0 {
			sb.WriteRune('.')
			for i := 0; i < 1+r.Intn(4); i++ {
				sb.WriteRune(rune('0' + r.Intn(10)))
			}
		}
		if kind != "generic" && (r.Intn(2) == 0 || !strings.Contains(sb.String(), ".")) {
			sb.WriteString([]string{"e", "E"}[r.Intn(2)])
			sb.WriteString([]string{"", "+", "-"}[r.Intn(3)])
			for i := 0; i < 1+r.Intn(3); i++ {
				sb.WriteRune(rune('0' + r.Intn(10)))
			}
		}
	case "quoted", "dquoted":
		q := '\''
		if cls == "dquoted" {
			q = '"'
		}
		sb.WriteRune(q)
		for i := 0; i < n; i++ {
			c := pick([]rune{'a', ' ', '\n', '\r', 0xe9, 0x416, 0x1F600, '\'', '"', '#', '/', '*', '<', '1'})
			if c == q {
				if kind == "generic" {
					continue
				}
				sb.WriteRune(q)
			}
			sb.WriteRune(c)
		}
		sb.WriteRune(q)
	case "comment":
		if kind == "generic" {
			sb.WriteString("#")
			for i := 0; i < n; i++ {
				sb.WriteRune(pick([]rune{'a', ' ', '\'', '"', '<', '=', '1', '-', 0x416, '#'}))
			}
		} else {
			sb.WriteString("/*")
			for i := 0; i < n; i++ {
				c := pick([]rune{'a', ' ', '\n', '\'', '"', '*', '1', 0x416, '/'})
				s := sb.String()
				if c == '/' && strings.HasSuffix(s, "*") {
					c = ' '
				}
				sb.WriteRune(c)
			}
			if strings.HasSuffix(sb.String(), "/*") || strings.HasSuffix(sb.String(), "*") && len(sb.String()) == 3 {
				sb.WriteString(" ")
			}
			sb.WriteString("*/")
		}
	}
	return sb.String()
}

func genC13(g *Gen) {
	r := g.Rand()
	for _, kind := range []string{"generic", "expression", "expression-custom"} {
		pool := c13pool(kind)
		// (1) all sequences of <= 3 lexemes over one representative per class plus EVERY multi-character symbol and keyword spelling
		var reps []lexeme
		for _, cls := range c13classes {
			ps := pool[cls]
			if len(ps) == 0 {
				continue
			}
			switch cls {
			case "symbol", "keyword":
				for _, p := range ps {
					if cls == "keyword" || len(p) > 1 || strings.ContainsAny(p, "<>=!-./") {
						reps = append(reps, lexeme{cls, p})
					}
				}
			default:
				reps = append(reps, lexeme{cls, ps[0]})
				if len(ps) > 1 && cls != "ws" {
					reps = append(reps, lexeme{cls, ps[1]})
				}
			}
		}
		depth := 3
		for _, a := range reps {
			c13emit(g, "all sequences<=3 over representatives:"+kind, kind, c13join(kind, []lexeme{a}, nil))
			for _, b := range reps {
				c13emit(g, "all sequences<=3 over representatives:"+kind, kind, c13join(kind, []lexeme{a, b}, nil))
				if depth >= 3 && (g.Thorough() || r.Intn(3) == 0) {
					for _, c := range reps {
						c13emit(g, "all sequences<=3 over representatives:"+kind, kind, c13join(kind, []lexeme{a, b, c}, nil))
					}
				}
			}
		}
		// (1b) every rare lexeme before and after every lexeme of the pools
		rare := c13rare(kind)
		var all, rares []lexeme
		for _, cls := range c13classes {
			for _, p := range pool[cls] {
				all = append(all, lexeme{cls, p})
			}
			for _, p := range rare[cls] {
				all = append(all, lexeme{cls, p})
				rares = append(rares, lexeme{cls, p})
			}
		}
		for _, a := range rares {
			c13emit(g, "rare lexemes x all lexemes:"+kind, kind, c13join(kind, []lexeme{a}, nil))
			for _, b := range all {
				c13emit(g, "rare lexemes x all lexemes:"+kind, kind, c13join(kind, []lexeme{a, b}, nil))
				c13emit(g, "rare lexemes x all lexemes:"+kind, kind, c13join(kind, []lexeme{b, a}, nil))
			}
		}
		// long sequences
		for i := 0; i < g.Pick(6, 40); i++ {
			var seq []lexeme
			for k := []int{64, 129, 257, 600}[i%4]; k > 0; k-- {
				seq = append(seq, all[r.Intn(len(all))])
			}
			c13emit(g, "long sequences:"+kind, kind, c13join(kind, seq, r))
		}
		// (2) random sequences of any length with pool and random payloads
		n := g.Pick(3000, 80000)
		for i := 0; i < n; i++ {
			var seq []lexeme
			for k := 1 + r.Intn(30); k > 0; k-- {
				cls := c13classes[r.Intn(len(c13classes))]
				ps := pool[cls]
				if len(ps) == 0 {
					continue
				}
				txt := ps[r.Intn(len(ps))]
				if r.Intn(2) == 0 && cls != "symbol" && cls != "keyword" && cls != "ws" && cls != "special" {
					txt = randomPayload(kind, cls, r)
				}
				seq = append(seq, lexeme{cls, txt})
			}
			if len(seq) == 0 {
				continue
			}
			c13emit(g, "random sequences:"+kind, kind, c13join(kind, seq, r))
		}
	}
}
