package main

import (
	"bufio"
	"bytes"
	"crypto/sha1"
	"encoding/hex"
	"encoding/json"
	"fmt"
	"github.com/pip-services3-gox/pip-services3-expressions-gox/calculator/functions"
	"math/rand"
	"os"
	"path/filepath"
	"runtime"
	"sort"
	"strings"
)

// Ev is one recorded event (one NDJSON line).
type Ev = map[string]any

// Gen is handed to generators.
type Gen struct {
	Tier string
	Seed int64
	Part string
	w    *Writer
	p    *Prop
	rnd  *rand.Rand
}

func (g *Gen) Thorough() bool { return g.Tier == "thorough" }

// Rand returns the seeded source.
func (g *Gen) Rand() *rand.Rand {
	if g.rnd == nil {
		g.rnd = rand.New(rand.NewSource(g.Seed*7919 + 17))
	}
	return g.rnd
}

// Run executes an input segment on the real code and records it. gen names the generator (for the evidence).
func (g *Gen) Run(gen string, seg []Ev) {
	prev := heldAcross
	heldAcross = nil
	holdBudget = 3
	out, crash := safeExec(g.p, seg)
	if crash != "" {
		g.w.crash(seg, crash)
		return
	}
	// what the previous segment handed out / kept alive, looked at again now that this segment's instances were created and used
	if _, own := out0(out)["held_what"]; len(out) > 0 && !own {
		for _, h := range prev {
			if now := h.render(); now != h.then {
				out[0]["held_what"], out[0]["held_then"], out[0]["held_now"] = h.what, short(h.then), short(now)
				break
			}
		}
		if _, bad := out[0]["held_what"]; !bad && len(prev) > 0 {
			out[0]["held_what"], out[0]["held_then"], out[0]["held_now"] = prev[0].what, short(prev[0].then), short(prev[0].then)
		}
	}
	if len(out) == 0 {
		g.w.extra["not_executed_after_hangs"] = toInt(orZero(g.w.extra["not_executed_after_hangs"])) + 1
		return
	}
	g.w.gens[gen]++
	g.w.Put(out)
}

func out0(out []Ev) Ev {
	if len(out) == 0 {
		return Ev{}
	}
	return out[0]
}

// ---- held observations (spec/Held.tla) ----
// hold registers something the current segment produced or keeps alive; it is rendered again after the NEXT segment has
// run (other instances created, configured, used) and both renderings go into that segment's first event.
type heldObs struct {
	what, then string
	now        func() string
}

func (h heldObs) render() (s string) {
	defer func() {
		if r := recover(); r != nil {
			s = "panic: " + fmt.Sprint(r)
		}
	}()
	return h.now()
}

var heldAcross []heldObs
var holdBudget = 3

func hold(what string, now func() string) {
	if holdBudget <= 0 {
		return
	}
	holdBudget--
	h := heldObs{what: what, now: now}
	h.then = string([]byte(h.render())) // a copy of its own: the library may hand out text that shares storage
	heldAcross = append(heldAcross, h)
}

// the names of the default functions, read once before any case runs (a generator must not depend on what earlier cases did
// to the library's tables)
var defaultFnNames = func() []string {
	var ns []string
	for _, f := range functions.NewDefaultFunctionCollection().GetAll() {
		ns = append(ns, f.Name())
	}
	return ns
}()

// cl copies a text the library handed out (it may share storage that later calls overwrite)
func cl(s string) string { return string([]byte(s)) }

// short: a rendering cut to a readable length plus a digest of the whole
func short(s string) string {
	if len(s) <= 160 {
		return s
	}
	sum := sha1.Sum([]byte(s))
	return s[:120] + "...#" + hex.EncodeToString(sum[:6])
}

// keeper: the same within one segment - results of earlier steps checked at every later step
type keeper struct{ items []heldObs }

func (k *keeper) keep(what string, now func() string) {
	if len(k.items) >= 6 {
		k.items = k.items[1:]
	}
	h := heldObs{what: what, now: now}
	h.then = string([]byte(h.render()))
	k.items = append(k.items, h)
}

// check writes the first changed item (or the first item, unchanged) into e
func (k *keeper) check(e Ev) {
	if len(k.items) == 0 {
		return
	}
	for _, h := range k.items {
		if now := h.render(); now != h.then {
			e["held_what"], e["held_then"], e["held_now"] = h.what, short(h.then), short(now)
			return
		}
	}
	e["held_what"], e["held_then"], e["held_now"] = k.items[0].what, short(k.items[0].then), short(k.items[0].then)
}

// WithRandomSizes: the listed sizes plus n seeded random ones in lo..hi (a threshold may sit anywhere; different seeds try different sizes)
func (g *Gen) WithRandomSizes(base []int, n, lo, hi int) []int {
	r := g.Rand()
	out := append([]int{}, base...)
	for i := 0; i < n; i++ {
		out = append(out, lo+r.Intn(hi-lo+1))
	}
	return out
}

// Pick returns quick or thorough value.
func (g *Gen) Pick(quick, thorough int) int {
	if g.Thorough() {
		return thorough
	}
	return quick
}

// safeExec runs the executor; a panic that escapes it (the library crashed outside a call the executor guards)
// is reported as a crash of this case instead of killing the driver.
func safeExec(p *Prop, seg []Ev) (out []Ev, crash string) {
	defer func() {
		if r := recover(); r != nil {
			buf := make([]byte, 1<<14)
			n := runtime.Stack(buf, false)
			crash = fmt.Sprint(r) + "\n" + string(buf[:n])
			out = nil
		}
	}()
	return p.Exec(seg), ""
}

func (w *Writer) crash(seg []Ev, text string) {
	if len(w.crashes) < 20 {
		w.crashes = append(w.crashes, Ev{"seg": seg, "panic": text, "in_library": strings.Contains(text, "pip-services3-expressions-gox/")})
	}
	w.ncrash++
}

// noNulls re-encodes a JSON document with every null replaced by an empty list.
func noNulls(b []byte) []byte {
	var v any
	dec := json.NewDecoder(bytes.NewReader(b))
	dec.UseNumber()
	if err := dec.Decode(&v); err != nil {
		return b
	}
	var fix func(x any) any
	fix = func(x any) any {
		switch t := x.(type) {
		case nil:
			return []any{}
		case map[string]any:
			for k, e := range t {
				t[k] = fix(e)
			}
		case []any:
			for i, e := range t {
				t[i] = fix(e)
			}
		}
		return x
	}
	out, err := json.Marshal(fix(v))
	if err != nil {
		return b
	}
	return out
}

const chunkLines = 30000

// Writer writes segments into chunked NDJSON files and meta.json.
type Writer struct {
	dir      string
	p        *Prop
	chunk    int
	lines    int
	f        *os.File
	bw       *bufio.Writer
	seg      int
	events   int
	nontriv  map[string]struct{}
	samples  [][]Ev
	gens     map[string]int
	perChunk []int
	extra    map[string]any
	crashes  []Ev
	ncrash   int
}

func NewWriter(dir string, p *Prop) *Writer {
	os.MkdirAll(dir, 0o755)
	return &Writer{dir: dir, p: p, nontriv: map[string]struct{}{}, gens: map[string]int{}, extra: map[string]any{}}
}

func (w *Writer) open() {
	w.chunk++
	name := filepath.Join(w.dir, fmt.Sprintf("trace-%03d.ndjson", w.chunk))
	f, err := os.Create(name)
	if err != nil {
		panic(err)
	}
	w.f = f
	w.bw = bufio.NewWriterSize(f, 1<<20)
	w.lines = 0
}

func (w *Writer) closeChunk() {
	if w.f != nil {
		w.bw.Flush()
		w.f.Close()
		w.perChunk = append(w.perChunk, w.lines)
		w.f = nil
	}
}

// Put writes one executed segment.
func (w *Writer) Put(seg []Ev) {
	if len(seg) == 0 {
		return
	}
	if w.f == nil || w.lines+len(seg) > chunkLines {
		w.closeChunk()
		w.open()
	}
	w.seg++
	for _, e := range seg {
		e["seg"] = w.seg
		b, err := json.Marshal(e)
		if err != nil {
			panic(err)
		}
		if bytes.Contains(b, []byte("null")) {
			b = noNulls(b) // the Json module of TLC has no null: nil slices are written as empty lists
		}
		w.bw.Write(b)
		w.bw.WriteByte('\n')
		w.lines++
		w.events++
	}
	if w.p.NonTrivial != nil {
		if k := w.p.NonTrivial(seg); k != "" {
			h := sha1.Sum([]byte(k))
			w.nontriv[hex.EncodeToString(h[:8])] = struct{}{}
		}
	}
	if len(w.samples) < 3 || (w.seg%997 == 0 && len(w.samples) < 8) {
		w.samples = append(w.samples, seg)
	}
}

func (w *Writer) Close() {
	w.closeChunk()
	gens := map[string]int{}
	for k, v := range w.gens {
		gens[k] = v
	}
	meta := map[string]any{
		"segments":            w.seg,
		"events":              w.events,
		"distinct_nontrivial": len(w.nontriv),
		"rule":                w.p.Rule,
		"samples":             w.samples,
		"generators":          gens,
		"chunks":              w.perChunk,
		"extra":               w.extra,
		"crashes":             w.crashes,
		"crash_count":         w.ncrash,
	}
	b, _ := json.MarshalIndent(meta, "", " ")
	os.WriteFile(filepath.Join(w.dir, "meta.json"), b, 0o644)
}

func readSegment(path string) []Ev {
	f, err := os.Open(path)
	if err != nil {
		panic(err)
	}
	defer f.Close()
	var seg []Ev
	sc := bufio.NewScanner(f)
	sc.Buffer(make([]byte, 1<<20), 1<<28)
	for sc.Scan() {
		line := strings.TrimSpace(sc.Text())
		if line == "" || strings.HasPrefix(line, "#") {
			continue
		}
		var e Ev
		dec := json.NewDecoder(strings.NewReader(line))
		dec.UseNumber()
		if err := dec.Decode(&e); err != nil {
			panic(err)
		}
		seg = append(seg, e)
	}
	return seg
}

// stripObs removes recorded observations so that Exec starts from inputs only.
func stripObs(seg []Ev) []Ev {
	out := make([]Ev, len(seg))
	for i, e := range seg {
		n := Ev{}
		for k, v := range e {
			if k == "obs" || k == "seg" {
				continue
			}
			n[k] = v
		}
		out[i] = n
	}
	return out
}

// ---- helpers for JSON-decoded inputs (replay) and native inputs (generation) ----

func toInt(v any) int {
	switch x := v.(type) {
	case int:
		return x
	case int64:
		return int(x)
	case int32:
		return int(x)
	case float64:
		return int(x)
	case json.Number:
		n, _ := x.Int64()
		return int(n)
	}
	panic(fmt.Sprintf("toInt: %T", v))
}

func toStr(v any) string { return v.(string) }

func toBool(v any) bool { return v.(bool) }

// toRunes converts an array of code points (native []int / []rune or decoded []any) to runes.
func toRunes(v any) []rune {
	switch x := v.(type) {
	case []rune:
		return x
	case []int:
		r := make([]rune, len(x))
		for i, c := range x {
			r[i] = rune(c)
		}
		return r
	case []any:
		r := make([]rune, len(x))
		for i, c := range x {
			r[i] = rune(toInt(c))
		}
		return r
	case nil:
		return nil
	}
	panic(fmt.Sprintf("toRunes: %T", v))
}

func toList(v any) []any {
	switch x := v.(type) {
	case []any:
		return x
	case []int:
		out := make([]any, len(x))
		for i, c := range x {
			out[i] = c
		}
		return out
	case []string:
		out := make([]any, len(x))
		for i, c := range x {
			out[i] = c
		}
		return out
	case nil:
		return nil
	}
	panic(fmt.Sprintf("toList: %T", v))
}

// cps renders text as an array of code points (never null).
func cps(s string) []int {
	r := []rune(s)
	out := make([]int, len(r))
	for i, c := range r {
		out[i] = int(c)
	}
	return out
}

func cpsR(r []rune) []int {
	out := make([]int, len(r))
	for i, c := range r {
		out[i] = int(c)
	}
	return out
}

func sortedKeys(m map[string]int) []string {
	ks := make([]string, 0, len(m))
	for k := range m {
		ks = append(ks, k)
	}
	sort.Strings(ks)
	return ks
}

// allStrings enumerates all sequences over alphabet with length 0..maxLen.
func allStrings(alphabet []rune, maxLen int, f func([]rune)) {
	var rec func(cur []rune)
	rec = func(cur []rune) {
		c := make([]rune, len(cur))
		copy(c, cur)
		f(c)
		if len(cur) == maxLen {
			return
		}
		for _, a := range alphabet {
			rec(append(cur, a))
		}
	}
	rec(nil)
}

func orFalse(v any) any {
	if v == nil {
		return false
	}
	return v
}

func orZero(v any) any {
	if v == nil {
		return 0
	}
	return v
}

func newRand(seed int64) *rand.Rand { return rand.New(rand.NewSource(seed*104729 + 7)) }

func orEmpty(v any) any {
	if v == nil {
		return ""
	}
	return v
}
