package main

import (
	"fmt"
	"math/rand"
	"sort"
	"strings"

	"github.com/pip-services3-gox/pip-services3-expressions-gox/mustache"
	mparsers "github.com/pip-services3-gox/pip-services3-expressions-gox/mustache/parsers"
)

// C10: mustache rendering equals the reference semantics; malformed input is rejected.
// (The same events serve the template clauses of C18.)

type mlex struct {
	kind string
	text string
}

func (l mlex) json() []any {
	key := []int{}
	if l.kind == "word" || l.kind == "text" {
		key = cps(strings.ToLower(l.text))
	}
	return []any{l.kind, cps(l.text), key}
}

func isWordish(l mlex) bool { return l.kind == "word" || l.kind == "text" }

// normalize inserts whitespace where two neighbouring lexemes would be read as one (or differently) by a lexer:
// two word-like lexemes, and brace lexemes that would merge.
func mnormalize(in []mlex) []mlex {
	var out []mlex
	for _, l := range in {
		if len(out) > 0 {
			p := out[len(out)-1]
			pl := p.text[len(p.text)-1]
			c := l.text[0]
			if (isWordish(p) && isWordish(l)) || (pl == '{' && c == '{') || (pl == '}' && c == '}') {
				out = append(out, mlex{"ws", " "})
			}
		}
		out = append(out, l)
	}
	// the engine trims the template: drop leading / trailing whitespace lexemes
	for len(out) > 0 && out[0].kind == "ws" {
		out = out[1:]
	}
	for len(out) > 0 && out[len(out)-1].kind == "ws" {
		out = out[:len(out)-1]
	}
	return out
}

func lexFromEv(v any) []mlex {
	var out []mlex
	for _, x := range toList(v) {
		switch t := x.(type) {
		case []any:
			out = append(out, mlex{toStr(t[0]), string(toRunes(t[1]))})
		}
	}
	return out
}

func execC10(seg []Ev) []Ev {
	out := make([]Ev, 0, len(seg))
	for _, in := range seg {
		lx := lexFromEv(in["lex"])
		var sb strings.Builder
		lj := make([]any, len(lx))
		for i, l := range lx {
			sb.WriteString(l.text)
			lj[i] = l.json()
		}
		text := sb.String()
		e := Ev{"op": "tmpl", "lex": lj, "wellformed": toBool(in["wellformed"])}
		// variable map: [[key cps, value cps]] with folded keys; the real map spells keys in some letter case
		vars := map[string]string{}
		var vj []any
		seedCase := toInt(in["caseseed"])
		e["caseseed"] = seedCase
		r := rand.New(rand.NewSource(int64(seedCase)))
		// valbytes: the VALUES are given byte by byte (texts that are not well-formed UTF-8); the template itself is ASCII, so the
		// rendering is compared byte by byte as well (the reference semantics works on sequences of numbers either way)
		valbytes, _ := in["valbytes"].(bool)
		if valbytes {
			e["valbytes"] = true
		}
		bytesOf := func(s string) []int {
			o := make([]int, len(s))
			for i := 0; i < len(s); i++ {
				o[i] = int(s[i])
			}
			return o
		}
		for _, p := range toList(in["vars"]) {
			pp := p.([]any)
			k, v := string(toRunes(pp[0])), string(toRunes(pp[1]))
			if valbytes {
				bs := toList(pp[1])
				b := make([]byte, len(bs))
				for j, x := range bs {
					b[j] = byte(toInt(x))
				}
				v = string(b)
				vj = append(vj, []any{cps(k), bytesOf(v)})
			} else {
				vj = append(vj, []any{cps(k), cps(v)})
			}
			spelled := k
			switch r.Intn(3) {
			case 0:
				spelled = strings.ToUpper(k)
			case 1:
				spelled = strings.Title(k)
			}
			if strings.ToLower(spelled) != k {
				spelled = k
			}
			vars[spelled] = v
		}
		if vj == nil {
			vj = []any{}
		}
		e["vars"] = vj
		t := mustache.NewMustacheTemplate()
		// C18: entries that are already in the default variables (some spelled in another letter case, some empty)
		predef := []any{}
		if pl := toList(in["predef"]); len(pl) > 0 {
			m := map[string]string{}
			for _, x := range pl {
				xx := toList(x)
				m[string(toRunes(xx[0]))] = string(toRunes(xx[1]))
				predef = append(predef, []any{cps(string(toRunes(xx[0]))), cps(string(toRunes(xx[1])))})
			}
			t.SetDefaultVariables(m)
		}
		e["predef"] = predef
		pk := []any{}
		for _, x := range predef {
			pk = append(pk, cps(strings.ToLower(string(toRunes(x.([]any)[0])))))
		}
		e["predefkeys"] = pk
		var err error
		var res string
		e["code"], e["eval"], e["out"] = "", "none", []int{}
		e["names"], e["auto"] = []any{}, []any{}
		oc, det := guarded(func() { err = t.SetTemplate(text) })
		// the same text set once more on the same object gets the same verdict (whatever the first attempt left behind)
		{
			var err2 error
			oc2, _ := guarded(func() { err2 = t.SetTemplate(text) })
			switch {
			case oc2 != "ok":
				e["set2"] = "panic"
			case err2 != nil:
				e["set2"] = "error"
			default:
				e["set2"] = "ok"
			}
		}
		switch {
		case oc != "ok":
			e["set"] = "panic"
			e["detail"] = det
		case err != nil:
			e["set"] = "error"
			e["code"] = errCode(err)
		default:
			e["set"] = "ok"
			// C18: automatic variables as created by SetTemplate (observed before the defaults are overwritten below)
			autoKeys := []string{}
			for k := range t.DefaultVariables() {
				autoKeys = append(autoKeys, strings.ToLower(k))
			}
			// the default variables hold sentinel values: a rendering under an explicit map (even an empty one) must not see them
			for k := range t.DefaultVariables() {
				t.DefaultVariables()[k] = "<default>"
			}
			// the same map object was rendered before with other values (changed back in place): a rendering reads the map as it is now
			for k, v := range vars {
				vars[k] = v + "~"
			}
			guarded(func() { t.EvaluateWithVariables(vars) })
			for k, v := range vars {
				vars[k] = strings.TrimSuffix(v, "~")
			}
			oc, det = guarded(func() { res, err = t.EvaluateWithVariables(vars) })
			switch {
			case oc != "ok":
				e["eval"] = "panic"
				e["detail"] = det
			case err != nil:
				e["eval"] = "error"
				e["code"] = errCode(err)
			default:
				e["eval"] = "ok"
				e["out"] = cps(res)
				if valbytes {
					e["out"] = bytesOf(res)
				}
			}
			// C18: reported names and automatic variables
			p := mparsers.NewMustacheParser()
			if oc2, _ := guarded(func() { err = p.SetTemplate(text) }); oc2 == "ok" && err == nil {
				var nj []any
				for _, n := range p.VariableNames() {
					nj = append(nj, []any{cps(n), cps(strings.ToLower(n))})
				}
				if nj != nil {
					e["names"] = nj
				}
			}
			// C18: a parser that parsed another template before (and, every other time, was cleared since) reports the names of THIS one
			rp := mparsers.NewMustacheParser()
			guarded(func() { rp.SetTemplate("{{zq}}{{#zw}}x{{/zw}}{{{ZQ2}}}") })
			if len(text)%2 == 1 {
				guarded(func() { rp.Clear() })
			}
			if oc3, _ := guarded(func() { err = rp.SetTemplate(text) }); oc3 == "ok" && err == nil {
				nj := []any{}
				for _, n := range rp.VariableNames() {
					nj = append(nj, []any{cps(n), cps(strings.ToLower(n))})
				}
				e["names_reused"] = nj
			}
			var aj []any
			keys := autoKeys
			sort.Strings(keys)
			for _, k := range keys {
				aj = append(aj, cps(k))
			}
			if aj != nil {
				e["auto"] = aj
			}
		}
		out = append(out, e)
	}
	return out
}

// ---- generators ----
type mnode struct {
	kind string // text var esc comment section inverted
	text string // text / name / comment words
	kids []*mnode
}

type mgen struct {
	r *rand.Rand
}

var mNames = []string{"first-name", "is-vip", "x-1-y", "a", "B", "name", "Item_1", "été", "x9", "if_", "unlessX", "Ж", "\u212aelvin", "\u2c65b", "\u0130x", "\u017ft"}
var mTexts = []string{"x", "Hello, ", " and ", "!", "a{b", "c}d", "{ x", "y }", "\n", "q\"r/\\", "'it's'", "# not a tag ^ /", "日本語 ", "}} stray"}
var mValues = []string{"", "v", "\b", "a\fb", "\t", "/", "\\", "\"", "q\"/\n", "back\\slash\ttab\r\b\f", "<b>&amp;</b>", "Ünï", "{{x}}", " "}

func (g *mgen) node(d int) *mnode {
	r := g.r
	switch x := r.Intn(10); {
	case d <= 0 || x < 3:
		return &mnode{kind: "text", text: mTexts[r.Intn(len(mTexts))]}
	case x < 5:
		return &mnode{kind: []string{"var", "esc"}[r.Intn(2)], text: mNames[r.Intn(len(mNames))]}
	case x < 6:
		return &mnode{kind: "comment", text: []string{"", "c", "a comment # here", "if x"}[r.Intn(4)]}
	default:
		n := &mnode{kind: []string{"section", "inverted"}[r.Intn(2)], text: mNames[r.Intn(len(mNames))]}
		for k := r.Intn(4); k > 0; k-- {
			n.kids = append(n.kids, g.node(d-1))
		}
		return n
	}
}

func (g *mgen) print(ns []*mnode, out *[]mlex) {
	r := g.r
	sp := func() {
		if r.Intn(3) == 0 {
			*out = append(*out, mlex{"ws", []string{" ", "  ", " \t"}[r.Intn(3)]})
		}
	}
	name := func(n string) mlex {
		if r.Intn(4) == 0 {
			return mlex{"word", strings.ToUpper(n)}
		}
		return mlex{"word", n}
	}
	open := func() (string, string) {
		if r.Intn(3) == 0 {
			return "{{{", "}}}"
		}
		return "{{", "}}"
	}
	for _, n := range ns {
		switch n.kind {
		case "text":
			// adjacent texts merge into one literal; keep them apart from braces that would merge
			*out = append(*out, mlex{"text", n.text})
		case "var":
			*out = append(*out, mlex{"{{", "{{"})
			sp()
			*out = append(*out, name(n.text))
			sp()
			*out = append(*out, mlex{"}}", "}}"})
		case "esc":
			*out = append(*out, mlex{"{{{", "{{{"})
			sp()
			*out = append(*out, name(n.text))
			sp()
			*out = append(*out, mlex{"}}}", "}}}"})
		case "comment":
			*out = append(*out, mlex{"{{", "{{"})
			sp()
			*out = append(*out, mlex{"!", "!"})
			for _, w := range strings.Fields(n.text) {
				*out = append(*out, mlex{"ws", " "})
				if w == "#" {
					*out = append(*out, mlex{"#", "#"})
				} else {
					*out = append(*out, mlex{"word", w})
				}
			}
			sp()
			*out = append(*out, mlex{"}}", "}}"})
		default:
			o, c := open()
			*out = append(*out, mlex{o, o})
			sp()
			how := r.Intn(2)
			if n.kind == "section" {
				*out = append(*out, mlex{"#", "#"})
				if how == 0 {
					*out = append(*out, mlex{"word", "if"}, mlex{"ws", " "})
				}
			} else if how == 0 {
				*out = append(*out, mlex{"#", "#"}, mlex{"word", "unless"}, mlex{"ws", " "})
			} else {
				*out = append(*out, mlex{"^", "^"})
			}
			nm := name(n.text)
			*out = append(*out, nm)
			sp()
			*out = append(*out, mlex{c, c})
			g.print(n.kids, out)
			o, c = open()
			*out = append(*out, mlex{o, o})
			sp()
			*out = append(*out, mlex{"/", "/"})
			switch r.Intn(3) {
			case 0:
				*out = append(*out, nm) // closed by exactly the spelling it was opened with
			case 1:
				*out = append(*out, mlex{"word", "if"})
			default:
				*out = append(*out, mlex{"word", "unless"})
			}
			sp()
			*out = append(*out, mlex{c, c})
		}
	}
}

// fixText keeps literal text from merging with neighbouring braces or being trimmed away
func fixTexts(lx []mlex) []mlex {
	var out []mlex
	for i, l := range lx {
		if l.kind == "text" {
			t := l.text
			if i == 0 || (len(out) > 0 && out[len(out)-1].kind == "text") {
				// merged with previous text below
			}
			if strings.HasPrefix(t, "}") && i > 0 {
				t = "." + t
			}
			if strings.HasSuffix(t, "{") {
				t = t + "."
			}
			if len(out) > 0 && out[len(out)-1].kind == "text" {
				out[len(out)-1].text += t
				continue
			}
			l.text = t
		}
		out = append(out, l)
	}
	if len(out) > 0 && out[0].kind == "text" {
		out[0].text = "[" + strings.TrimLeft(out[0].text, " \t\r\n")
	}
	if n := len(out); n > 0 && out[n-1].kind == "text" {
		out[n-1].text = strings.TrimRight(out[n-1].text, " \t\r\n") + "]"
	}
	return out
}

func (g *mgen) vars() []any {
	r := g.r
	var out []any
	seen := map[string]bool{}
	for _, n := range mNames {
		k := strings.ToLower(n)
		if seen[k] || r.Intn(3) == 0 {
			continue
		}
		seen[k] = true
		out = append(out, []any{cps(k), cps(mValues[r.Intn(len(mValues))])})
	}
	if out == nil {
		out = []any{}
	}
	return out
}

func init() {
	nt := func(seg []Ev) string {
		e := seg[0]
		n := 0
		for _, l := range e["lex"].([]any) {
			k := l.([]any)[0].(string)
			if k == "{{" || k == "{{{" {
				n++
			}
		}
		if n >= 2 {
			return fmt.Sprint(e["lex"], e["vars"])
		}
		return ""
	}
	rule := "one event per (template as lexeme sequence, variable map); non-trivial = distinct case with at least two tags"
	props["C10"] = &Prop{Generate: genC10, Exec: execC10, Rule: rule, NonTrivial: nt}
}

func lexAny(lx []mlex) []any {
	out := make([]any, len(lx))
	for i, l := range lx {
		out[i] = l.json()
	}
	return out
}

func genC10(g *Gen) {
	r := g.Rand()
	mg := &mgen{r: r}
	// (1) random well-formed templates of any depth x random variable maps
	n := g.Pick(4000, 80000)
	for i := 0; i < n; i++ {
		var ns []*mnode
		for k := 1 + r.Intn(5); k > 0; k-- {
			ns = append(ns, mg.node(1+r.Intn(4)))
		}
		var lx []mlex
		mg.print(ns, &lx)
		lx = fixTexts(lx)
		g.Run("random well-formed templates", []Ev{{"op": "tmpl", "lex": lexAny(lx), "vars": mg.vars(), "wellformed": true, "caseseed": int(r.Int31())}})
	}
	// (1b) values that are not well-formed UTF-8 (Latin-1 text, truncated sequences, a byte-order mark, binary data) pass through a
	// variable unchanged and through an escaped variable with only the eight escapes applied - byte for byte
	for _, val := range [][]int{{0x63, 0x61, 0x66, 0xe9}, {0xff}, {0xc3}, {0xe2, 0x82}, {0xff, 0xfe, 0x41, 0x00}, {0x22, 0xff, 0x5c, 0x0a, 0xc3, 0x28}, {0xf0, 0x9f, 0x98}, {0x61, 0x80, 0x62},
		{0x2f, 0xe9, 0x09, 0xe9}, {0xc3, 0xa9}, {0x08, 0x0c, 0xfe}} {
		lx := []mlex{{"text", "v="}, {"{{{", "{{{"}, {"word", "v"}, {"}}}", "}}}"}, {"text", ";"}, {"{{", "{{"}, {"word", "v"}, {"}}", "}}"},
			{"{{", "{{"}, {"#", "#"}, {"word", "v"}, {"}}", "}}"}, {"text", "y"}, {"{{{", "{{{"}, {"word", "V"}, {"}}}", "}}}"}, {"{{", "{{"}, {"/", "/"}, {"word", "v"}, {"}}", "}}"}}
		g.Run("values that are not well-formed UTF-8", []Ev{{"op": "tmpl", "lex": lexAny(lx), "vars": []any{[]any{cps("v"), val}}, "wellformed": true, "caseseed": 1, "valbytes": true}})
	}
	// (2) every small template: up to 3 top-level nodes, sections with up to 2 children, over names {a,B}, x variable maps
	small := []*mnode{{kind: "text", text: "x"}, {kind: "text", text: " "}, {kind: "var", text: "a"}, {kind: "esc", text: "B"}, {kind: "comment", text: "c"}}
	var sect []*mnode
	for _, k := range []string{"section", "inverted"} {
		for _, nm := range []string{"a", "B"} {
			sect = append(sect, &mnode{kind: k, text: nm})
			for _, c1 := range small {
				sect = append(sect, &mnode{kind: k, text: nm, kids: []*mnode{c1}})
				for _, c2 := range small[:3] {
					sect = append(sect, &mnode{kind: k, text: nm, kids: []*mnode{c1, c2}})
				}
			}
		}
	}
	all := append(append([]*mnode{}, small...), sect...)
	maps := [][]any{{}, {[]any{cps("a"), cps("v")}}, {[]any{cps("a"), cps("")}, []any{cps("b"), cps("q\"/\n")}}, {[]any{cps("b"), cps("w")}}}
	emitSmall := func(ns []*mnode) {
		var lx []mlex
		mg.print(ns, &lx)
		lx = fixTexts(lx)
		for _, m := range maps {
			g.Run("all small templates x variable maps", []Ev{{"op": "tmpl", "lex": lexAny(lx), "vars": m, "wellformed": true, "caseseed": int(r.Int31())}})
		}
	}
	for _, n1 := range all {
		emitSmall([]*mnode{n1})
		for _, n2 := range all {
			if g.Thorough() || r.Intn(6) == 0 {
				emitSmall([]*mnode{n1, n2})
			}
		}
	}
	// nested sections to depth 3
	for _, s1 := range sect[:8] {
		for _, s2 := range sect {
			if g.Thorough() || r.Intn(4) == 0 {
				emitSmall([]*mnode{{kind: s1.kind, text: s1.text, kids: []*mnode{{kind: "text", text: "x"}, {kind: s2.kind, text: s2.text, kids: s2.kids}, {kind: "var", text: "a"}}}})
			}
		}
	}
	// (2b) scale and rare characters: long literal text, deep nesting, many nodes; text that begins / ends with unusual
	// white space or rare code points at the edges of the template (only blank, tab, CR and LF are trimmed there)
	tag := func(ls ...string) []mlex {
		var o []mlex
		for _, l := range ls {
			switch l {
			case "{{", "}}", "{{{", "}}}", "#", "^", "/", "!":
				o = append(o, mlex{l, l})
			case " ":
				o = append(o, mlex{"ws", " "})
			default:
				o = append(o, mlex{"word", l})
			}
		}
		return o
	}
	mp := []any{[]any{cps("a"), cps("v")}, []any{cps("b"), cps("")}}
	run2 := func(gen string, lx []mlex) {
		g.Run(gen, []Ev{{"op": "tmpl", "lex": lexAny(lx), "vars": mp, "wellformed": true, "caseseed": int(r.Int31())}})
	}
	for _, sz := range g.WithRandomSizes([]int{63, 64, 65, 127, 128, 129, 130, 200, 255, 256, 257, 300, 1000, 1025, 4097}, g.Pick(5, 40), 3, g.Pick(300, 5000)) {
		if sz > g.Pick(300, 5000) {
			continue
		}
		for _, unit := range []string{"x", "ab ", "é", "{ ", "}\n", "日本", "\U0001f600"} {
			long := "." + string([]rune(strings.Repeat(unit, sz))[:sz-2]) + "." // never a brace next to a tag
			run2("long literal text", []mlex{{"text", long}})
			run2("long literal text", append(append([]mlex{{"text", long}}, tag("{{", "a", "}}")...), mlex{"text", long}))
			run2("long literal text", append(append(tag("{{", "#", "a", "}}"), mlex{"text", long}), tag("{{", "/", "a", "}}")...))
			run2("long literal text", append(append(tag("{{", "^", "b", "}}", "{{", "a", "}}"), mlex{"text", long}), tag("{{{", "a", "}}}", "{{", "/", "b", "}}")...))
		}
		var deep, flat []mlex
		for i := 0; i < sz && sz <= 1100; i++ {
			deep = append(deep, tag("{{", []string{"#", "^"}[i%2], []string{"a", "b"}[i%2], "}}")...)
			flat = append(flat, tag("{{", "a", "}}")...)
			flat = append(flat, mlex{"text", "-"})
		}
		deep = append(deep, mlex{"text", "x"})
		for i := sz - 1; i >= 0 && sz <= 1100; i-- {
			deep = append(deep, tag("{{", "/", []string{"if", "unless", []string{"a", "b"}[i%2]}[i%3], "}}")...)
		}
		if sz <= 1100 {
			deep2 := append([]mlex{}, deep...)
			for i := range deep2 {
				if deep2[i].kind == "word" && deep2[i].text == "a" && sz%3 != 0 {
					deep2[i].text = "b" // an empty variable somewhere down the nesting
					break
				}
			}
			run2("deep nesting and many nodes", deep)
			run2("deep nesting and many nodes", flat)
			g.Run("deep nesting and many nodes", []Ev{{"op": "tmpl", "lex": lexAny(deep[:len(deep)-4]), "vars": mp, "wellformed": false, "caseseed": 1}})
		}
	}
	for _, c := range rareRunes {
		if c == 0 || c == '{' || c == '}' {
			continue
		}
		cs := string(c)
		run2("rare code points at the edges of the template and of text", []mlex{{"text", cs + "x" + cs}})
		run2("rare code points at the edges of the template and of text", append(append([]mlex{{"text", cs + "x"}}, tag("{{", "a", "}}")...), mlex{"text", "y" + cs}))
		run2("rare code points at the edges of the template and of text", append(append(tag("{{", "a", "}}"), mlex{"text", cs}), tag("{{", "a", "}}")...))
		run2("rare code points at the edges of the template and of text", append(append(tag("{{", "#", "a", "}}"), mlex{"text", cs + " " + cs}), tag("{{", "/", "a", "}}")...))
	}
	for _, ws := range []string{"\v", "\f", "\u0085", "\u00a0", "\u2028", "\u2029", "\u3000", "\u200b", "\ufeff", "\u001f", "\u0001"} {
		run2("unusual white space at the edges of the template", []mlex{{"text", ws + "x" + ws}})
		run2("unusual white space at the edges of the template", append(append([]mlex{{"text", ws}}, tag("{{", "a", "}}")...), mlex{"text", ws}))
		run2("unusual white space at the edges of the template", append([]mlex{{"text", ws + ws}}, tag("{{{", "a", "}}}")...))
	}
	// (3) every lexeme string up to a bound: the accept / reject decision
	alpha := []mlex{{"text", "x"}, {"ws", " "}, {"{{", "{{"}, {"{{{", "{{{"}, {"}}", "}}"}, {"}}}", "}}}"}, {"#", "#"}, {"^", "^"}, {"/", "/"}, {"!", "!"}, {"word", "a"}, {"word", "if"}}
	ln := g.Pick(4, 5)
	var rec func(cur []mlex)
	rec = func(cur []mlex) {
		if len(cur) > 0 {
			lx := mnormalize(cur)
			if len(lx) > 0 {
				g.Run(fmt.Sprintf("all lexeme strings<=%d (accept/reject)", ln), []Ev{{"op": "tmpl", "lex": lexAny(lx), "vars": []any{[]any{cps("a"), cps("v")}}, "wellformed": false, "caseseed": 1}})
			}
		}
		if len(cur) == ln {
			return
		}
		for _, a := range alpha {
			rec(append(append([]mlex{}, cur...), a))
		}
	}
	rec(nil)
	// (3b) names that are spelled like the keywords in another letter case are names ('if' and 'unless' are the keywords; seeded
	//      C10-r8-1): as closers they close only the section of that name, after '#' or '^' they open a section of that name
	for _, kw := range []string{"IF", "If", "iF", "UNLESS", "Unless", "unlesS", "if", "unless"} {
		for _, op := range []string{"#", "^"} {
			for _, br := range [][2]string{{"{{", "}}"}, {"{{{", "}}}"}} {
				for _, shape := range [][]mlex{
					append(append(tag(br[0], op, "a", br[1]), mlex{"text", "x"}), tag(br[0], "/", kw, br[1])...),
					append(append(tag(br[0], op, kw, br[1]), mlex{"text", "x"}), tag(br[0], "/", kw, br[1])...),
					append(append(tag(br[0], op, kw, br[1]), mlex{"text", "x"}), tag(br[0], "/", "a", br[1])...),
					append(append(tag(br[0], op, "if", " ", "a", br[1]), mlex{"text", "x"}), tag(br[0], "/", kw, br[1])...),
					append(append(append(tag(br[0], op, "a", br[1]), tag(br[0], op, "b", br[1])...), tag(br[0], "/", kw, br[1])...), tag(br[0], "/", "a", br[1])...),
				} {
					g.Run("names spelled like keywords in another letter case (accept/reject)", []Ev{{"op": "tmpl", "lex": lexAny(mnormalize(shape)), "vars": []any{[]any{cps("a"), cps("v")}, []any{cps(strings.ToLower(kw)), cps("w")}}, "wellformed": false, "caseseed": 1}})
				}
			}
		}
	}
	// (4) lexeme-level mutations of well-formed templates (delete / duplicate / replace / swap a lexeme)
	m := g.Pick(3000, 60000)
	for i := 0; i < m; i++ {
		var ns []*mnode
		for k := 1 + r.Intn(3); k > 0; k-- {
			ns = append(ns, mg.node(1+r.Intn(3)))
		}
		var lx []mlex
		mg.print(ns, &lx)
		lx = fixTexts(lx)
		for k := 1 + r.Intn(2); k > 0 && len(lx) > 0; k-- {
			j := r.Intn(len(lx))
			switch r.Intn(4) {
			case 0:
				lx = append(lx[:j], lx[j+1:]...)
			case 1:
				lx = append(lx[:j], append([]mlex{lx[j]}, lx[j:]...)...)
			case 2:
				lx[j] = alpha[r.Intn(len(alpha))]
			default:
				q := r.Intn(len(lx))
				lx[j], lx[q] = lx[q], lx[j]
			}
		}
		// mutations may bring braces next to text: only keep cases the lexeme view describes faithfully
		ok := true
		for j, l := range lx {
			if l.kind == "text" {
				// after a mutation a text lexeme may sit inside a tag, where it is read as words and symbols:
				// keep only texts that are a single word there too
				for _, c := range l.text {
					if !(c == '_' || (c >= '0' && c <= '9') || (c >= 'a' && c <= 'z') || (c >= 'A' && c <= 'Z')) {
						ok = false
					}
				}
			}
			_ = j
		}
		if !ok {
			continue
		}
		lx = mnormalize(lx)
		if len(lx) == 0 {
			continue
		}
		g.Run("mutated templates (accept/reject)", []Ev{{"op": "tmpl", "lex": lexAny(lx), "vars": mg.vars(), "wellformed": false, "caseseed": int(r.Int31())}})
	}
}
