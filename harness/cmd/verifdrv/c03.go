package main

import (
	"fmt"
	"github.com/pip-services3-gox/pip-services3-expressions-gox/calculator/variables"
	"strconv"
	"strings"

	"github.com/pip-services3-gox/pip-services3-expressions-gox/calculator"
	"github.com/pip-services3-gox/pip-services3-expressions-gox/calculator/functions"
	"github.com/pip-services3-gox/pip-services3-expressions-gox/calculator/parsers"
	"github.com/pip-services3-gox/pip-services3-expressions-gox/mustache"
	mparsers "github.com/pip-services3-gox/pip-services3-expressions-gox/mustache/parsers"
	"github.com/pip-services3-gox/pip-services3-expressions-gox/tokenizers"
	"github.com/pip-services3-gox/pip-services3-expressions-gox/variants"
)

// C03: untrusted input never crashes the library: a result or an error, always.
func init() {
	props["C03"] = &Prop{
		Generate: genC03,
		Exec:     execC03,
		Rule: "one event per public call (set+evaluate an expression under a variable assignment, set+render a template, tokenize " +
			"under an option set, encode/decode a quoted string, call a function, apply an operator); non-trivial = distinct call " +
			"whose input is not a well-formed sentence evaluated on numbers (malformed text, boundary values, non-ASCII, wrong arity)",
		NonTrivial: func(seg []Ev) string {
			e := seg[0]
			return fmt.Sprint(e["api"], e["input"], e["vars"], e["opts"], e["kind2"], e["toks"])
		},
	}
}

// classification of an evaluating call
func valErr(oc string, gotValue bool, err error) string {
	switch {
	case oc == "hang":
		return "hang"
	case oc != "ok":
		return "panic"
	case gotValue && err != nil:
		return "both"
	case !gotValue && err == nil:
		return "neither"
	case err != nil:
		return "error"
	}
	return "result"
}

func execC03(seg []Ev) []Ev {
	out := make([]Ev, 0, len(seg))
	for _, in := range seg {
		api := toStr(in["api"])
		e := Ev{"op": "call", "api": api}
		for _, k := range []string{"input", "vars", "opts", "kind2", "q", "name", "mgr", "ai", "bi", "pre"} {
			if v, ok := in[k]; ok {
				e[k] = v
			}
		}
		input := ""
		if v, ok := in["input"]; ok {
			input = string(toRunes(v))
			e["input"] = cps(input)
		}
		det := ""
		switch api {
		case "expression":
			// SetExpression, assign the named boundary values to the variables it discovered, Evaluate
			e["kind"] = "valerr"
			var res *variants.Variant
			var err error
			var specs []string
			for _, x := range toList(in["vars"]) {
				specs = append(specs, toStr(x))
			}
			oc, d := guarded(func() {
				calc := calculator.NewExpressionCalculator()
				if toStr(orEmpty(in["pre"])) == "clear" {
					calc.Clear()
				}
				err = calc.SetExpression(input)
				if err != nil {
					return
				}
				for i, v := range calc.DefaultVariables().GetAll() {
					if len(specs) > 0 {
						v.SetValue(argFromSpec(specs[i%len(specs)]))
					}
				}
				res, err = calc.Evaluate()
			})
			det = d
			e["outcome"] = valErr(oc, res != nil, err)
		case "template":
			e["kind"] = "valerr"
			var err error
			var res string
			ok := false
			oc, d := guarded(func() {
				t := mustache.NewMustacheTemplate()
				if toStr(orEmpty(in["pre"])) == "clear" {
					t.Clear()
				}
				err = t.SetTemplate(input)
				if err != nil {
					return
				}
				res, err = t.EvaluateWithVariables(map[string]string{"a": "1", "B": "", "é": "x\"y"})
				ok = err == nil
				_ = res
			})
			det = d
			e["outcome"] = valErr(oc, ok, err)
		case "tokens":
			// a parser handed a list of lexical tokens (instead of a text): token lists of any shape - empty, white space only,
			// braces without names, lone words - end in a result or an error
			e["kind"] = "erronly"
			what := toStr(in["kind2"])
			var toks []*tokenizers.Token
			var spec []any
			for _, x := range toList(in["toks"]) {
				xx := toList(x)
				toks = append(toks, tokenizers.NewToken(toInt(xx[0]), string(toRunes(xx[1])), 1, 1))
				spec = append(spec, []any{toInt(xx[0]), cpsR(toRunes(xx[1]))})
			}
			e["toks"] = spec
			if spec == nil {
				e["toks"] = []any{}
			}
			var err error
			oc, d := guarded(func() {
				switch what {
				case "mparse":
					err = mparsers.NewMustacheParser().ParseTokens(toks)
				case "morig":
					err = mparsers.NewMustacheParser().SetOriginalTokens(toks)
				case "eparse":
					err = parsers.NewExpressionParser().ParseTokens(toks)
				default:
					err = parsers.NewExpressionParser().SetOriginalTokens(toks)
				}
			})
			det = d
			_ = err
			e["outcome"] = map[string]string{"ok": "returned", "hang": "hang"}[oc]
			if e["outcome"] == "" {
				e["outcome"] = "panic"
			}
		case "tokenize":
			e["kind"] = "valonly"
			kind := toStr(in["kind2"])
			bits := optBits(in["opts"])
			e["opts"] = optList(bits)
			_, oc, d := tokenize(kind, bits, input)
			det = d
			e["outcome"] = map[string]string{"ok": "returned", "hang": "hang"}[oc]
			if e["outcome"] == "" {
				e["outcome"] = "panic"
			}
		case "codec":
			e["kind"] = "valonly"
			qs := quoteState(toStr(in["kind2"]))
			q := rune(toInt(in["q"]))
			oc, d := guarded(func() {
				_ = qs.DecodeString(input, q)
				_ = qs.DecodeString(qs.EncodeString(input, q), q)
			})
			det = d
			e["outcome"] = map[string]string{"ok": "returned", "hang": "hang"}[oc]
			if e["outcome"] == "" {
				e["outcome"] = "panic"
			}
		case "function":
			e["kind"] = "valerr"
			var specs []string
			for _, x := range toList(in["vars"]) {
				specs = append(specs, toStr(x))
			}
			args := make([]*variants.Variant, len(specs))
			for i, s := range specs {
				args[i] = argFromSpec(s)
			}
			fn := functions.NewDefaultFunctionCollection().FindByName(toStr(in["name"]))
			var res *variants.Variant
			var err error
			oc, d := guarded(func() { res, err = fn.Calculate(args, c06mgr(toStr(in["mgr"]))) })
			det = d
			e["outcome"] = valErr(oc, res != nil, err)
		case "userfunc":
			// a user-registered function that fails in one of several ways, called through an expression
			e["kind"] = "valerr"
			how := toStr(in["kind2"])
			var res *variants.Variant
			var err error
			oc, d := guarded(func() {
				calc := calculator.NewExpressionCalculator()
				calc.DefaultFunctions().Add(functions.NewDelegatedFunction("Boom", func(p []*variants.Variant, o variants.IVariantOperations) (*variants.Variant, error) {
					switch how {
					case "panic-string":
						panic("boom")
					case "panic-int":
						panic(42)
					case "panic-error":
						panic(fmt.Errorf("boom"))
					case "nil-deref":
						var v *variants.Variant
						return variants.VariantFromInteger(v.AsInteger()), nil
					case "index":
						return p[len(p)+3], nil
					case "error":
						return nil, fmt.Errorf("plain failure")
					}
					return variants.VariantFromInteger(1), nil
				}))
				if err = calc.SetExpression(input); err != nil {
					return
				}
				res, err = calc.Evaluate()
			})
			det = d
			e["outcome"] = valErr(oc, res != nil, err)
		case "lifecycle":
			// a seeded walk over the public calls of several calculators and templates that are alive together: setting, evaluating,
			// changing variables and functions, clearing.  Every call returns normally; the last evaluating call is classified.
			e["kind"] = "valerr"
			var script []string
			for _, x := range toList(in["script"]) {
				script = append(script, toStr(x))
			}
			e["script"] = script
			var res *variants.Variant
			var err error
			trail := ""
			oc, d := guarded(func() {
				calcs := []*calculator.ExpressionCalculator{calculator.NewExpressionCalculator(), calculator.NewExpressionCalculator(), calculator.NewExpressionCalculator()}
				tmpls := []*mustache.MustacheTemplate{mustache.NewMustacheTemplate(), mustache.NewMustacheTemplate()}
				res, err = variants.VariantFromInteger(0), nil
				for _, st := range script {
					// a step is "<instance>|<call>|<argument>"
					parts := strings.SplitN(st, "|", 3)
					idx, _ := strconv.Atoi(parts[0])
					c, t, arg := calcs[idx%len(calcs)], tmpls[idx%len(tmpls)], parts[2]
					trail = st
					switch parts[1] {
					case "set":
						c.SetExpression(arg)
					case "eval":
						res, err = c.Evaluate()
					case "evalvars":
						res, err = c.EvaluateUsingVariables(c05vars())
					case "rmvar":
						c.DefaultVariables().RemoveByName(arg)
					case "addvar":
						c.DefaultVariables().Add(variables.NewVariable(arg, variants.VariantFromInteger(len(arg))))
					case "rmfn":
						c.DefaultFunctions().RemoveByName(arg)
					case "addfn":
						c.DefaultFunctions().Add(functions.NewDelegatedFunction(arg, func(p []*variants.Variant, o variants.IVariantOperations) (*variants.Variant, error) {
							return o.Add(p[0], p[0])
						}))
					case "clear":
						c.Clear()
					case "auto":
						c.SetAutoVariables(arg == "1")
					case "setarr":
						if v := c.DefaultVariables().FindByName(arg); v != nil {
							v.SetValue(variants.VariantFromArray([]*variants.Variant{variants.VariantFromInteger(1), variants.VariantFromString("x")}))
						}
					case "tset":
						t.SetTemplate(arg)
					case "teval":
						t.Evaluate()
					case "tclear":
						t.Clear()
					}
				}
			})
			det = d
			if oc != "ok" {
				det = d + " at step " + trail
			}
			e["outcome"] = valErr(oc, res != nil, err)
		case "reenter":
			// a user-registered function whose body evaluates an expression on another calculator
			e["kind"] = "valerr"
			var res *variants.Variant
			var err error
			oc, d := guarded(func() {
				inner := calculator.NewExpressionCalculator()
				calc := calculator.NewExpressionCalculator()
				calc.DefaultFunctions().Add(functions.NewDelegatedFunction("Twice", func(p []*variants.Variant, o variants.IVariantOperations) (*variants.Variant, error) {
					if e := inner.SetExpression("v * 2 + Max(v, 1)"); e != nil {
						return nil, e
					}
					inner.DefaultVariables().FindByName("v").SetValue(p[0])
					return inner.Evaluate()
				}))
				if err = calc.SetExpression(input); err != nil {
					return
				}
				res, err = calc.Evaluate()
			})
			det = d
			e["outcome"] = valErr(oc, res != nil, err)
		case "operator":
			e["kind"] = "valerr"
			pool := valuePool(true)
			a, b := pool[toInt(in["ai"])%len(pool)], pool[toInt(in["bi"])%len(pool)]
			m := c06mgr(toStr(in["mgr"]))
			name := toStr(in["name"])
			var res *variants.Variant
			var err error
			oc, d := guarded(func() {
				switch name {
				case "Not":
					res, err = m.Not(a)
				case "Negative":
					res, err = m.Negative(a)
				case "Convert":
					res, err = m.Convert(a, b.Type())
				default:
					res, err = binCall(m, name, a, b)
				}
			})
			det = d
			e["outcome"] = valErr(oc, res != nil, err)
		}
		if det != "" {
			e["detail"] = det
		}
		out = append(out, e)
	}
	return out
}

var c03assignments = [][]string{
	{"ag", "i:2", "i:1"}, {"ag", "i:5", "n"}, {"i32", "u", "u32"}, {"u32", "i32", "i:1"}, {"i:1", "i:0", "i:-3"}, {"d:2.5", "i:0", "s:abc"}, {"n", "i:1", "n"}, {"s:abc", "i:5", "s:"}, {"a", "i:7", "i:1"}, {"a", "i:-1", "n"},
	{"b:true", "b:false", "i:2"}, {"t:86400", "ts:1500", "i:3"}, {"l:-9223372036854775808", "i:-1", "l:64"}, {"o", "o", "i:1"},
	{"d:NaN", "d:+Inf", "d:0"}, {"s:é", "i:-2", "i:200"}, {"i:9223372036854775807", "i:9223372036854775807", "i:2"},
}

func genC03(g *Gen) {
	r := g.Rand()
	run := func(gen string, e Ev) { g.Run(gen, []Ev{e}) }
	anyL := func(s []string) []any {
		o := make([]any, len(s))
		for i, x := range s {
			o[i] = x
		}
		return o
	}
	// (1) every binary / unary / postfix form and every function over variables x boundary assignments of every type
	forms := []string{"a + b", "a - b", "a * b", "a / b", "a % b", "a ^ b", "a AND b", "a OR b", "a XOR b", "a << b", "a >> b", "a = b", "a <> b",
		"a > b", "a < b", "a >= b", "a <= b", "a IN b", "b IN a", "a NOT IN b", "b NOT IN a", "a LIKE b", "a NOT LIKE b", "a[b]", "a[b][c]", "-a", "NOT a", "a IS NULL",
		"a IS NOT NULL", "-a[b]", "a / (b - b)", "a % c - a / b", "(a << b) >> c", "a[c] IN a", "'abc'[b]", "'é'[c]", "1 / b", "1 << b"}
	for _, n := range defaultFnNames {
		if strings.EqualFold(n, "null") {
			continue
		}
		forms = append(forms, n+"()", n+"(a)", n+"(a, b)", n+"(a, b, c)", n+"(a, b, c, a, b)", n+"(b, a, c, a, b, c, a, b)")
	}
	for _, f := range forms {
		for _, as := range c03assignments {
			run("operator and function forms x boundary assignments", Ev{"api": "expression", "input": cps(f), "vars": anyL(as)})
		}
	}
	for _, x := range []string{"a + b", "Hello {{a}}", "{{#a}}x{{/a}}", "plain"} {
		run("Clear() before Set...", Ev{"api": "expression", "pre": "clear", "input": cps(x), "vars": anyL(c03assignments[0])})
		run("Clear() before Set...", Ev{"api": "template", "pre": "clear", "input": cps(x)})
	}
	// every list of up to three lexical tokens over a small alphabet, handed to both parsers through both token entry points
	{
		alpha := [][]any{{tokenizers.Whitespace, cps(" ")}, {tokenizers.Whitespace, cps("\n")}, {tokenizers.Special, cps("text")}, {tokenizers.Symbol, cps("{{")}, {tokenizers.Symbol, cps("}}")}, {tokenizers.Symbol, cps("{{{")},
			{tokenizers.Symbol, cps("#")}, {tokenizers.Symbol, cps("/")}, {tokenizers.Word, cps("a")}, {tokenizers.Eof, cps("")}, {tokenizers.Unknown, cps("\uffff")}, {tokenizers.Comment, cps("/* c */")},
			{tokenizers.Integer, cps("1")}, {tokenizers.Symbol, cps("(")}, {tokenizers.Symbol, cps("+")}, {tokenizers.Quoted, cps("'q")}, {tokenizers.Keyword, cps("NOT")}}
		var rec func(cur []any)
		rec = func(cur []any) {
			for _, what := range []string{"mparse", "morig", "eparse", "eorig"} {
				run("token lists handed to the parsers", Ev{"api": "tokens", "kind2": what, "toks": append([]any{}, cur...), "input": cps("")})
			}
			if len(cur) == g.Pick(2, 3) {
				return
			}
			for _, a := range alpha {
				rec(append(append([]any{}, cur...), a))
			}
		}
		rec(nil)
	}
	for _, how := range []string{"panic-string", "panic-int", "panic-error", "nil-deref", "index", "error", "ok"} {
		for _, x := range []string{"Boom()", "Boom(1)", "1 + Boom(2, 3)", "Min(Boom(1), 2)", "boom(1) IS NULL"} {
			run("user-registered failing functions", Ev{"api": "userfunc", "kind2": how, "input": cps(x)})
		}
	}
	lexprs := []string{"a + b", "b * 2", "Max(a, 3) + Nope(1)", "Twice(a)", "a[1]", "1 / 0", "(a", "Rnd() < 2", "x y", "'s' + a", "Min(1, 2)", "", "Nope(1)", "b"}
	lnames := []string{"a", "b", "A", "x", "Rnd", "Max", "min", "Twice", "nope"}
	ltmpl := []string{"Hi {{a}}", "{{#a}}x{{/a}}", "{{#a}}", "{{b}}{{^c}}n{{/c}}", ""}
	lrun := func(gen string, steps ...string) {
		run(gen, Ev{"api": "lifecycle", "script": anyL(steps)})
	}
	// directed: use, change a variable / function table (of the same or of another instance), use again
	for _, e1 := range lexprs[:6] {
		for _, e2 := range lexprs {
			for _, nm := range lnames[:8] {
				for _, chg := range []string{"rmvar", "rmfn", "addvar", "addfn"} {
					// quick tier: every case in which the changed name occurs in one of the two expressions, a third of the others
					occurs := strings.Contains(strings.ToLower(e1+" "+e2), strings.ToLower(nm))
					if !occurs && (len(e1)+len(e2)+len(nm))%3 != 0 && !g.Thorough() {
						continue
					}
					lrun("use, change a table, use again", "0|set|"+e1, "0|eval|", "1|set|"+e2, "0|"+chg+"|"+nm, "0|set|"+e2, "0|eval|", "1|eval|", "2|set|"+e2, "2|eval|")
					lrun("use, change a table, use again", "0|set|"+e1, "1|set|"+e1, "2|"+chg+"|"+nm, "0|eval|", "1|set|"+e2, "1|eval|", "0|"+chg+"|"+nm, "1|eval|")
				}
			}
		}
	}
	for s := 1; s <= g.Pick(3000, 60000); s++ {
		var steps []string
		for k := 0; k < 14; k++ {
			inst := fmt.Sprint(r.Intn(3))
			nm := lnames[r.Intn(len(lnames))]
			switch x := r.Intn(17); {
			case x < 3:
				steps = append(steps, inst+"|set|"+lexprs[r.Intn(len(lexprs))])
			case x < 6:
				steps = append(steps, inst+"|eval|")
			case x == 6:
				steps = append(steps, inst+"|rmvar|"+nm)
			case x == 7:
				steps = append(steps, inst+"|addvar|"+nm)
			case x == 8:
				steps = append(steps, inst+"|rmfn|"+nm)
			case x == 9:
				steps = append(steps, inst+"|addfn|Twice")
			case x == 10:
				steps = append(steps, inst+"|clear|")
			case x == 11:
				steps = append(steps, inst+"|auto|"+fmt.Sprint(r.Intn(2)))
			case x == 12:
				steps = append(steps, inst+"|setarr|"+nm)
			case x == 13:
				steps = append(steps, inst+"|tset|"+ltmpl[r.Intn(len(ltmpl))])
			case x == 14:
				steps = append(steps, inst+"|teval|")
			case x == 15:
				steps = append(steps, inst+"|tclear|")
			default:
				steps = append(steps, inst+"|evalvars|")
			}
		}
		lrun("walks over the calls of several calculators and templates alive together", steps...)
	}
	for _, x := range []string{"Twice(20)", "1 + Twice(20)", "Max(3, Twice(20), 7)", "Array(5, Twice(3))[0]", "Twice(Twice(2)) * Twice(1)", "Twice('a')", "Twice()", "1 / (Twice(1) - 3) + Twice(2)"} {
		run("a user function that evaluates on another calculator", Ev{"api": "reenter", "input": cps(x)})
	}
	// every token string up to a bound over the representative token vocabulary, as text
	var rec func(cur []string)
	rec = func(cur []string) {
		if len(cur) > 0 {
			run("all token strings<=3 (as text)", Ev{"api": "expression", "input": cps(strings.Join(cur, " ")), "vars": anyL(c03assignments[1])})
		}
		if len(cur) == 3 {
			return
		}
		for _, t := range exprVocabCore {
			rec(append(append([]string{}, cur...), t))
		}
	}
	rec(nil)
	// (2) every string up to a bound over the significant characters
	exprAlpha := []rune{'a', '1', '.', '-', '/', '*', '\'', '"', '<', '=', '(', ')', '[', ']', ',', ' ', 0xe9, 0x1F600, '+', '^'}
	ln := g.Pick(3, 4)
	allStrings(exprAlpha, ln, func(s []rune) {
		run(fmt.Sprintf("all expression strings<=%d", ln), Ev{"api": "expression", "input": cpsR(s), "vars": anyL(c03assignments[0])})
	})
	tmplAlpha := []rune{'a', '{', '}', '#', '/', '^', '!', ' ', '\'', 0xe9}
	ln2 := g.Pick(4, 5)
	allStrings(tmplAlpha, ln2, func(s []rune) {
		run(fmt.Sprintf("all template strings<=%d", ln2), Ev{"api": "template", "input": cpsR(s)})
	})
	// deeper over brace structures
	allStrings([]rune{'{', '}', '#', '/', 'a'}, g.Pick(6, 8), func(s []rune) {
		if len(s) > ln2 {
			run("template brace structures", Ev{"api": "template", "input": cpsR(s)})
		}
	})
	for _, kind := range tokKinds {
		kind := kind
		allStrings(tokAlpha[kind], g.Pick(2, 3), func(s []rune) {
			for _, bits := range []int{0, 127, 1 | 2 | 4, 64, 8 | 16 | 32} {
				run("tokenizers x option sets", Ev{"api": "tokenize", "kind2": kind, "opts": toAnyList(optList(bits)), "input": cpsR(s)})
			}
		})
	}
	allStrings([]rune{'\'', '"', 'a', 0xe9, 0x1F600, ' '}, g.Pick(3, 4), func(s []rune) {
		for _, st := range []string{"generic", "expression", "csv"} {
			for _, q := range []rune{'\'', '"'} {
				run("quote codecs", Ev{"api": "codec", "kind2": st, "q": int(q), "input": cpsR(s)})
			}
		}
	})
	// (2b) scale: long argument lists, deep nesting, long chains, long templates; rare code points; keywords in odd letters
	vs := anyL(c03assignments[1])
	rep := func(s string, k int) string { return strings.Repeat(s, k) }
	for _, k := range g.WithRandomSizes([]int{8, 9, 16, 17, 31, 32, 33, 34, 40, 63, 64, 65, 100, 127, 128, 129, 255, 256, 257, 1000, 1025}, g.Pick(4, 30), 2, g.Pick(260, 2000)) {
		if k > g.Pick(260, 2000) {
			continue
		}
		args := "1" + rep(", 2", k-1)
		for _, fn := range []string{"Array", "Sum", "Max", "Min", "Concat", "Choose", "If", "Abs", "Contains", "Date", "TimeSpan", "Nope"} {
			run("long argument lists", Ev{"api": "expression", "input": cps(fn + "(" + args + ")"), "vars": vs})
		}
		run("long argument lists", Ev{"api": "expression", "input": cps("Sum('a'" + rep(", 'b'", k-1) + ")"), "vars": vs})
		run("long argument lists", Ev{"api": "expression", "input": cps("Choose(" + fmt.Sprint(k-1) + ", " + args + ")"), "vars": vs})
		for _, sh := range [][3]string{{"(", "1", ")"}, {"(", "a", ""}, {"", "1", ")"}, {"a[", "1", "]"}, {"a[", "1", ""}, {"-", "a", ""}, {"NOT ", "a", ""}, {"f(", "1", ")"}, {"f(", "", ""}, {"Abs(", "-3", ")"},
			{"(1 + ", "a", ")"}, {"1 + (", "a", ""}, {"[", "", ""}, {"'", "", ""}, {"\"", "", ""}, {"/*", "", ""}, {"1 +", " 1", ""}, {"a AND ", "b", ""}, {"a.", "b", ""}, {"1e", "1", ""}, {"1.", "5", ""}} {
			run("deep nesting and long chains", Ev{"api": "expression", "input": cps(rep(sh[0], k) + sh[1] + rep(sh[2], k)), "vars": vs})
		}
		run("deep nesting and long chains", Ev{"api": "expression", "input": cps("1" + rep(" + a * 2", k)), "vars": vs})
		run("deep nesting and long chains", Ev{"api": "expression", "input": cps("a" + rep(" + a", k)), "vars": anyL(c03assignments[len(c03assignments)-1])})
		run("deep nesting and long chains", Ev{"api": "expression", "input": cps(rep("v", k) + " + '" + rep("q", k) + "' + " + rep("9", k)), "vars": vs})
		for _, sh := range [][3]string{{"{{#a}}", "x", "{{/a}}"}, {"{{#a}}", "", ""}, {"{{^a}}", "", ""}, {"{{#a}}", "x", ""}, {"", "x", "{{/a}}"}, {"{{^a}}", "y", "{{/a}}"}, {"{{#a}}{{^b}}", "", "{{/b}}{{/a}}"},
			{"{{a}}", "", ""}, {"{{{a}}}", "", ""}, {"{{!c}}", "", ""}, {"{", "", "}"}, {"{{", "", ""}, {"}}", "", ""}, {"{{#a", "", ""}, {"x", "", ""}, {"{{ a }} ", "", ""}, {"{{#a}}{{/a}}", "", ""}, {"{{a b}}", "", ""}} {
			run("deep and long templates", Ev{"api": "template", "input": cps(rep(sh[0], k) + sh[1] + rep(sh[2], k))})
		}
		for _, kind := range tokKinds {
			run("long tokenizer inputs", Ev{"api": "tokenize", "kind2": kind, "opts": toAnyList(optList([]int{0, 127, 7, 64}[k%4])), "input": cpsR(longInput(g, kind, k))})
		}
	}
	for n := 1; n <= g.Pick(140, 300); n++ { // every count: a bound may sit anywhere
		run("deep and long templates", Ev{"api": "template", "input": cps(rep("{{#a}}", n))})
		run("deep and long templates", Ev{"api": "template", "input": cps(rep("{{#a}}", n) + rep("{{/a}}", n))})
		run("deep nesting and long chains", Ev{"api": "expression", "input": cps(rep("(", n) + "1"), "vars": vs})
		run("long argument lists", Ev{"api": "expression", "input": cps("Array(" + "1" + rep(",1", n) + ")"), "vars": vs})
	}
	for _, in := range rareInputs() {
		run("rare code points", Ev{"api": "expression", "input": cpsR(in), "vars": vs})
		run("rare code points", Ev{"api": "template", "input": cpsR(in)})
		for _, kind := range tokKinds {
			run("rare code points", Ev{"api": "tokenize", "kind2": kind, "opts": toAnyList(optList(127)), "input": cpsR(in)})
		}
	}
	for _, kwd := range c13keywords {
		low := strings.ToLower(kwd)
		for i, ch := range low {
			for _, alt := range map[rune][]rune{'s': {0x17f}, 'i': {0x131, 0x130}, 'k': {0x212a}, 'a': {0x212b, 0xe5}, 'e': {0xe9}, 'n': {0xf1}, 'o': {0xf8}}[ch] {
				w := low[:i] + string(alt) + low[i+1:]
				for _, ctx := range []string{"a %s b", "a %s null", "%s a", "a not %s b", "a is %s", "%s", "1 %s (1,2)", "%s(1)"} {
					run("keywords spelled with letters that case-map onto ASCII", Ev{"api": "expression", "input": cps(fmt.Sprintf(ctx, w)), "vars": vs})
				}
			}
		}
	}
	// (3) mutated / random inputs
	n := g.Pick(4000, 100000)
	for i := 0; i < n; i++ {
		switch i % 4 {
		case 0:
			ts := randomSentence(g, r.Intn(3))
			txt := strings.Join(ts, " ")
			txt = strings.ReplaceAll(txt, " s ", " 'q' ")
			in := mutateSnippet(g, txt)
			run("mutated expressions x assignments", Ev{"api": "expression", "input": cpsR(in), "vars": anyL(c03assignments[r.Intn(len(c03assignments))])})
		case 1:
			sn := tokSnippets["mustache"]
			run("mutated templates", Ev{"api": "template", "input": cpsR(mutateSnippet(g, sn[r.Intn(len(sn))]))})
		case 2:
			kind := tokKinds[r.Intn(len(tokKinds))]
			run("random tokenizer inputs x option sets", Ev{"api": "tokenize", "kind2": kind, "opts": toAnyList(optList(r.Intn(128))), "input": cpsR(randomInput(g, kind, 30))})
		default:
			run("random expression characters", Ev{"api": "expression", "input": cpsR(randomInput(g, "expression", 12)), "vars": anyL(c03assignments[r.Intn(len(c03assignments))])})
		}
	}
	// (4) every operator (and Convert) on every ordered pair of the boundary pool, both managers; every function x argument counts
	np := len(valuePool(true))
	ops := append(append([]string{}, binNames...), "In", "GetElement", "Not", "Negative", "Convert")
	for _, mgr := range []string{"unsafe", "safe"} {
		for ai := 0; ai < np; ai++ {
			for bi := 0; bi < np; bi++ {
				if !g.Thorough() && (ai*7+bi*3)%4 != 0 {
					continue
				}
				for _, op := range ops {
					run("operators x value pairs", Ev{"api": "operator", "mgr": mgr, "name": op, "ai": ai, "bi": bi})
				}
			}
		}
		for _, fnName := range defaultFnNames {
			for k := 0; k <= 8; k++ {
				for rep := 0; rep < g.Pick(3, 20); rep++ {
					specs := make([]string, k)
					for i := range specs {
						specs[i] = c08generic[r.Intn(len(c08generic))]
					}
					run("functions x argument lists", Ev{"api": "function", "mgr": mgr, "name": fnName, "vars": anyL(specs)})
				}
			}
		}
	}
}
