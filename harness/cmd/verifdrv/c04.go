package main

import (
	"fmt"
	"strings"
)

// C04: tokenization is lossless (all options off).
func init() {
	props["C04"] = &Prop{
		Generate: genC04,
		Exec:     execTok,
		Rule: "one event per (tokenizer, input), all options off; non-trivial = distinct (tokenizer, input) that contains a " +
			"character whose state may push characters back ('-', '.', '/', a first character of a multi-character symbol, " +
			"an unterminated quote, '{', 'e' after a digit)",
		NonTrivial: func(seg []Ev) string {
			e := seg[0]
			in := string(toRunes(e["input"]))
			if strings.ContainsAny(in, "-./<>=!{}'\"e") {
				return fmt.Sprint(e["kind"], "|", in)
			}
			return ""
		},
	}
}

func randomInput(g *Gen, kind string, maxLen int) []rune {
	r := g.Rand()
	alpha := tokAlpha[kind]
	n := r.Intn(maxLen + 1)
	out := make([]rune, n)
	for i := range out {
		switch x := r.Intn(20); {
		case x < 16:
			out[i] = alpha[r.Intn(len(alpha))]
		case x < 18:
			out[i] = rune(0x20 + r.Intn(0x5f))
		case x < 19:
			out[i] = rune(0xA0 + r.Intn(0x2000))
		default:
			out[i] = []rune{0xFFFE, 0xFFFF, 0x10000, 0x1F600, 0, 9, 0xC0, 0xFF, 0x100}[r.Intn(9)]
		}
	}
	return out
}

func mutateSnippet(g *Gen, s string) []rune {
	r := g.Rand()
	rs := []rune(s)
	// cut at a random point (every prefix is an input: "at any position up to the very end")
	if len(rs) > 0 && r.Intn(2) == 0 {
		rs = rs[:r.Intn(len(rs)+1)]
	}
	for k := r.Intn(3); k > 0 && len(rs) > 0; k-- {
		i := r.Intn(len(rs))
		switch r.Intn(3) {
		case 0:
			rs = append(rs[:i], rs[i+1:]...)
		case 1:
			rs = append(rs[:i], append([]rune{rs[r.Intn(len(rs))]}, rs[i:]...)...)
		default:
			rs[i] = rs[r.Intn(len(rs))]
		}
	}
	return rs
}

// longInput builds an input of exactly n characters by cycling the tokenizer's snippets with random cuts
func longInput(g *Gen, kind string, n int) []rune {
	r := g.Rand()
	sn := tokSnippets[kind]
	var out []rune
	for len(out) < n {
		s := []rune(sn[r.Intn(len(sn))])
		if r.Intn(3) == 0 {
			s = randomInput(g, kind, 12)
		}
		out = append(out, s...)
		if r.Intn(2) == 0 {
			out = append(out, ' ')
		}
	}
	return out[:n]
}

var longSizes = []int{63, 64, 65, 100, 127, 128, 129, 255, 256, 257, 511, 512, 513, 1000, 1023, 1024, 1025, 2049, 4097}

func genC04(g *Gen) {
	for _, kind := range tokKinds {
		kind := kind
		full := g.Pick(3, 4)
		allStrings(tokAlpha[kind], full, func(s []rune) {
			g.Run("exhaustive<="+fmt.Sprint(full)+":"+kind, []Ev{{"op": "tok", "kind": kind, "opts": []any{}, "input": cpsR(s)}})
		})
		core := g.Pick(5, 6)
		allStrings(tokAlphaCore[kind], core, func(s []rune) {
			if len(s) > full {
				g.Run("exhaustive-core<="+fmt.Sprint(core)+":"+kind, []Ev{{"op": "tok", "kind": kind, "opts": []any{}, "input": cpsR(s)}})
			}
		})
		for _, in := range rareInputs() {
			g.Run("rare code points in every context:"+kind, []Ev{{"op": "tok", "kind": kind, "opts": []any{}, "input": cpsR(in)}})
		}
		// far more tokens than 2^16 in one buffer
		if g.Thorough() || kind == "csv" || kind == "generic" {
			unit := map[string]string{"csv": "1,", "mustache": "{{a}}", "expression": "1+"}[kind]
			if unit == "" {
				unit = "1 "
			}
			g.Run("more than 2^16 tokens:"+kind, []Ev{{"op": "tok", "kind": kind, "opts": []any{}, "input": cpsR([]rune(strings.Repeat(unit, 35000)))}})
		}
		for _, sz := range g.WithRandomSizes(longSizes, g.Pick(6, 60), 2, g.Pick(300, 5000)) {
			if sz > g.Pick(300, 5000) {
				continue
			}
			for rep := 0; rep < g.Pick(1, 8); rep++ {
				g.Run("long inputs (sizes around powers of two):"+kind, []Ev{{"op": "tok", "kind": kind, "opts": []any{}, "input": cpsR(longInput(g, kind, sz))}})
			}
		}
		// one very long token of every class (buffers inside the states)
		for _, sz := range []int{64, 257, 1025, 5000} {
			if sz > g.Pick(300, 5000) {
				continue
			}
			for _, unit := range []string{"a", "7", " ", "'x", "\"y", "<", "é", "#", "/*", "-", "."} {
				in := []rune(strings.Repeat(unit, sz))
				g.Run("one very long token:"+kind, []Ev{{"op": "tok", "kind": kind, "opts": []any{}, "input": cpsR(in)}})
			}
		}
		// a stream handed over after the caller has read part of it
		for _, prefix := range []string{"heading\n", "x", "# skipped, 'quoted\r\n", "{{"} {
			for i, sn := range tokSnippets[kind] {
				g.Run("a stream handed over in the middle:"+kind, []Ev{{"op": "tok", "kind": kind, "opts": []any{}, "input": cpsR([]rune(sn)), "prefix": cps(prefix), "strings": i%3 == 2}})
			}
		}
		n := g.Pick(1500, 40000)
		for i := 0; i < n; i++ {
			var in []rune
			if i%2 == 0 {
				in = randomInput(g, kind, 40)
			} else {
				sn := tokSnippets[kind]
				in = mutateSnippet(g, sn[g.Rand().Intn(len(sn))])
			}
			g.Run("random:"+kind, []Ev{{"op": "tok", "kind": kind, "opts": []any{}, "input": cpsR(in)}})
		}
	}
}
