package main

import (
	"fmt"
	"math/rand"
	"regexp"
	"strings"

	"github.com/pip-services3-gox/pip-services3-expressions-gox/calculator"
	"github.com/pip-services3-gox/pip-services3-expressions-gox/calculator/functions"
	"github.com/pip-services3-gox/pip-services3-expressions-gox/calculator/parsers"
	"github.com/pip-services3-gox/pip-services3-expressions-gox/calculator/variables"
	"github.com/pip-services3-gox/pip-services3-expressions-gox/variants"
)

// C01: expression value follows precedence, associativity and operand order.

// ---- syntax trees ----
type xnode struct {
	K    string `json:"k"`
	Op   string `json:"op"`
	Text string `json:"text"`
	Key  string `json:"key"`
	Kids []int  `json:"kids"`
}

type xast struct {
	nodes []xnode // index i is node i+1
}

func (a *xast) add(n xnode) int {
	if n.Kids == nil {
		n.Kids = []int{}
	}
	a.nodes = append(a.nodes, n)
	return len(a.nodes)
}
func (a *xast) at(i int) *xnode { return &a.nodes[i-1] }

var binLevel = map[string]int{
	"And": 0, "Or": 0, "Xor": 0,
	"Equal": 2, "NotEqual": 2, "More": 2, "Less": 2, "EqualMore": 2, "EqualLess": 2,
	"Plus": 3, "Minus": 3, "Like": 3, "NotLike": 3, "NotIn": 3,
	"Star": 4, "Slash": 4, "Procent": 4,
	"Power": 5, "In": 5, "ShiftLeft": 5, "ShiftRight": 5,
}
var binOps = []string{"And", "Or", "Xor", "Equal", "NotEqual", "More", "Less", "EqualMore", "EqualLess",
	"Plus", "Minus", "Like", "NotLike", "NotIn", "Star", "Slash", "Procent", "Power", "In", "ShiftLeft", "ShiftRight"}

// source spellings of operator kinds (several where the language has synonyms)
var opLexemes = map[string][][]string{
	"And": {{"AND"}}, "Or": {{"OR"}}, "Xor": {{"XOR"}},
	"Equal": {{"="}}, "NotEqual": {{"<>"}, {"!="}}, "More": {{">"}}, "Less": {{"<"}}, "EqualMore": {{">="}}, "EqualLess": {{"<="}},
	"Plus": {{"+"}}, "Minus": {{"-"}}, "Like": {{"LIKE"}}, "NotLike": {{"NOT", "LIKE"}}, "NotIn": {{"NOT", "IN"}},
	"Star": {{"*"}}, "Slash": {{"/"}}, "Procent": {{"%"}},
	"Power": {{"^"}}, "In": {{"IN"}}, "ShiftLeft": {{"<<"}}, "ShiftRight": {{">>"}},
}

func (a *xast) level(i int) int {
	n := a.at(i)
	switch n.K {
	case "bin":
		return binLevel[n.Op]
	case "un":
		switch n.Op {
		case "Not":
			return 1
		case "IsNull", "IsNotNull":
			return 3
		}
		return 6 // Unary
	case "idx":
		return 6
	}
	return 7 // const, var, call: primaries
}

// a lexical element of the printed expression
type xtok struct {
	kind, ktext string // vocabulary kind and text as the parser sees it
	lexeme      string // source spelling
}

func kw(s string) xtok {
	k := map[string]string{"AND": "And", "OR": "Or", "XOR": "Xor", "NOT": "Not", "IS": "Is", "IN": "In", "NULL": "Null", "LIKE": "Like"}[s]
	return xtok{k, "", s}
}
func sym(s string) xtok {
	for _, v := range exprVocab {
		if v.text == s {
			return xtok{v.kind, "", s}
		}
	}
	panic("sym " + s)
}
func lexTok(s string) xtok {
	if s[0] >= 'A' && s[0] <= 'Z' {
		return kw(s)
	}
	return sym(s)
}

// printer. mode: 0 minimal parentheses, 1 full, 2 random extra parentheses and redundant '+'
type xprinter struct {
	a    *xast
	mode int
	r    *rand.Rand
	out  []xtok
}

func (p *xprinter) paren(i int, need bool) {
	extra := p.mode == 1 && p.a.level(i) < 7
	if p.mode == 2 && p.r.Intn(5) == 0 {
		extra = true
	}
	if need || extra {
		p.out = append(p.out, sym("("))
		p.expr(i)
		p.out = append(p.out, sym(")"))
	} else {
		p.expr(i)
	}
}

func (p *xprinter) expr(i int) {
	n := p.a.at(i)
	switch n.K {
	case "const":
		if n.Op == "quoted" {
			p.out = append(p.out, xtok{"Constant", n.Text, "'" + n.Text + "'"})
		} else if n.Op == "bool" {
			p.out = append(p.out, xtok{"Constant", n.Text, strings.ToUpper(n.Text)})
		} else {
			p.out = append(p.out, xtok{"Constant", n.Text, n.Text})
		}
	case "var":
		lex := n.Text
		for _, k := range c13keywords {
			if strings.EqualFold(k, n.Text) {
				lex = "\"" + n.Text + "\"" // an identifier spelled like a keyword is written as a quoted identifier
			}
		}
		if !plainIdent.MatchString(n.Text) {
			lex = "\"" + strings.ReplaceAll(n.Text, "\"", "\"\"") + "\"" // any other name: quoted, its quotes doubled
		}
		p.out = append(p.out, xtok{"Variable", n.Text, lex})
	case "call":
		p.out = append(p.out, xtok{"Variable", n.Text, n.Text}, sym("("))
		for k, c := range n.Kids {
			if k > 0 {
				p.out = append(p.out, sym(","))
			}
			p.paren(c, false)
		}
		p.out = append(p.out, sym(")"))
	case "bin":
		l := binLevel[n.Op]
		p.paren(n.Kids[0], p.a.level(n.Kids[0]) < l)
		sp := opLexemes[n.Op]
		for _, s := range sp[p.r.Intn(len(sp))] {
			p.out = append(p.out, lexTok(s))
		}
		// the right operand of a left-associative level must bind tighter; the operand of a level-3 form is a level-4 expression
		p.paren(n.Kids[1], p.a.level(n.Kids[1]) <= l)
	case "un":
		switch n.Op {
		case "Not":
			p.out = append(p.out, kw("NOT"))
			p.paren(n.Kids[0], p.a.level(n.Kids[0]) < 2)
		case "IsNull":
			p.paren(n.Kids[0], p.a.level(n.Kids[0]) < 3)
			p.out = append(p.out, kw("IS"), kw("NULL"))
		case "IsNotNull":
			p.paren(n.Kids[0], p.a.level(n.Kids[0]) < 3)
			p.out = append(p.out, kw("IS"), kw("NOT"), kw("NULL"))
		default: // Unary minus: operand must be a primary
			p.out = append(p.out, sym("-"))
			p.paren(n.Kids[0], p.a.level(n.Kids[0]) < 7)
		}
	case "idx":
		// container: a primary or a signed primary ((-a)[i] is written -a[i])
		c := p.a.at(n.Kids[0])
		if c.K == "un" && c.Op == "Unary" && p.a.level(c.Kids[0]) == 7 && p.mode != 1 {
			p.expr(n.Kids[0])
		} else {
			p.paren(n.Kids[0], p.a.level(n.Kids[0]) < 7)
		}
		p.out = append(p.out, sym("["))
		p.paren(n.Kids[1], false)
		p.out = append(p.out, sym("]"))
	}
}

// redundant unary plus before primaries that are not already signed (mode 2)
func (p *xprinter) plusify() {
	if p.mode != 2 {
		return
	}
	var out []xtok
	for i, t := range p.out {
		startsPrimary := t.kind == "Constant" || t.kind == "Variable" || t.kind == "LeftBrace"
		prevOK := i == 0
		if i > 0 {
			switch p.out[i-1].kind {
			case "Constant", "Variable", "RightBrace", "RightSquareBrace", "Null", "Plus", "Minus", "Is":
				prevOK = false
			case "Not":
				// NOT x: x is a level-2 expression, a sign may follow; but "IS NOT NULL" never has a primary after NOT
				prevOK = true
			default:
				prevOK = true
			}
			// "(" directly after a function name is a call, not a group
			if t.kind == "LeftBrace" && p.out[i-1].kind == "Variable" {
				prevOK = false
			}
		}
		if startsPrimary && prevOK && p.r.Intn(8) == 0 {
			out = append(out, sym("+"))
		}
		out = append(out, t)
	}
	p.out = out
}

var plainIdent = regexp.MustCompile(`^[A-Za-z_\x{c0}-\x{ff}][A-Za-z0-9_\x{c0}-\x{fffe}]*$`)
var exprKeywords = map[string]bool{"AND": true, "OR": true, "NOT": true, "XOR": true, "LIKE": true, "IS": true, "IN": true, "NULL": true, "TRUE": true, "FALSE": true}

// render joins lexemes with spacing, comments and letter-case variation (decorate=false: single spaces, as is)
// renderZeros: integer literals are written with redundant leading zeros (the same numbers: 010 is ten)
var renderZeros bool

func allDigits(s string) bool {
	for _, c := range s {
		if c < '0' || c > '9' {
			return false
		}
	}
	return s != ""
}

func render(toks []xtok, r *rand.Rand, decorate bool) string {
	var sb strings.Builder
	wordLike := func(s string) bool {
		c := s[0]
		return c == '_' || c == '.' || (c >= '0' && c <= '9') || (c >= 'a' && c <= 'z') || (c >= 'A' && c <= 'Z') || c >= 0x80
	}
	for i, t := range toks {
		lex := t.lexeme
		if renderZeros && t.kind == "Constant" && allDigits(lex) && len(lex) < 9 {
			lex = strings.Repeat("0", 1+i%3) + lex
		}
		if decorate && (t.kind != "Constant" && t.kind != "Variable" || t.ktext == "true" || t.ktext == "false") && wordLike(lex) {
			switch r.Intn(4) {
			case 0:
				lex = strings.ToLower(lex)
			case 1:
				lex = strings.ToUpper(lex[:1]) + strings.ToLower(lex[1:])
			case 2:
				// keywords spelled with the letters whose upper case is an ASCII letter (long s, dotless i)
				if exprKeywords[strings.ToUpper(lex)] {
					lex = strings.ToLower(lex)
					lex = lex[:1] + strings.NewReplacer("s", "\u017f", "i", "\u0131").Replace(lex[1:]) // the first letter must start a word
				}
			}
		}
		if i > 0 {
			prev := toks[i-1].lexeme
			need := wordLike(prev) && wordLike(lex)
			// symbols that would merge into another symbol or a comment
			pl, c := prev[len(prev)-1], lex[0]
			if strings.ContainsRune("<>=!", rune(pl)) && strings.ContainsRune("<>=", rune(c)) {
				need = true
			}
			if pl == '/' && (c == '*' || c == '/') {
				need = true
			}
			if !decorate {
				sb.WriteString(" ")
			} else {
				switch x := r.Intn(10); {
				case x < 3 && !need:
				case x < 7:
					sb.WriteString(" ")
				case x < 8:
					sb.WriteString(" \t\n "[r.Intn(4):])
				case x < 9:
					sb.WriteString(" /* " + []string{"c", "a + b", "*", "NOT"}[r.Intn(4)] + " */ ")
				default:
					if pl == '/' {
						sb.WriteString(" ") // (a comment directly after a slash would read "//...": kept apart)
					}
					sb.WriteString("/**/")
					if need || c == '/' {
						sb.WriteString(" ")
					}
				}
			}
		}
		sb.WriteString(lex)
	}
	return sb.String()
}

// ---- recording operations manager, functions, variables ----
type xcall struct {
	name string
	args [][]any
	res  []any
}

type recorder struct {
	ids    map[*variants.Variant][]any
	calls  []xcall
	rnd    *rand.Rand
	failAt int  // the application with that number fails (0 = none): an operation or function that reports an error
	both   bool // ... handing back a value together with the error
}

func (rc *recorder) id(v *variants.Variant) []any {
	if x, ok := rc.ids[v]; ok {
		return x
	}
	return []any{"o"}
}
func (rc *recorder) apply(name string, res *variants.Variant, args ...*variants.Variant) (*variants.Variant, error) {
	c := xcall{name: name}
	for _, a := range args {
		c.args = append(c.args, rc.id(a))
	}
	c.res = []any{"r", len(rc.calls) + 1}
	rc.ids[res] = c.res
	rc.calls = append(rc.calls, c)
	if rc.failAt > 0 && len(rc.calls) == rc.failAt {
		if rc.both {
			return res, fmt.Errorf("application %d failed", rc.failAt)
		}
		return nil, fmt.Errorf("application %d failed", rc.failAt)
	}
	return res, nil
}
func (rc *recorder) fresh() *variants.Variant {
	return variants.VariantFromString(fmt.Sprintf("#r%d", len(rc.calls)+1))
}

type recOps struct{ rc *recorder }

func (o *recOps) Convert(v *variants.Variant, t variants.VariantType) (*variants.Variant, error) {
	return v, nil
}
func (o *recOps) Add(a, b *variants.Variant) (*variants.Variant, error) {
	return o.rc.apply("Add", o.rc.fresh(), a, b)
}
func (o *recOps) Sub(a, b *variants.Variant) (*variants.Variant, error) {
	return o.rc.apply("Sub", o.rc.fresh(), a, b)
}
func (o *recOps) Mul(a, b *variants.Variant) (*variants.Variant, error) {
	return o.rc.apply("Mul", o.rc.fresh(), a, b)
}
func (o *recOps) Div(a, b *variants.Variant) (*variants.Variant, error) {
	return o.rc.apply("Div", o.rc.fresh(), a, b)
}
func (o *recOps) Mod(a, b *variants.Variant) (*variants.Variant, error) {
	return o.rc.apply("Mod", o.rc.fresh(), a, b)
}
func (o *recOps) Pow(a, b *variants.Variant) (*variants.Variant, error) {
	return o.rc.apply("Pow", o.rc.fresh(), a, b)
}
func (o *recOps) And(a, b *variants.Variant) (*variants.Variant, error) {
	return o.rc.apply("And", o.rc.fresh(), a, b)
}
func (o *recOps) Or(a, b *variants.Variant) (*variants.Variant, error) {
	return o.rc.apply("Or", o.rc.fresh(), a, b)
}
func (o *recOps) Xor(a, b *variants.Variant) (*variants.Variant, error) {
	return o.rc.apply("Xor", o.rc.fresh(), a, b)
}
func (o *recOps) Lsh(a, b *variants.Variant) (*variants.Variant, error) {
	return o.rc.apply("Lsh", o.rc.fresh(), a, b)
}
func (o *recOps) Rsh(a, b *variants.Variant) (*variants.Variant, error) {
	return o.rc.apply("Rsh", o.rc.fresh(), a, b)
}
func (o *recOps) Not(a *variants.Variant) (*variants.Variant, error) {
	return o.rc.apply("Not", o.rc.fresh(), a)
}
func (o *recOps) Negative(a *variants.Variant) (*variants.Variant, error) {
	return o.rc.apply("Negative", o.rc.fresh(), a)
}
func (o *recOps) Equal(a, b *variants.Variant) (*variants.Variant, error) {
	return o.rc.apply("Equal", o.rc.fresh(), a, b)
}
func (o *recOps) NotEqual(a, b *variants.Variant) (*variants.Variant, error) {
	return o.rc.apply("NotEqual", o.rc.fresh(), a, b)
}
func (o *recOps) More(a, b *variants.Variant) (*variants.Variant, error) {
	return o.rc.apply("More", o.rc.fresh(), a, b)
}
func (o *recOps) Less(a, b *variants.Variant) (*variants.Variant, error) {
	return o.rc.apply("Less", o.rc.fresh(), a, b)
}
func (o *recOps) MoreEqual(a, b *variants.Variant) (*variants.Variant, error) {
	return o.rc.apply("MoreEqual", o.rc.fresh(), a, b)
}
func (o *recOps) LessEqual(a, b *variants.Variant) (*variants.Variant, error) {
	return o.rc.apply("LessEqual", o.rc.fresh(), a, b)
}
func (o *recOps) In(a, b *variants.Variant) (*variants.Variant, error) {
	// the calculator negates this result natively for NOT IN, so it must be a Boolean
	return o.rc.apply("In", variants.VariantFromBoolean(o.rc.rnd.Intn(2) == 0), a, b)
}
func (o *recOps) GetElement(a, b *variants.Variant) (*variants.Variant, error) {
	return o.rc.apply("GetElement", o.rc.fresh(), a, b)
}

type recFunc struct {
	rc  *recorder
	key string
}

func (f *recFunc) Name() string { return f.key }
func (f *recFunc) Calculate(params []*variants.Variant, ops variants.IVariantOperations) (*variants.Variant, error) {
	return f.rc.apply("f:"+f.key, f.rc.fresh(), params...)
}

type recFuncs struct{ rc *recorder }

func (c *recFuncs) Add(f functions.IFunction)       {}
func (c *recFuncs) Length() int                     { return 0 }
func (c *recFuncs) Get(i int) functions.IFunction   { return nil }
func (c *recFuncs) GetAll() []functions.IFunction   { return nil }
func (c *recFuncs) FindIndexByName(name string) int { return 0 }
func (c *recFuncs) FindByName(name string) functions.IFunction {
	return &recFunc{c.rc, strings.ToUpper(name)}
}
func (c *recFuncs) Remove(i int)             {}
func (c *recFuncs) RemoveByName(name string) {}
func (c *recFuncs) Clear()                   {}

func idJSON(x []any) []any { return x }

func constText(v *variants.Variant) string {
	if v.Type() == variants.Boolean {
		if v.AsBoolean() {
			return "true"
		}
		return "false"
	}
	if v.Type() == variants.String {
		return "'" + v.String() + "'"
	}
	return cl(v.String())
}

// evalSymbolic sets and evaluates text on a real calculator with the recording manager installed.
func evalSymbolic(calc *calculator.ExpressionCalculator, text string, toks []xtok, varKeys []string, r *rand.Rand, failAt int, both bool) Ev {
	e := Ev{"failat": failAt, "failboth": both}
	rc := &recorder{ids: map[*variants.Variant][]any{}, rnd: r, failAt: failAt, both: both}
	calc.SetAutoVariables(false)
	calc.SetVariantOperations(&recOps{rc})
	var err error
	oc, det := guarded(func() { err = calc.SetExpression(text) })
	e["calls"] = [][]any{}
	e["result"] = []any{"none"}
	e["lexok"] = true
	switch {
	case oc != "ok":
		e["set"] = "panic"
		e["detail"] = det
		return e
	case err != nil:
		e["set"] = "error"
		e["detail"] = err.Error()
		// still report whether the lexer delivered the intended tokens
	default:
		e["set"] = "ok"
	}
	// did the lexer deliver the intended tokens?
	var seen [][]string
	for _, t := range lexTokens(text) { // from a separate tokenizer of the parser's kind
		k, tx := lexKind(t)
		if k == "" {
			continue
		}
		if k == "Constant" && tx == "#num" {
			tx = t.Value()
		}
		seen = append(seen, []string{k, tx})
	}
	lexok := len(seen) == len(toks)
	for i := 0; lexok && i < len(toks); i++ {
		lexok = seen[i][0] == toks[i].kind && seen[i][1] == toks[i].ktext
	}
	e["lexok"] = lexok
	if err != nil {
		return e
	}
	for _, t := range calc.ResultTokens() {
		if t.Type() == parsers.Constant {
			rc.ids[t.Value()] = []any{"c", constText(t.Value())}
		}
	}
	vars := variables.NewVariableCollection()
	for i, k := range varKeys {
		name := k
		if i%2 == 1 {
			name = strings.ToUpper(k)
		}
		val := variants.VariantFromInteger(100 + i)
		rc.ids[val] = []any{"v", k}
		vars.Add(variables.NewVariable(name, val))
	}
	var res *variants.Variant
	oc, det = guarded(func() { res, err = calc.EvaluateUsingVariablesAndFunctions(vars, &recFuncs{rc}) })
	calls := make([][]any, 0, len(rc.calls))
	for _, c := range rc.calls {
		args := make([]any, len(c.args))
		for i, a := range c.args {
			args[i] = a
		}
		calls = append(calls, []any{c.name, args, c.res})
	}
	e["calls"] = calls
	switch {
	case oc != "ok":
		e["result"] = []any{"panic"}
		e["detail"] = det
	case err != nil:
		e["result"] = []any{"error"}
	case res == nil:
		e["result"] = []any{"nil"}
	default:
		e["result"] = rc.id(res)
	}
	return e
}

// ---- events ----
func astFromEv(in Ev) *xast {
	a := &xast{}
	for _, x := range toList(in["nodes"]) {
		switch m := x.(type) {
		case xnode:
			a.nodes = append(a.nodes, m)
		case map[string]any:
			n := xnode{K: toStr(m["k"]), Op: toStr(m["op"]), Text: toStr(m["text"]), Key: toStr(m["key"])}
			for _, k := range toList(m["kids"]) {
				n.Kids = append(n.Kids, toInt(k))
			}
			if n.Kids == nil {
				n.Kids = []int{}
			}
			a.nodes = append(a.nodes, n)
		}
	}
	return a
}

func nodesAny(a *xast) []any {
	out := make([]any, len(a.nodes))
	for i, n := range a.nodes {
		out[i] = n
	}
	return out
}

func varKeysOf(a *xast) []string {
	seen := map[string]bool{}
	var out []string
	for _, n := range a.nodes {
		if n.K == "var" && !seen[n.Key] {
			seen[n.Key] = true
			out = append(out, n.Key)
		}
	}
	return out
}

func execC01(seg []Ev) []Ev {
	out := make([]Ev, 0, len(seg))
	// one calculator per segment: single-event segments observe a fresh calculator, multi-event segments a long-lived one
	calc := calculator.NewExpressionCalculator()
	for _, in := range seg {
		if toStr(in["op"]) == "noise" {
			// an arbitrary (usually rejected) text set on the long-lived calculator between two well-formed expressions
			var err error
			oc, _ := guarded(func() { err = calc.SetExpression(toStr(in["text"])) })
			out = append(out, Ev{"op": "noise", "text": in["text"], "outcome": oc, "rejected": err != nil})
			continue
		}
		a := astFromEv(in)
		root := toInt(in["root"])
		mode := toInt(in["mode"])
		seed := int64(toInt(in["pseed"]))
		switch toStr(in["op"]) {
		case "eval":
			r := rand.New(rand.NewSource(seed))
			p := &xprinter{a: a, mode: mode, r: r}
			p.expr(root)
			p.plusify()
			wrap := 0
			if w, ok := in["wrap"]; ok {
				wrap = toInt(w) // the whole expression inside that many pairs of parentheses
				var wo []xtok
				for i := 0; i < wrap; i++ {
					wo = append(wo, sym("("))
				}
				wo = append(wo, p.out...)
				for i := 0; i < wrap; i++ {
					wo = append(wo, sym(")"))
				}
				p.out = wo
			}
			text := render(p.out, r, mode == 2 || toBool(in["decorate"]))
			// every fifth case: one of the first applications reports an error (with or without a value next to it)
			failAt, both := 0, false
			if seed%5 == 0 {
				failAt, both = 1+int(seed/5)%4, (seed/20)%2 == 1
			}
			e := evalSymbolic(calc, text, p.out, varKeysOf(a), r, failAt, both)
			e["wrap"] = wrap
			e["op"], e["nodes"], e["root"], e["mode"], e["pseed"], e["decorate"] = "eval", nodesAny(a), root, mode, seed, in["decorate"]
			toks := make([][]string, len(p.out))
			for i, t := range p.out {
				toks[i] = []string{t.kind, t.ktext}
			}
			e["toks"] = toks
			e["text"] = text
			out = append(out, e)
		case "same":
			out = append(out, execSame(a, root, seed, in))
		}
	}
	return out
}

// execSame: the same tree rendered plainly with minimal parentheses and rendered with random extra parentheses,
// redundant '+', spacing, comments and letter case, both evaluated by a default calculator (real operations, real
// functions) under the same variable values.
func execSame(a *xast, root int, seed int64, in Ev) Ev {
	e := Ev{"op": "same", "nodes": nodesAny(a), "root": root, "pseed": seed, "mode": 0}
	run := func(mode int, decorate bool) []any {
		r := rand.New(rand.NewSource(seed))
		p := &xprinter{a: a, mode: mode, r: r}
		p.expr(root)
		p.plusify()
		text := render(p.out, r, decorate)
		calc := calculator.NewExpressionCalculator()
		var res *variants.Variant
		var err error
		oc, _ := guarded(func() {
			err = calc.SetExpression(text)
			if err != nil {
				return
			}
			vr := rand.New(rand.NewSource(seed + 7))
			for i, k := range varKeysOf(a) {
				v := calc.DefaultVariables().FindByName(k)
				if v != nil {
					v.SetValue(sampleValue(vr, i))
				}
			}
			res, err = calc.Evaluate()
		})
		if mode == 0 {
			e["text_a"] = text
		} else {
			e["text_b"] = text
		}
		switch {
		case oc != "ok":
			return []any{"panic"}
		case err != nil:
			return []any{"error", errCode(err)}
		case res == nil:
			return []any{"nil"}
		}
		return []any{"value", int(res.Type()), cl(res.String())}
	}
	e["a"] = run(0, false)
	renderZeros = seed%2 == 0
	defer func() { renderZeros = false }()
	e["b"] = run(2, true)
	return e
}

func sampleValue(r *rand.Rand, i int) *variants.Variant {
	switch r.Intn(9) {
	case 0:
		return variants.VariantFromInteger(r.Intn(21) - 10)
	case 1:
		return variants.VariantFromLong(int64(r.Intn(2001) - 1000))
	case 2:
		return variants.VariantFromFloat(float32(r.Intn(41)-20) / 4)
	case 3:
		return variants.VariantFromDouble(float64(r.Intn(4001)-2000) / 8)
	case 4:
		return variants.VariantFromString([]string{"", "abc", "3", "-2", "é", "true"}[r.Intn(6)])
	case 5:
		return variants.VariantFromBoolean(r.Intn(2) == 0)
	case 6:
		return variants.EmptyVariant()
	case 7:
		return variants.VariantFromArray([]*variants.Variant{variants.VariantFromInteger(1), variants.VariantFromString("abc"), variants.VariantFromInteger(r.Intn(5))})
	default:
		return variants.VariantFromInteger(r.Intn(5))
	}
}

// ---- generators ----
type xgen struct {
	a  *xast
	r  *rand.Rand
	nc int
}

func (x *xgen) leaf() int {
	x.nc++
	switch v := x.r.Intn(12); {
	case v < 5:
		k := []string{"a", "b", "c", "x1", "Delta", "été_2", "a", "b", "true", "Null", "and", "like", "\"x\"", "a\"b", "x y", "\"", "1a", "\"c", "temp\u212a", "tempk", "ma\u00df", "MA\u1e9e"}[x.r.Intn(22)]
		sp := k
		if x.r.Intn(3) == 0 {
			sp = strings.ToUpper(k)
		}
		return x.a.add(xnode{K: "var", Text: sp, Key: strings.ToUpper(k)})
	case v < 9:
		if x.r.Intn(4) == 0 { // the same spelling may occur as a number and as a string constant in one expression
			return x.a.add(xnode{K: "const", Op: []string{"int", "quoted"}[x.r.Intn(2)], Text: fmt.Sprint(1 + x.r.Intn(3))})
		}
		return x.a.add(xnode{K: "const", Op: "int", Text: fmt.Sprint(x.nc + 10*(x.nc%2))}) // (two digits every other time)
	case v < 10:
		return x.a.add(xnode{K: "const", Op: "float", Text: fmt.Sprintf("%d.5", x.nc)})
	case v < 11:
		return x.a.add(xnode{K: "const", Op: "quoted", Text: fmt.Sprintf("s%d", x.nc)})
	default:
		return x.a.add(xnode{K: "const", Op: "bool", Text: []string{"true", "false"}[x.r.Intn(2)]})
	}
}

func (x *xgen) tree(d int) int {
	if d <= 0 || x.r.Intn(6) == 0 {
		return x.leaf()
	}
	switch v := x.r.Intn(20); {
	case v < 12:
		op := binOps[x.r.Intn(len(binOps))]
		if (op == "Like" || op == "NotLike") && x.r.Intn(4) != 0 {
			op = "Plus"
		}
		l := x.tree(d - 1)
		rr := x.tree(d - 1)
		return x.a.add(xnode{K: "bin", Op: op, Kids: []int{l, rr}})
	case v < 15:
		c := x.tree(d - 1)
		return x.a.add(xnode{K: "un", Op: []string{"Not", "Unary", "IsNull", "IsNotNull"}[x.r.Intn(4)], Kids: []int{c}})
	case v < 17:
		c := x.tree(d - 1)
		i := x.tree(d - 1)
		return x.a.add(xnode{K: "idx", Kids: []int{c, i}})
	default:
		n := x.r.Intn(5)
		kids := []int{}
		for k := 0; k < n; k++ {
			kids = append(kids, x.tree(d-1))
		}
		nm := []string{"f", "g", "Min", "sum"}[x.r.Intn(4)]
		return x.a.add(xnode{K: "call", Text: nm, Key: strings.ToUpper(nm), Kids: kids})
	}
}

func init() {
	props["C01"] = &Prop{
		Generate: genC01,
		Exec:     execC01,
		Rule: "one event per (syntax tree, rendering); non-trivial = distinct (tree, token list) with at least two operator nodes, " +
			"i.e. where another parse of the same tokens would differ",
		NonTrivial: func(seg []Ev) string {
			e := seg[len(seg)-1]
			ops := 0
			if e["nodes"] == nil {
				return ""
			}
			for _, n := range e["nodes"].([]any) {
				if k := n.(xnode).K; k == "bin" || k == "un" || k == "idx" || k == "call" {
					ops++
				}
			}
			if ops >= 2 {
				return fmt.Sprint(e["op"], e["nodes"], e["text"], e["text_b"])
			}
			return ""
		},
	}
}

// forms used for the exhaustive pairs / triples: every binary operator, the postfix and prefix forms, index, call
type xform struct {
	kind, op string
}

func allForms() []xform {
	var fs []xform
	for _, o := range binOps {
		fs = append(fs, xform{"bin", o})
	}
	for _, o := range []string{"Not", "Unary", "IsNull", "IsNotNull"} {
		fs = append(fs, xform{"un", o})
	}
	fs = append(fs, xform{"idx", ""}, xform{"call", ""})
	return fs
}

// build applies form f to the given operand builders; slot says which operand is the nested one
func buildForm(a *xast, g *xgen, f xform, nested func() int, slot int) int {
	arg := func(k int) int {
		if k == slot {
			return nested()
		}
		return g.leaf()
	}
	switch f.kind {
	case "bin":
		l := arg(0)
		r := arg(1)
		return a.add(xnode{K: "bin", Op: f.op, Kids: []int{l, r}})
	case "un":
		return a.add(xnode{K: "un", Op: f.op, Kids: []int{arg(0)}})
	case "idx":
		l := arg(0)
		r := arg(1)
		return a.add(xnode{K: "idx", Kids: []int{l, r}})
	default:
		l := arg(0)
		m := arg(1)
		r := arg(2)
		return a.add(xnode{K: "call", Text: "f", Key: "F", Kids: []int{l, m, r}})
	}
}

func slots(f xform) int {
	switch f.kind {
	case "bin", "idx":
		return 2
	case "un":
		return 1
	}
	return 3
}

func genC01(g *Gen) {
	r := g.Rand()
	emit := func(gen string, a *xast, root int, modes []int) {
		for _, m := range modes {
			g.Run(gen, []Ev{{"op": "eval", "nodes": nodesAny(a), "root": root, "mode": m, "pseed": int(r.Int31()), "decorate": m == 2}})
		}
	}
	forms := allForms()
	// every ordered pair of forms, the inner one in every operand slot of the outer one
	for _, f := range forms {
		for _, h := range forms {
			for s := 0; s < slots(f); s++ {
				a := &xast{}
				xg := &xgen{a: a, r: r}
				root := buildForm(a, xg, f, func() int { return buildForm(a, xg, h, xg.leaf, -1) }, s)
				emit("all ordered pairs of forms x operand slots", a, root, []int{0, 1, 2})
			}
		}
	}
	// triples: chains and both nestings (thorough: all; quick: a seeded sample)
	nt := g.Pick(2500, 0)
	cnt := 0
	for _, f := range forms {
		for _, h := range forms {
			for _, k := range forms {
				if !g.Thorough() {
					if cnt >= nt {
						break
					}
					if r.Intn(8) != 0 {
						continue
					}
				}
				cnt++
				s1 := r.Intn(slots(f))
				s2 := r.Intn(slots(h))
				a := &xast{}
				xg := &xgen{a: a, r: r}
				root := buildForm(a, xg, f, func() int {
					return buildForm(a, xg, h, func() int { return buildForm(a, xg, k, xg.leaf, -1) }, s2)
				}, s1)
				emit("triples of forms", a, root, []int{0, 2})
			}
		}
	}
	// deep nesting and one long-lived calculator
	randTree := func(depth int) (*xast, int) {
		for {
			a := &xast{}
			xg := &xgen{a: a, r: r}
			root := xg.tree(depth)
			if len(a.nodes) <= 40 {
				return a, root
			}
		}
	}
	for _, d := range []int{64, 128, 199, 200, 201, 256, 1000, 1001, 1025} {
		if d > g.Pick(260, 2000) {
			continue
		}
		a, root := randTree(2)
		g.Run("deep nesting", []Ev{{"op": "eval", "nodes": nodesAny(a), "root": root, "mode": 0, "pseed": int(r.Int31()), "decorate": false, "wrap": d}})
	}
	noise := []string{strings.Repeat("(", 45) + "1 +", strings.Repeat("f(", 30) + "1, ", "2 * (3 + ", "(((1 +", "f(1, (2", "a[", "1 1", ")", "((((((((", "x = 'abc", "NOT", "1 +* 2", "f(((a)"}
	for rep := 0; rep < g.Pick(2, 8); rep++ {
		var seg []Ev
		n := g.Pick(260, 1400)
		for i := 0; i < n; i++ {
			seg = append(seg, Ev{"op": "noise", "text": noise[r.Intn(len(noise))]})
			if i%53 == 52 || i == n-1 {
				a, root := randTree(3)
				seg = append(seg, Ev{"op": "eval", "nodes": nodesAny(a), "root": root, "mode": r.Intn(3), "pseed": int(r.Int31()), "decorate": false})
			}
		}
		g.Run("one long-lived calculator: rejected texts in between", seg)
	}
	// the same calculator given two expressions that differ only in the letter case inside string constants / of identifiers
	for i := 0; i < g.Pick(600, 6000); i++ {
		a, root := randTree(1 + r.Intn(4))
		b := &xast{nodes: append([]xnode{}, a.nodes...)}
		changed := false
		for j := range b.nodes {
			if b.nodes[j].K == "const" && b.nodes[j].Op == "quoted" {
				b.nodes[j].Text = strings.ToUpper(b.nodes[j].Text)
				changed = true
			}
		}
		if !changed {
			continue
		}
		ps := int(r.Int31())
		g.Run("one calculator, two expressions differing in letter case inside string constants", []Ev{
			{"op": "eval", "nodes": nodesAny(a), "root": root, "mode": 0, "pseed": ps, "decorate": false},
			{"op": "eval", "nodes": nodesAny(b), "root": root, "mode": 0, "pseed": ps, "decorate": false},
			{"op": "eval", "nodes": nodesAny(a), "root": root, "mode": 0, "pseed": ps, "decorate": false}})
	}
	// random trees of any depth
	n := g.Pick(2500, 60000)
	for i := 0; i < n; i++ {
		a := &xast{}
		xg := &xgen{a: a, r: r}
		root := xg.tree(1 + r.Intn(5))
		if len(a.nodes) > 40 {
			continue
		}
		emit("random trees", a, root, []int{r.Intn(3)})
		if i%3 == 0 {
			g.Run("same tree, two renderings, real operations", []Ev{{"op": "same", "nodes": nodesAny(a), "root": root, "mode": 0, "pseed": int(r.Int31())}})
		}
	}
}
