package main

import (
	"fmt"
	"strings"

	"github.com/pip-services3-gox/pip-services3-expressions-gox/csv"
	"github.com/pip-services3-gox/pip-services3-expressions-gox/tokenizers"
)

// C09: CSV text round-trips through the tokenizer for any table and configuration.
func init() {
	props["C09"] = &Prop{
		Generate: genC09,
		Exec:     execC09,
		Rule: "one event per (configuration, table, writing plan, line ending); non-trivial = distinct case with a quoted field " +
			"that contains a separator, quote or line break, or a non-ASCII field",
		NonTrivial: func(seg []Ev) string {
			e := seg[0]
			txt := string(toRunes(e["text"]))
			for _, c := range txt {
				if c > 127 {
					return txt + fmt.Sprint(e["seps"], e["quotes"])
				}
			}
			for _, row := range e["plans"].([]any) {
				for _, p := range row.([]any) {
					if p.([]any)[0] == "quoted" {
						return txt + fmt.Sprint(e["seps"], e["quotes"])
					}
				}
			}
			return ""
		},
	}
}

func runesOfList(v any) []rune {
	var out []rune
	for _, x := range toList(v) {
		out = append(out, rune(toInt(x)))
	}
	return out
}

func execC09(seg []Ev) []Ev {
	out := make([]Ev, 0, len(seg))
	for _, in := range seg {
		seps, quotes := runesOfList(in["seps"]), runesOfList(in["quotes"])
		eol := string(toRunes(in["eol"]))
		// the driver's writer (validated by the trace specification against Csv.Write)
		var sb strings.Builder
		var table, plans []any
		rows := toList(in["table"])
		prows := toList(in["plans"])
		for r, row := range rows {
			if r > 0 {
				sb.WriteString(eol)
			}
			var trow, prow []any
			for i, f := range toList(row) {
				field := string(toRunes(f))
				p := toList(prows[r])
				pl := toList(p[i])
				mode, q, sep := toStr(pl[0]), rune(toInt(pl[1])), rune(toInt(pl[2]))
				if i > 0 {
					sb.WriteRune(sep)
				}
				if mode == "raw" {
					sb.WriteString(field)
				} else {
					sb.WriteRune(q)
					sb.WriteString(strings.ReplaceAll(field, string(q), string(q)+string(q)))
					sb.WriteRune(q)
				}
				trow = append(trow, cps(field))
				prow = append(prow, []any{mode, int(q), int(sep)})
			}
			table = append(table, trow)
			plans = append(plans, prow)
		}
		text := sb.String()
		cfg := "set"
		if c, ok := in["cfg"]; ok {
			cfg = toStr(c)
		}
		e := Ev{"op": "csv", "seps": cpsR(seps), "quotes": cpsR(quotes), "eol": cps(eol), "table": table, "plans": plans, "text": cps(text), "cfg": cfg}
		var toks []*tokenizers.Token
		oc, det := guarded(func() {
			t := csv.NewCsvTokenizer()
			// the configuration a tokenizer has as constructed is used as it is when it is the wanted one (which separators and quote
			// symbols a new tokenizer starts with is not part of the property)
			if !(string(t.FieldSeparators()) == string(seps) && string(t.QuoteSymbols()) == string(quotes)) {
				// configure quotes / separators in an order that never makes them collide with the defaults
				t.SetFieldSeparators([]rune{0x1})
				t.SetQuoteSymbols(quotes)
				if cfg == "after-other" {
					// the same instance served another dialect first
					t.SetFieldSeparators([]rune{';'})
					t.SetQuoteSymbols([]rune{'\''})
					t.SetDecodeStrings(true)
					t.TokenizeBuffer("a;'b;c'\r\n;d")
					t.SetFieldSeparators([]rune{0x1})
					t.SetQuoteSymbols(quotes)
					t.SetFieldSeparators(seps)
				} else if cfg == "after-rejected" {
					// a rejected configuration call (a separator that is a quote symbol) in between leaves everything as it was
					t.SetFieldSeparators([]rune{0x1})
					t.SetQuoteSymbols(quotes)
					t.SetFieldSeparators(seps)
					guarded(func() { t.SetFieldSeparators([]rune{0x2, quotes[0]}) })
					guarded(func() { t.SetQuoteSymbols([]rune{0x3, seps[0]}) })
					guarded(func() { t.SetFieldSeparators([]rune{'\n'}) })
					t.SetQuoteSymbols(quotes) // a valid call rebuilds the states from what is stored
				} else if cfg == "eolfirst" {
					// the row separator property is set before the other setters run (it names what a writer would put between
					// rows; all four line-break spellings are still row ends when reading)
					t.SetEndOfLine([]string{"\n", "\r", "\r\n", "|"}[len(text)%4])
					t.SetFieldSeparators([]rune{0x1})
					t.SetQuoteSymbols(quotes)
					t.SetFieldSeparators(seps)
				} else if cfg == "sameslice" {
					// the caller keeps ONE slice for its separators (and one for its quote symbols), writes the new characters into it
					// and hands it over again
					sb, qb := make([]rune, len(seps)), make([]rune, len(quotes))
					for i := range sb {
						sb[i] = rune(0x1 + i)
					}
					for i := range qb {
						qb[i] = rune(0x11 + i)
					}
					t.SetFieldSeparators(sb)
					t.SetQuoteSymbols(qb)
					copy(qb, quotes)
					t.SetQuoteSymbols(qb)
					copy(sb, seps)
					t.SetFieldSeparators(sb)
				} else if cfg == "views" {
					// separators and quote symbols handed over as two views into ONE array of the caller's (the first one with spare
					// capacity reaching into the second): the library copies or only reads them
					all := make([]rune, 0, len(seps)+len(quotes)+4)
					all = append(append(all, seps...), quotes...)
					if len(text)%2 == 0 {
						t.SetFieldSeparators([]rune{0x1})
						t.SetQuoteSymbols(all[len(seps):])
						t.SetFieldSeparators(all[:len(seps)])
					} else {
						t.SetQuoteSymbols([]rune{0x2}) // (another quote symbol is in force while the separators are handed over)
						t.SetFieldSeparators(all[:len(seps)])
						t.SetQuoteSymbols(all[len(seps):])
					}
					if string(all) != string(seps)+string(quotes) {
						e["held_what"], e["held_then"], e["held_now"] = "the caller's array of separators and quote symbols after it was handed to the setters", string(seps)+string(quotes), string(all)
					}
				} else if cfg == "quoteslast" {
					// the quote symbols are replaced as the LAST configuration call: a character of the text served as the quote symbol
					// in between and is an ordinary character again (seeded C09-r8-2)
					t.SetFieldSeparators(seps)
					for _, ch := range text {
						if ch > 0x1 && ch != '\r' && ch != '\n' && !strings.ContainsRune(string(seps), ch) && !strings.ContainsRune(string(quotes), ch) {
							t.SetQuoteSymbols([]rune{ch})
							break
						}
					}
					t.SetQuoteSymbols(quotes)
				} else if cfg == "doubled" {
					// every separator and quote character listed twice
					t.SetFieldSeparators(append(append([]rune{}, seps...), seps...))
					t.SetQuoteSymbols(append(append([]rune{}, quotes...), quotes...))
				} else if cfg == "getset" && len(seps) == 1 {
					// the list handed out by the getter, changed and handed back
					buf := t.FieldSeparators()
					buf[0] = seps[0]
					t.SetFieldSeparators(buf)
					qb := t.QuoteSymbols()
					t.SetQuoteSymbols(qb)
				} else {
					t.SetFieldSeparators(seps)
				}
			}
			t.SetDecodeStrings(true)
			if len(text)%3 == 0 {
				t.SetUnifyNumbers(true) // there are no numbers in CSV: the option changes nothing
				e["unify"] = true
			}
			toks = t.TokenizeBuffer(text)
			// the list stays what it was when the same tokenizer goes on to another table
			then := tokRender(toks)
			t.TokenizeBuffer("x" + string(seps[0]) + string(quotes[0]) + "y" + string(quotes[0]) + eol + text)
			if now := tokRender(toks); now != then {
				e["held_what"], e["held_then"], e["held_now"] = "token list after the same tokenizer tokenized another table", short(then), short(now)
			}
			tk, tx := t, text
			hold("token list and tokenizer of the previous table", func() string { return then[:0] + tokRender(toks) + tokRender(tk.TokenizeBuffer(tx)) })
		})
		tj := [][]any{}
		for _, t := range toks {
			tj = append(tj, []any{t.Type(), cps(t.Value())})
		}
		e["toks"], e["outcome"] = tj, oc
		if det != "" {
			e["detail"] = det
		}
		out = append(out, e)
	}
	return out
}

func genC09(g *Gen) {
	r := g.Rand()
	sepSets := [][]rune{{','}, {';'}, {',', ';'}, {'\t', '|', ','}, {0x2502}, {',', 0xA6, 0x3001}}
	quoteSets := [][]rune{{'"'}, {'\''}, {'"', '\''}, {'`', '"'}, {0x201C}, {'"', 0xAB}}
	eols := []string{"\n", "\r", "\r\n", "\n\r"}
	special := func(seps, quotes []rune, c rune) bool {
		if c == '\r' || c == '\n' {
			return true
		}
		for _, s := range seps {
			if s == c {
				return true
			}
		}
		for _, q := range quotes {
			if q == c {
				return true
			}
		}
		return false
	}
	emit := func(gen string, seps, quotes []rune, eol string, fields [][][]rune, forceQuote bool) {
		var table, plans []any
		for _, row := range fields {
			var trow, prow []any
			for _, f := range row {
				raw := true
				for _, c := range f {
					if special(seps, quotes, c) {
						raw = false
					}
				}
				mode := "raw"
				if !raw || forceQuote || r.Intn(3) == 0 {
					mode = "quoted"
				}
				trow = append(trow, cpsR(f))
				prow = append(prow, []any{mode, int(quotes[r.Intn(len(quotes))]), int(seps[r.Intn(len(seps))])})
			}
			table = append(table, trow)
			plans = append(plans, prow)
		}
		cfg := "set"
		switch x := r.Intn(12); {
		case x == 9:
			cfg = "eolfirst"
		case x == 10:
			cfg = "views"
		case x == 11:
			cfg = "sameslice"
		case len(seps) == 1 && x < 3:
			cfg = "getset"
		case x == 3 || x == 4:
			cfg = "after-other"
		case x == 5:
			cfg = "doubled"
		case x == 6:
			cfg = "after-rejected"
		case x == 7:
			cfg = "quoteslast"
		}
		g.Run(gen, []Ev{{"op": "csv", "seps": cpsR(seps), "quotes": cpsR(quotes), "eol": cps(eol), "table": table, "plans": plans, "cfg": cfg}})
	}
	// (1) exhaustive small scope: all tables of 2 rows x 1..2 columns with fields <= 1 over the significant characters,
	//     default configuration, every line ending; fields <= 2 for single-field tables
	alpha := []rune{'a', ',', '"', '\'', '\r', '\n', 0xe9, 0x416, 0x0B, 0x0C}
	var f1 [][]rune
	allStrings(alpha, 1, func(s []rune) { f1 = append(f1, s) })
	var f2 [][]rune
	allStrings(alpha, 2, func(s []rune) { f2 = append(f2, s) })
	for _, eol := range eols {
		for _, a := range f1 {
			for _, b := range f1 {
				for _, c := range f1 {
					emit("all 2x(2,1) tables, fields<=1, 4 line endings", []rune{','}, []rune{'"', '\''}, eol, [][][]rune{{a, b}, {c}}, false)
				}
			}
		}
		for _, a := range f2 {
			for _, b := range f1 {
				emit("all 2x1 tables, fields<=2, 4 line endings", []rune{',', ';'}, []rune{'"'}, eol, [][][]rune{{a}, {b}}, false)
			}
		}
	}
	// (1b) a quote character at every offset of a long quoted field; long fields, rows and tables; rare code points; non-Latin data
	rp := func(c rune, k int) []rune { return []rune(strings.Repeat(string(c), k)) }
	for pos := 0; pos <= g.Pick(300, 1100); pos++ {
		for ci, cf := range [][2][]rune{{{','}, {'"'}}, {{';'}, {'\'', '"'}}, {{0x2502}, {0x201C}}} {
			if ci > 0 && pos%7 != 0 {
				continue
			}
			q := cf[1][0]
			emit("a quote at every offset of a long field", cf[0], cf[1], "\n", [][][]rune{{append(append(rp('a', pos), q), 'b', 'c'), []rune("x")}}, true)
			if pos%3 == 0 {
				emit("a quote at every offset of a long field", cf[0], cf[1], "\r\n", [][][]rune{{[]rune("y"), append(append(rp(0x416, pos), q, q), cf[0][0], '\n')}, {[]rune("z")}}, true)
			}
		}
	}
	for _, sz := range g.WithRandomSizes([]int{63, 64, 65, 127, 128, 129, 255, 256, 257, 1000, 1025, 4097}, g.Pick(6, 10), 2, g.Pick(260, 2600)) {
		if sz > g.Pick(260, 4100) {
			continue
		}
		for _, c := range []rune{'a', '"', ',', '\n', ' ', 0x416, 0xFFFE} {
			emit("long fields", []rune{','}, []rune{'"'}, "\n", [][][]rune{{rp(c, sz), []rune("x")}, {[]rune("y")}}, false)
			emit("long fields", []rune{';', ','}, []rune{'\'', '"'}, "\r\n", [][][]rune{{[]rune("x"), rp(c, sz)}}, true)
		}
		var wide [][]rune
		var tall [][][]rune
		for i := 0; i < sz; i++ {
			wide = append(wide, []rune(fmt.Sprint(i%10)))
			tall = append(tall, [][]rune{[]rune(fmt.Sprint(i % 7)), {}})
		}
		emit("wide and tall tables", []rune{','}, []rune{'"'}, "\n", [][][]rune{wide, wide[:sz/2]}, false)
		emit("wide and tall tables", []rune{','}, []rune{'"'}, "\r\n", tall, false)
	}
	for _, c := range rareRunes {
		for ci := range sepSets {
			seps, quotes := sepSets[ci], quoteSets[ci]
			if c == 0 || c > 0xFFFE || special(seps, quotes, c) { // the statement covers characters up to U+FFFE
				continue
			}
			emit("rare code points in fields", seps, quotes, eols[ci%4], [][][]rune{{{c}, {'a', c}, {c, 'a'}}, {{c, c}, {}, {'"', c}}}, false)
			emit("rare code points in fields", seps, quotes, eols[(ci+1)%4], [][][]rune{{{0x65e5, 0x672c, c}, {c, 0x8a9e}}}, ci%2 == 0)
		}
	}
	for _, cf := range [][2][]rune{{{0xFF1B}, {'"'}}, {{0x2502}, {0x201C}}, {{0x3001, ','}, {0xAB, '"'}}, {{0x100}, {0x101}}, {{0xFFFE}, {0xFFFD}}, {{0xFF}, {0xFE}}} {
		for _, data := range [][][]rune{{[]rune("日本"), []rune("語")}, {[]rune("a日"), []rune("本b"), {}}, {[]rune("страна"), []rune("x"), []rune("Жук")}, {{0x100}, {0xFFFD, 0xFF}, {0x101, 0x2502}}} {
			for _, eol := range eols {
				emit("non-Latin data x non-Latin separators and quotes", cf[0], cf[1], eol, [][][]rune{data, data[:1]}, false)
				emit("non-Latin data x non-Latin separators and quotes", cf[0], cf[1], eol, [][][]rune{data}, true)
			}
		}
	}
	// (2) random larger tables over the Basic Multilingual Plane x configurations x line endings
	n := g.Pick(3000, 80000)
	for i := 0; i < n; i++ {
		seps := sepSets[r.Intn(len(sepSets))]
		quotes := quoteSets[r.Intn(len(quoteSets))]
		eol := eols[r.Intn(4)]
		nr, nc := 1+r.Intn(6), 1+r.Intn(6)
		var fields [][][]rune
		for a := 0; a < nr; a++ {
			var row [][]rune
			for b := 0; b < nc; b++ {
				ln := r.Intn(13)
				if r.Intn(4) == 0 {
					ln = 0
				}
				f := make([]rune, ln)
				for k := range f {
					switch x := r.Intn(12); {
					case x < 4:
						f[k] = rune('a' + r.Intn(26))
					case x < 5:
						f[k] = seps[r.Intn(len(seps))]
					case x < 7:
						f[k] = quotes[r.Intn(len(quotes))]
					case x < 8:
						f[k] = []rune{'\r', '\n'}[r.Intn(2)]
					case x < 9:
						f[k] = ' '
					case x < 11:
						f[k] = rune(0xA0 + r.Intn(0xFF00))
						if f[k] >= 0xD800 && f[k] <= 0xDFFF {
							f[k] = 0x416
						}
					default:
						f[k] = []rune{0xFFFE, 0x100, 0xFF, 0x2028, '\t', 1, 0x0B, 0x0C, 0x0E, 0x1F, 0x7F, 0x85, 0xA0, 0x09, 0x08}[r.Intn(15)]
					}
				}
				row = append(row, f)
			}
			fields = append(fields, row)
		}
		emit("random tables x configurations", seps, quotes, eol, fields, r.Intn(5) == 0)
	}
}
