package main

import (
	"strings"
	"fmt"
	"math"

	sio "github.com/pip-services3-gox/pip-services3-expressions-gox/io"
	"github.com/pip-services3-gox/pip-services3-expressions-gox/tokenizers"
	"github.com/pip-services3-gox/pip-services3-expressions-gox/tokenizers/generic"
	"github.com/pip-services3-gox/pip-services3-expressions-gox/tokenizers/utilities"
)

// C17: character-class maps answer with the latest covering registration.
func init() {
	props["C17"] = &Prop{
		Generate: genC17,
		Exec:     execC17,
		Rule: "segment = one history of AddInterval/AddDefaultInterval/Clear on one target, all probes looked up after every " +
			"operation; non-trivial = distinct history with >= 2 operations of which one range spans or lies above U+0100",
		NonTrivial: func(seg []Ev) string {
			if len(seg) < 3 {
				return ""
			}
			above := false
			key := fmt.Sprint(seg[0]["target"])
			for _, e := range seg[1:] {
				key += fmt.Sprint("|", e["op"], e["lo"], e["hi"], e["ref"])
				if e["op"] == "adddefault" || (e["op"] == "add" && e["hi"].(int) >= 0x100) {
					above = true
				}
			}
			if above {
				return key
			}
			return ""
		},
	}
}

var c17ends = []int{0, 'a', 0xFF, 0x100, 0x101, 0x2000, 0xFFFE}

// probes that are never range endpoints: characters whose low 8 or 16 bits alias a boundary character, the replacement
// character, supplementary planes
var c17extraProbes = []int{0xffff, 0x1f64f, 0x1f650, 0x1f618, 0x161, 0x1ff, 0x200, 0x2061, 0xff61, 0xfffd, 0x10000, 0x10041, 0x10061, 0x100ff, 0x10100, 0x1000a, 0x2000b, 0x12000, 0x1f600, 0x10ffff}

func c17probes() []int {
	out := c17endProbes()
	return append(out, c17extraProbes...)
}

func c17endProbes() []int {
	seen := map[int]bool{}
	var out []int
	for _, e := range c17ends {
		for _, p := range []int{e - 1, e, e + 1} {
			if p >= 0 && !seen[p] {
				seen[p] = true
				out = append(out, p)
			}
		}
	}
	return out
}

type c17ref struct{ name string }

// a target under test
type c17target interface {
	add(lo, hi rune, ref string)
	clear()
	look(ch rune) string
}

type c17map struct {
	m    *utilities.CharReferenceMap
	a, b *c17ref
	a2   *c17ref // another object with the same contents as a
}

func (t *c17map) ref(r string) any {
	switch r {
	case "A":
		return t.a
	case "B":
		return t.b
	case "A2":
		return t.a2
	case "F": // plain values as references
		return false
	case "Z":
		return 0
	case "E":
		return ""
	}
	return nil
}
func (t *c17map) add(lo, hi rune, ref string) { t.m.AddInterval(lo, hi, t.ref(ref)) }
func (t *c17map) clear()                      { t.m.Clear() }
func (t *c17map) look(ch rune) string {
	v := t.m.Lookup(ch)
	switch {
	case v == nil:
		return "nil"
	case v == any(t.a):
		return "A"
	case v == any(t.b):
		return "B"
	case v == any(t.a2):
		return "A2"
	case v == any(false):
		return "F"
	case v == any(0):
		return "Z"
	case v == any(""):
		return "E"
	}
	return fmt.Sprintf("other:%T", v)
}

// a tokenizer whose configured states are marker states: which state a character is handed to is observed by reading it
type markState struct{ id int }

func (s *markState) NextToken(scanner sio.IScanner, tokenizer tokenizers.ITokenizer) *tokenizers.Token {
	scanner.Read()
	return tokenizers.NewToken(100+s.id, "m", 0, 0)
}

// the same as a function type (values of it cannot be compared with ==)
type markFunc func(scanner sio.IScanner) *tokenizers.Token

func (f markFunc) NextToken(scanner sio.IScanner, tokenizer tokenizers.ITokenizer) *tokenizers.Token { return f(scanner) }

type c17read struct {
	t    *generic.GenericTokenizer
	a, b tokenizers.ITokenizerState
}

func (t *c17read) add(lo, hi rune, ref string) {
	// the character that starts the last token read before the change is one of the new range's ends
	t.look(hi)
	t.look(lo)
	switch ref {
	case "A":
		t.t.SetCharacterState(lo, hi, t.a)
	case "B":
		t.t.SetCharacterState(lo, hi, t.b)
	default:
		t.t.SetCharacterState(lo, hi, nil)
	}
}
func (t *c17read) clear() { t.t.ClearCharacterStates() }
func (t *c17read) look(ch rune) string {
	toks := t.t.TokenizeBuffer(string([]rune{ch}))
	if len(toks) == 0 {
		return "none"
	}
	switch toks[0].Type() {
	case 100:
		return "A"
	case 101:
		return "B"
	case tokenizers.Unknown:
		return "nil"
	}
	return fmt.Sprint("type:", toks[0].Type())
}

// the same marker states, but ONE reader stays attached over a long text (the probe characters in a cycle) while the character
// states are changed: every look-up reads on in that stream until the wanted character comes by
type c17mid struct {
	t     *generic.GenericTokenizer
	a, b  tokenizers.ITokenizerState
	cycle []rune
	i     int // characters consumed so far (every token is one character long)
	left  int
}

func (t *c17mid) attach() {
	var sb strings.Builder
	for k := 0; k < 300; k++ {
		sb.WriteString(string(t.cycle))
	}
	t.t.SetReader(sio.NewStringScanner(sb.String()))
	t.i, t.left = 0, 300*len(t.cycle)
}
func (t *c17mid) add(lo, hi rune, ref string) {
	switch ref {
	case "A":
		t.t.SetCharacterState(lo, hi, t.a)
	case "B":
		t.t.SetCharacterState(lo, hi, t.b)
	default:
		t.t.SetCharacterState(lo, hi, nil)
	}
}
func (t *c17mid) clear() { t.t.ClearCharacterStates() }
func (t *c17mid) look(ch rune) string {
	for n := 0; n < 3*len(t.cycle); n++ {
		if t.left < 2 {
			t.attach()
		}
		cur := t.cycle[t.i%len(t.cycle)]
		tok := t.t.NextToken()
		t.i++
		t.left--
		if tok == nil {
			return "none"
		}
		if len([]rune(tok.Value())) != 1 && tok.Type() != 100 && tok.Type() != 101 {
			return fmt.Sprint("len:", len([]rune(tok.Value())))
		}
		if cur != ch {
			continue
		}
		switch tok.Type() {
		case 100:
			return "A"
		case 101:
			return "B"
		case tokenizers.Unknown:
			return "nil"
		}
		return fmt.Sprint("type:", tok.Type())
	}
	return "not in the cycle"
}

type c17tok struct {
	t    *generic.GenericTokenizer
	a, b tokenizers.ITokenizerState
}

func (t *c17tok) add(lo, hi rune, ref string) {
	switch ref {
	case "A":
		t.t.SetCharacterState(lo, hi, t.a)
	case "B":
		t.t.SetCharacterState(lo, hi, t.b)
	default:
		t.t.SetCharacterState(lo, hi, nil)
	}
}
func (t *c17tok) clear() { t.t.ClearCharacterStates() }
func (t *c17tok) look(ch rune) string {
	v := t.t.GetCharacterState(ch)
	switch {
	case v == nil:
		return "nil"
	case v == t.a:
		return "A"
	case v == t.b:
		return "B"
	}
	return fmt.Sprintf("other:%T", v)
}

// word / whitespace character classes observed through tokenization of a probe string (probe character, then '!')
type c17cls struct {
	w  *generic.GenericWordState
	ws *generic.GenericWhitespaceState
}

func (t *c17cls) add(lo, hi rune, ref string) {
	if t.w != nil {
		t.w.SetWordChars(lo, hi, ref != "nil")
	} else {
		t.ws.SetWhitespaceChars(lo, hi, ref != "nil")
	}
}
func (t *c17cls) clear() {
	if t.w != nil {
		t.w.ClearWordChars()
	} else {
		t.ws.ClearWhitespaceChars()
	}
}
func (t *c17cls) look(ch rune) string {
	// the state consumes every leading character of its class
	sc := sio.NewStringScanner(string([]rune{ch, '!'}))
	var tok *tokenizers.Token
	if t.w != nil {
		tok = t.w.NextToken(sc, nil)
	} else {
		tok = t.ws.NextToken(sc, nil)
	}
	if len(tok.Value()) > 0 {
		return "set"
	}
	return "nil"
}

func execC17(seg []Ev) []Ev {
	var t c17target
	probes := c17probes()
	out := make([]Ev, 0, len(seg))
	for _, in := range seg {
		e := Ev{"op": in["op"]}
		switch toStr(in["op"]) {
		case "new":
			e["target"] = in["target"]
			switch toStr(in["target"]) {
			case "map":
				t = &c17map{m: utilities.NewCharReferenceMap(), a: &c17ref{"A"}, b: &c17ref{"B"}, a2: &c17ref{"A"}}
			case "tokread":
				g := generic.NewGenericTokenizer()
				g.ClearCharacterStates()
				t = &c17read{t: g, a: &markState{0}, b: &markState{1}}
			case "tokfunc":
				g := generic.NewGenericTokenizer()
				g.ClearCharacterStates()
				mk := func(id int) markFunc {
					return func(sc sio.IScanner) *tokenizers.Token { sc.Read(); return tokenizers.NewToken(100+id, "m", 0, 0) }
				}
				t = &c17read{t: g, a: mk(0), b: mk(1)}
			case "tokmid":
				g := generic.NewGenericTokenizer()
				g.ClearCharacterStates()
				setOpts(g, 0)
				var cyc []rune
				for _, p := range probes {
					cyc = append(cyc, rune(p))
				}
				m := &c17mid{t: g, a: &markState{0}, b: &markState{1}, cycle: cyc}
				m.attach()
				t = m
			case "tokenizer":
				g := generic.NewGenericTokenizer()
				g.ClearCharacterStates()
				t = &c17tok{t: g, a: g.WordState(), b: g.SymbolState()}
			case "word":
				w := generic.NewGenericWordState()
				w.ClearWordChars()
				t = &c17cls{w: w}
			case "ws":
				w := generic.NewGenericWhitespaceState()
				w.ClearWhitespaceChars()
				t = &c17cls{ws: w}
			case "ws0": // as constructed: the default registration (0..' ') is part of the history
				t = &c17cls{ws: generic.NewGenericWhitespaceState()}
			case "word0":
				t = &c17cls{w: generic.NewGenericWordState()}
			default:
				panic("C17 target")
			}
		case "add":
			lo, hi, ref := toInt(in["lo"]), toInt(in["hi"]), toStr(in["ref"])
			e["lo"], e["hi"], e["ref"] = lo, hi, ref
			t.add(rune(lo), rune(hi), ref)
		case "adddefault":
			ref := toStr(in["ref"])
			e["ref"] = ref
			if m, ok := t.(*c17map); ok {
				m.m.AddDefaultInterval(m.ref(ref))
			} else {
				t.add(0, 0xfffe, ref)
			}
		case "clear":
			t.clear()
		}
		look := make([][]any, 0, len(probes))
		first := map[int]string{}
		if lo, ok := in["lo"]; ok {
			// the ends of the range just registered are looked up first
			first[toInt(lo)] = t.look(rune(toInt(lo)))
		}
		for _, p := range probes {
			if v, ok := first[p]; ok {
				look = append(look, []any{p, v})
				continue
			}
			look = append(look, []any{p, t.look(rune(p))})
		}
		e["obs"] = Ev{"look": look}
		out = append(out, e)
	}
	return out
}

func c17ops() []Ev {
	var ops []Ev
	for _, lo := range c17ends {
		for _, hi := range c17ends {
			if lo <= hi {
				for _, r := range []string{"A", "B", "nil"} {
					ops = append(ops, Ev{"op": "add", "lo": lo, "hi": hi, "ref": r})
				}
			}
		}
	}
	for _, r := range []string{"A", "B", "nil"} {
		ops = append(ops, Ev{"op": "adddefault", "ref": r})
	}
	ops = append(ops, Ev{"op": "clear"})
	return ops
}

func cloneEv(e Ev) Ev {
	n := Ev{}
	for k, v := range e {
		n[k] = v
	}
	return n
}

func genC17(g *Gen) {
	ops := c17ops()
	targets := []string{"map", "tokenizer", "word", "ws", "ws0", "word0", "tokread", "tokfunc", "tokmid"}
	// exhaustive histories of length <= 2 on the map and the tokenizer, length 1 and a sample of 2 on the classes
	for _, tg := range targets {
		for _, o1 := range ops {
			g.Run("exhaustive-1:"+tg, []Ev{{"op": "new", "target": tg}, cloneEv(o1)})
		}
	}
	// two reference objects with equal contents; ranges that lie above U+FFFE
	for _, lo := range c17ends {
		for _, hi := range c17ends {
			if lo > hi {
				continue
			}
			for _, order := range [][]string{{"A", "A2"}, {"A2", "A"}, {"B", "A", "A2"}, {"A", "A2", "nil", "A2", "A"}, {"A", "F"}, {"F", "Z", "E"}, {"E", "nil", "Z"}, {"nil", "F", "B"}} {
				seg := []Ev{{"op": "new", "target": "map"}}
				for _, r := range order {
					seg = append(seg, Ev{"op": "add", "lo": lo, "hi": hi, "ref": r})
				}
				g.Run("equal but distinct reference objects", seg)
			}
		}
	}
	for _, tg := range []string{"map", "tokenizer", "tokread"} {
		for _, rg := range [][2]int{{0x10000, 0x10FFFF}, {0x10000, math.MaxInt32}, {0xFFFF, 0x10000}, {0x10041, 0x10041}, {0x1F600, 0x1F600}} {
			g.Run("ranges above U+FFFE", []Ev{{"op": "new", "target": tg}, {"op": "add", "lo": rg[0], "hi": rg[1], "ref": "A"}, {"op": "add", "lo": 'a', "hi": 0x2000, "ref": "B"},
				{"op": "add", "lo": rg[0], "hi": rg[0], "ref": "nil"}, {"op": "add", "lo": rg[0], "hi": rg[1], "ref": "B"}, {"op": "clear"}, {"op": "add", "lo": rg[0], "hi": rg[1], "ref": "A"}})
		}
	}
	// ranges above, at and across the end of the configured range (U+FFFE), registered in every order of two and (sampled) three
	{
		hr := [][2]int{{0x1F600, 0x1F64F}, {0xFFFF, 0xFFFF}, {0x10000, 0x10FFFF}, {0x100, 0x10FFFF}, {0, 0xFFFF}, {0, 0xFFFE}, {0x100, 0xFFFE}, {0xFFFE, 0x10000}, {0x1F610, 0x1F620}}
		for _, tg := range []string{"map", "word", "tokenizer"} {
			refs := []string{"A", "B", "nil"}
			if tg == "word" {
				refs = []string{"A", "nil"}
			}
			var hops []Ev
			for _, rg := range hr {
				for _, rf := range refs {
					hops = append(hops, Ev{"op": "add", "lo": rg[0], "hi": rg[1], "ref": rf})
				}
			}
			hops = append(hops, Ev{"op": "clear"})
			for i, o1 := range hops {
				for j, o2 := range hops {
					g.Run("ranges above and across U+FFFE in every order:"+tg, []Ev{{"op": "new", "target": tg}, cloneEv(o1), cloneEv(o2)})
					if (i+j)%3 == 0 || g.Thorough() {
						o3 := hops[(i*7+j*3)%len(hops)]
						g.Run("ranges above and across U+FFFE in every order:"+tg, []Ev{{"op": "new", "target": tg}, cloneEv(o1), cloneEv(o2), cloneEv(o3)})
					}
				}
			}
		}
	}
	for _, tg := range []string{"map", "tokenizer", "tokread", "tokfunc", "tokmid"} {
		for _, o1 := range ops {
			for _, o2 := range ops {
				if (tg == "tokfunc" || tg == "tokmid") && (len(fmt.Sprint(o1, o2))%4 != 0) && !g.Thorough() {
					continue
				}
				g.Run("exhaustive-2:"+tg, []Ev{{"op": "new", "target": tg}, cloneEv(o1), cloneEv(o2)})
			}
		}
	}
	r := g.Rand()
	// random histories (length 2 on the classes, 3..6 everywhere); endpoints also from the neighbours of the boundary set
	n := g.Pick(1500, 200000)
	probes := c17endProbes()
	// long histories: dozens to hundreds of registrations on one target, newer ranges nested in older ones and the other way round
	for _, tg := range targets[:2] {
		for _, cnt := range []int{33, 64, 65, 66, 70, 129, 257, 300} {
			if cnt > g.Pick(130, 300) {
				continue
			}
			for variant := 0; variant < 3; variant++ {
				seg := []Ev{{"op": "new", "target": tg}}
				if variant != 1 {
					seg = append(seg, Ev{"op": "add", "lo": 0x100, "hi": 0xFFFE, "ref": "A"})
				}
				for i := 0; i < cnt; i++ {
					lo := 0x2000 - i
					hi := 0x2000 + i
					if variant == 2 {
						lo, hi = 0x100+i, 0x101+i
					}
					if i%9 == 8 {
						lo, hi = 'a'-i%5, 0x100+i
					}
					seg = append(seg, Ev{"op": "add", "lo": lo, "hi": hi, "ref": []string{"B", "nil", "A"}[i%3]})
				}
				seg = append(seg, Ev{"op": "add", "lo": 0x1FFF, "hi": 0x2001, "ref": "B"}, Ev{"op": "add", "lo": 0xFF, "hi": 0x100, "ref": "nil"})
				g.Run("long histories:"+tg, seg)
			}
		}
	}
	for i := 0; i < n; i++ {
		tg := targets[r.Intn(len(targets))]
		seg := []Ev{{"op": "new", "target": tg}}
		ln := 2 + r.Intn(5)
		for j := 0; j < ln; j++ {
			if r.Intn(4) == 0 {
				a, b := probes[r.Intn(len(probes))], probes[r.Intn(len(probes))]
				if a > b {
					a, b = b, a
				}
				if a > 0xFFFE { // a range that starts above the configured range is outside the stated domain
					a = 0xFFFE
				}
				seg = append(seg, Ev{"op": "add", "lo": a, "hi": b, "ref": []string{"A", "B", "nil"}[r.Intn(3)]})
			} else {
				seg = append(seg, cloneEv(ops[r.Intn(len(ops))]))
			}
		}
		g.Run("random:"+tg, seg)
	}
	g.w.extra["operations"] = len(ops)
	g.w.extra["probes"] = len(probes)
}
