package main

import (
	"fmt"
	"strings"

	"github.com/pip-services3-gox/pip-services3-expressions-gox/calculator"
	"github.com/pip-services3-gox/pip-services3-expressions-gox/calculator/parsers"
	"github.com/pip-services3-gox/pip-services3-expressions-gox/calculator/variables"
	"github.com/pip-services3-gox/pip-services3-expressions-gox/mustache"
	"github.com/pip-services3-gox/pip-services3-expressions-gox/variants"
)

// C05, second part: reused parser / calculator / template instances compared with fresh ones.
// A segment is: {"op":"newinst","what":W} followed by {"op":"reuse","what":W,"input":text} events; the
// executor keeps one long-lived instance per segment and builds a fresh one for every event.

type c05inst struct {
	parser *parsers.ExpressionParser
	calc   *calculator.ExpressionCalculator
	tmpl   *mustache.MustacheTemplate
}

var c05cur *c05inst

func obsParser(p *parsers.ExpressionParser, text string) []any {
	var err error
	oc, _ := guarded(func() { err = p.ParseString(text) })
	if oc != "ok" {
		return []any{"panic"}
	}
	if err != nil {
		return []any{"error", errCode(err)}
	}
	rp := rpnJSON(p.ResultTokens())
	flat := []string{}
	for _, x := range rp {
		flat = append(flat, x[0]+":"+x[1])
	}
	return []any{"ok", strings.Join(flat, " "), strings.Join(p.VariableNames(), ",")}
}

func c05vars() *variables.VariableCollection {
	vs := variables.NewVariableCollection()
	vs.Add(variables.NewVariable("a", variants.VariantFromInteger(7)))
	vs.Add(variables.NewVariable("b", variants.VariantFromInteger(3)))
	vs.Add(variables.NewVariable("s", variants.VariantFromString("abc")))
	return vs
}

func obsCalc(c *calculator.ExpressionCalculator, text string) []any {
	var err error
	var res *variants.Variant
	oc, _ := guarded(func() {
		err = c.SetExpression(text)
		if err == nil {
			res, err = c.EvaluateUsingVariables(c05vars())
		}
	})
	if oc != "ok" {
		return []any{"panic"}
	}
	if err != nil {
		return []any{"error", errCode(err)}
	}
	if res == nil {
		return []any{"nil"}
	}
	return []any{"ok", int(res.Type()), res.String()}
}

func obsTmpl(t *mustache.MustacheTemplate, text string) []any {
	var err error
	var res string
	oc, _ := guarded(func() {
		err = t.SetTemplate(text)
		if err == nil {
			res, err = t.EvaluateWithVariables(map[string]string{"a": "1", "NAME": "x<y", "e": ""})
		}
	})
	if oc != "ok" {
		return []any{"panic"}
	}
	if err != nil {
		return []any{"error", errCode(err)}
	}
	return []any{"ok", res}
}

func init() {
	mk := func(what string) func(in Ev) Ev {
		return func(in Ev) Ev {
			text := string(toRunes(in["input"]))
			e := Ev{"op": "reuse", "what": what, "input": cps(text)}
			if toBool(in["first"]) || c05cur == nil {
				c05cur = &c05inst{parser: parsers.NewExpressionParser(), calc: calculator.NewExpressionCalculator(), tmpl: mustache.NewMustacheTemplate()}
				c05cur.calc.SetAutoVariables(false)
				e["first"] = true
			} else {
				e["first"] = false
			}
			switch what {
			case "parser":
				e["obs"] = obsParser(c05cur.parser, text)
				e["fresh"] = obsParser(parsers.NewExpressionParser(), text)
			case "calculator":
				e["obs"] = obsCalc(c05cur.calc, text)
				fc := calculator.NewExpressionCalculator()
				fc.SetAutoVariables(false)
				e["fresh"] = obsCalc(fc, text)
			case "template":
				e["obs"] = obsTmpl(c05cur.tmpl, text)
				e["fresh"] = obsTmpl(mustache.NewMustacheTemplate(), text)
			}
			return e
		}
	}
	for _, w := range []string{"parser", "calculator", "template"} {
		c05exec[w] = mk(w)
	}
	c05extra = append(c05extra, genC05b)
}

var c05exprPool = []string{"a + b", "a <= b", "a <> b", "a << 1", "a >= b", "a >> 1", "a != b", "1 +", "2 + * 3", "(1 + 2", "a[1", "f(a,",
	"x y 7 + 1", "a * b + 2", "] ] ) , 5", "'abc' + s", "NOT a IS NULL", "a NOT", "", "$", "a IS", "Min(a, b)", "a /* c", "'open"}
var c05tmplPool = []string{"Hello, {{NAME}}!", "Hello, {{NAME", "{{#a}}x{{/a}}", "{{#a}}x", "{{/a}}", "{{{NAME}}}", "plain text", "{{", "}}", "",
	"{{#if e}}no{{/if}}{{^e}}yes{{/e}}", "{{a}}{{ NAME }} {", "{{#a}}{{#e}}{{/a}}", "{{! c }}t"}

func genC05b(g *Gen) {
	r := g.Rand()
	for _, what := range []string{"parser", "calculator", "template"} {
		pool := c05exprPool
		if what == "template" {
			pool = c05tmplPool
		}
		// all ordered pairs (thorough: triples), and random longer histories
		for _, x1 := range pool {
			for _, x2 := range pool {
				seg := []Ev{{"op": "reuse", "what": what, "input": cps(x1), "first": true}, {"op": "reuse", "what": what, "input": cps(x2), "first": false}}
				g.Run("reused "+what+": ordered pairs", seg)
				if g.Thorough() {
					for _, x3 := range pool {
						g.Run("reused "+what+": ordered triples", append(append([]Ev{}, cloneEv(seg[0]), cloneEv(seg[1])), Ev{"op": "reuse", "what": what, "input": cps(x3), "first": false}))
					}
				}
			}
		}
		n := g.Pick(150, 3000)
		for i := 0; i < n; i++ {
			var seg []Ev
			for k := 0; k < 3+r.Intn(6); k++ {
				var in string
				if what == "template" {
					in = pool[r.Intn(len(pool))]
					if r.Intn(3) == 0 {
						in = string(mutateSnippet(g, in))
					}
				} else if r.Intn(3) == 0 {
					in = strings.Join(randomSentence(g, 2), " ")
					in = strings.ReplaceAll(in, " s ", " 's' ")
				} else {
					in = pool[r.Intn(len(pool))]
				}
				seg = append(seg, Ev{"op": "reuse", "what": what, "input": cps(in), "first": k == 0})
			}
			g.Run("reused "+what+": random histories", seg)
		}
	}
	_ = fmt.Sprint
}
