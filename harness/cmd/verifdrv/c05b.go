package main

import (
	"fmt"
	"strings"

	"github.com/pip-services3-gox/pip-services3-expressions-gox/calculator"
	"github.com/pip-services3-gox/pip-services3-expressions-gox/calculator/parsers"
	"github.com/pip-services3-gox/pip-services3-expressions-gox/calculator/variables"
	"github.com/pip-services3-gox/pip-services3-expressions-gox/mustache"
	mparsers "github.com/pip-services3-gox/pip-services3-expressions-gox/mustache/parsers"
	"github.com/pip-services3-gox/pip-services3-expressions-gox/variants"
)

// C05, second part: reused parser / calculator / template instances compared with fresh ones.
// A segment is: {"op":"newinst","what":W} followed by {"op":"reuse","what":W,"input":text} events; the
// executor keeps one long-lived instance per segment and builds a fresh one for every event.

type c05inst struct {
	parser *parsers.ExpressionParser
	calc   *calculator.ExpressionCalculator
	tmpl   *mustache.MustacheTemplate
	mpars  *mparsers.MustacheParser
	fnops  []Ev   // changes made to the calculator's default functions so far (a fresh calculator gets the same ones)
	mgr    string // variant operations installed last ("" = the default)
	text   string // expression set last
}

type c05fn struct {
	name string
	k    int
}

func (f *c05fn) Name() string { return f.name }
func (f *c05fn) Calculate(params []*variants.Variant, ops variants.IVariantOperations) (*variants.Variant, error) {
	return variants.VariantFromInteger(f.k + len(params)), nil
}

func applyFnOp(c *calculator.ExpressionCalculator, op Ev) {
	guarded(func() {
		switch toStr(op["do"]) {
		case "remove":
			c.DefaultFunctions().RemoveByName(toStr(op["name"]))
		case "add":
			c.DefaultFunctions().Add(&c05fn{toStr(op["name"]), toInt(op["k"])})
		case "clearvars":
			c.DefaultVariables().Clear()
		case "rmvar":
			c.DefaultVariables().RemoveByName(toStr(op["name"]))
		case "addvar":
			c.DefaultVariables().Add(variables.NewVariable(toStr(op["name"]), variants.VariantFromInteger(toInt(op["k"]))))
		case "auto":
			c.SetAutoVariables(toInt(op["k"]) != 0)
		}
	})
}

// obsParserTokens: the same through ParseTokens with the lexical tokens of the text
func obsParserTokens(p *parsers.ExpressionParser, text string) []any {
	var err error
	toks := lexTokens(text)
	oc, _ := guarded(func() { err = p.ParseTokens(toks) })
	if oc != "ok" {
		return []any{"panic"}
	}
	if err != nil {
		return []any{"error", errCode(err)}
	}
	rp := rpnJSON(p.ResultTokens())
	flat := []string{}
	for _, x := range rp {
		flat = append(flat, x[0]+":"+x[1])
	}
	return []any{"ok", strings.Join(flat, " "), strings.Join(p.VariableNames(), ",")}
}

var c05cur *c05inst

func obsParser(p *parsers.ExpressionParser, text string) []any {
	var err error
	oc, _ := guarded(func() { err = p.ParseString(text) })
	if oc != "ok" {
		return []any{"panic"}
	}
	if err != nil {
		return []any{"error", errCode(err)}
	}
	rp := rpnJSON(p.ResultTokens())
	flat := []string{}
	for _, x := range rp {
		flat = append(flat, x[0]+":"+x[1])
	}
	return []any{"ok", strings.Join(flat, " "), strings.Join(p.VariableNames(), ","), tokRender(p.OriginalTokens())}
}

func c05vars() *variables.VariableCollection {
	vs := variables.NewVariableCollection()
	vs.Add(variables.NewVariable("a", variants.VariantFromInteger(7)))
	vs.Add(variables.NewVariable("b", variants.VariantFromInteger(3)))
	vs.Add(variables.NewVariable("s", variants.VariantFromString("abc")))
	return vs
}

func obsCalc(c *calculator.ExpressionCalculator, text string) []any {
	var err error
	var res *variants.Variant
	oc, _ := guarded(func() {
		err = c.SetExpression(text)
		if err == nil {
			res, err = c.EvaluateUsingVariables(c05vars())
		}
	})
	if oc != "ok" {
		return []any{"panic"}
	}
	if err != nil {
		return []any{"error", errCode(err)}
	}
	if res == nil {
		return []any{"nil"}
	}
	return []any{"ok", int(res.Type()), cl(res.String())}
}

func obsMParser(p *mparsers.MustacheParser, text string) []any {
	var err error
	if oc, _ := guarded(func() { err = p.SetTemplate(text) }); oc != "ok" {
		return []any{"panic"}
	}
	if err != nil {
		return []any{"error", errCode(err)}
	}
	var tree func(ts []*mparsers.MustacheToken) string
	tree = func(ts []*mparsers.MustacheToken) string {
		s := ""
		for _, t := range ts {
			s += fmt.Sprintf("%d:%q@%d:%d[%s] ", t.Type(), t.Value(), t.Line(), t.Column(), tree(t.Tokens()))
		}
		return s
	}
	return []any{"ok", tree(p.ResultTokens()), strings.Join(p.VariableNames(), ","), tokRender(p.OriginalTokens()), cl(p.Template())}
}

func obsTmpl(t *mustache.MustacheTemplate, text string) []any {
	var err error
	var res string
	oc, _ := guarded(func() {
		err = t.SetTemplate(text)
		if err == nil {
			res, err = t.EvaluateWithVariables(map[string]string{"a": "1", "NAME": "x<y", "e": ""})
		}
	})
	if oc != "ok" {
		return []any{"panic"}
	}
	if err != nil {
		return []any{"error", errCode(err)}
	}
	return []any{"ok", res}
}

func init() {
	mk := func(what string) func(in Ev) Ev {
		return func(in Ev) Ev {
			text := string(toRunes(in["input"]))
			e := Ev{"op": "reuse", "what": what, "input": cps(text)}
			if toBool(in["first"]) || c05cur == nil {
				c05cur = &c05inst{parser: parsers.NewExpressionParser(), calc: calculator.NewExpressionCalculator(), tmpl: mustache.NewMustacheTemplate(), mpars: mparsers.NewMustacheParser()}
				c05cur.calc.SetAutoVariables(false)
				e["first"] = true
			} else {
				e["first"] = false
			}
			switch what {
			case "parser":
				e["obs"] = obsParser(c05cur.parser, text)
				e["fresh"] = obsParser(parsers.NewExpressionParser(), text)
			case "ctor": // the constructors that take the text / the tokens: the same as constructing and then setting
				oc := func(c *calculator.ExpressionCalculator, err error) []any {
					if err != nil {
						return []any{"error", errCode(err)}
					}
					var res *variants.Variant
					if o, _ := guarded(func() { res, err = c.EvaluateUsingVariables(c05vars()) }); o != "ok" {
						return []any{"panic"}
					}
					if err != nil {
						return []any{"error", errCode(err)}
					}
					if res == nil {
						return []any{"nil"}
					}
					return []any{"ok", int(res.Type()), cl(res.String())}
				}
				var c1, c2, c3 *calculator.ExpressionCalculator
				var e1, e3 error
				guarded(func() { c1, e1 = calculator.ExpressionCalculatorFromExpression(text) })
				guarded(func() { c2 = calculator.ExpressionCalculatorFromTokens(lexTokens(text)) })
				guarded(func() { c3 = calculator.NewExpressionCalculator(); e3 = c3.SetExpression(text) })
				var t1, t3 *mustache.MustacheTemplate
				var te1, te3 error
				guarded(func() { t1, te1 = mustache.NewMustacheTemplateFromString(text) })
				guarded(func() { t3 = mustache.NewMustacheTemplate(); te3 = t3.SetTemplate(text) })
				tr := func(t *mustache.MustacheTemplate, err error) []any {
					if err != nil || t == nil {
						return []any{"error"}
					}
					var out string
					if o, _ := guarded(func() { out, err = t.EvaluateWithVariables(map[string]string{"a": "1", "NAME": "x"}) }); o != "ok" {
						return []any{"panic"}
					}
					return []any{"ok", out}
				}
				second := oc(c2, nil)
				if e3 != nil { // tokens of a text that does not parse: the constructor has no way to report it
					second = oc(c3, e3)
				}
				e["obs"] = []any{oc(c1, e1), second, tr(t1, te1)}
				e["fresh"] = []any{oc(c3, e3), oc(c3, e3), tr(t3, te3)}
			case "mparser": // the template parser: compiled token tree, variable names, original tokens
				e["obs"] = obsMParser(c05cur.mpars, text)
				e["fresh"] = obsMParser(mparsers.NewMustacheParser(), text)
			case "parsertok":
				e["obs"] = obsParserTokens(c05cur.parser, text)
				e["fresh"] = obsParserTokens(parsers.NewExpressionParser(), text)
			case "parserexpr": // the text the parser reports for what it holds, parsed again by the same parser
				text = c05cur.parser.Expression()
				e["input"] = cps(text)
				e["obs"] = obsParser(c05cur.parser, text)
				e["fresh"] = obsParser(parsers.NewExpressionParser(), text)
			case "setops": // another operations manager is installed; the expression is NOT set again
				c05cur.mgr = toStr(in["mgr"])
				e["mgr"] = c05cur.mgr
				c05cur.calc.SetVariantOperations(c06mgr(c05cur.mgr))
				e["obs"], e["fresh"] = []any{"done"}, []any{"done"}
			case "reeval": // evaluate what the calculator holds once more (no Set... in between)
				ev := func(c *calculator.ExpressionCalculator) []any {
					var res *variants.Variant
					var err error
					if oc, _ := guarded(func() { res, err = c.EvaluateUsingVariables(c05vars()) }); oc != "ok" {
						return []any{"panic"}
					}
					if err != nil {
						return []any{"error", errCode(err)}
					}
					if res == nil {
						return []any{"nil"}
					}
					return []any{"ok", int(res.Type()), cl(res.String())}
				}
				fc := calculator.NewExpressionCalculator()
				fc.SetAutoVariables(false)
				for _, op := range c05cur.fnops {
					applyFnOp(fc, op)
				}
				if c05cur.mgr != "" {
					fc.SetVariantOperations(c06mgr(c05cur.mgr))
				}
				text = c05cur.text
				e["input"] = cps(text)
				guarded(func() { fc.SetExpression(text) })
				e["obs"], e["fresh"] = ev(c05cur.calc), ev(fc)
			case "fnop":
				op := Ev{"do": in["do"], "name": in["name"], "k": in["k"]}
				e["do"], e["name"], e["k"] = in["do"], in["name"], in["k"]
				if toStr(in["do"]) == "clear" {
					// Clear() empties the variables: what a new calculator needs to get there is only the rest
					guarded(func() { c05cur.calc.Clear() })
					var keep []Ev
					for _, o := range c05cur.fnops {
						if d := toStr(o["do"]); d != "rmvar" && d != "addvar" && d != "clearvars" {
							keep = append(keep, o)
						}
					}
					c05cur.fnops, c05cur.text = keep, ""
					e["obs"], e["fresh"] = []any{"done"}, []any{"done"}
					return e
				}
				c05cur.fnops = append(c05cur.fnops, op)
				applyFnOp(c05cur.calc, op)
				e["obs"], e["fresh"] = []any{"done"}, []any{"done"}
			case "calceval": // evaluate what the calculator holds once more, with its default functions and variables
				ev := func(c *calculator.ExpressionCalculator) []any {
					var res *variants.Variant
					var err error
					if oc, _ := guarded(func() { res, err = c.Evaluate() }); oc != "ok" {
						return []any{"panic"}
					}
					if err != nil {
						return []any{"error", errCode(err)}
					}
					if res == nil {
						return []any{"nil"}
					}
					return []any{"ok", int(res.Type()), cl(res.String())}
				}
				fc := calculator.NewExpressionCalculator()
				fc.SetAutoVariables(false) // as the long-lived one was created; "auto" steps change both
				for _, op := range c05cur.fnops {
					applyFnOp(fc, op)
				}
				guarded(func() { fc.SetExpression(text) })
				guarded(func() { c05cur.calc.SetExpression(text) })
				e["obs"], e["fresh"] = ev(c05cur.calc), ev(fc)
			case "calculator":
				c05cur.text = text
				e["obs"] = obsCalc(c05cur.calc, text)
				fc := calculator.NewExpressionCalculator()
				fc.SetAutoVariables(false)
				for _, op := range c05cur.fnops {
					applyFnOp(fc, op)
				}
				if c05cur.mgr != "" {
					fc.SetVariantOperations(c06mgr(c05cur.mgr))
				}
				e["fresh"] = obsCalc(fc, text)
			case "template":
				e["obs"] = obsTmpl(c05cur.tmpl, text)
				e["fresh"] = obsTmpl(mustache.NewMustacheTemplate(), text)
			}
			return e
		}
	}
	for _, w := range []string{"mparser", "ctor", "parser", "calculator", "template", "parsertok", "parserexpr", "fnop", "calceval", "setops", "reeval"} {
		c05exec[w] = mk(w)
	}
	c05extra = append(c05extra, genC05b)
}

var c05exprPool = []string{"1 / 0", "arr[9]", "Nope(1)", "1 << (0 - 1)", "'a' - 1", "a / (b - 3)", "Min(1)", "a LIKE b", "'abc' = 'abc'", "'abc' = 'ABC'", "'x' + 'y'", "'x' + 'Y'", "s = 'abc'", "S = 'ABC'", "a + b", "a <= b", "a <> b", "a << 1", "a >= b", "a >> 1", "a != b", "1 +", "2 + * 3", "(1 + 2", "a[1", "f(a,",
	"x y 7 + 1", "a * b + 2", "] ] ) , 5", "'abc' + s", "NOT a IS NULL", "a NOT", "", "$", "a IS", "Min(a, b)", "a /* c", "'open"}
var c05tmplPool = []string{"Hello, {{NAME}}!", "Hello, {{NAME", "{{#a}}x{{/a}}", "{{#a}}x", "{{/a}}", "{{{NAME}}}", "plain text", "{{", "}}", "",
	"{{#if e}}no{{/if}}{{^e}}yes{{/e}}", "{{a}}{{ NAME }} {", "{{#a}}{{#e}}{{/a}}", "{{! c }}t", "  \t ", "{{b}} and {{B}}"}

func genC05b(g *Gen) {
	r := g.Rand()
	for _, what := range []string{"parser", "calculator", "template", "mparser"} {
		pool := c05exprPool
		if what == "template" || what == "mparser" {
			pool = c05tmplPool
		}
		// all ordered pairs (thorough: triples), and random longer histories
		for _, x1 := range pool {
			for _, x2 := range pool {
				seg := []Ev{{"op": "reuse", "what": what, "input": cps(x1), "first": true}, {"op": "reuse", "what": what, "input": cps(x2), "first": false}}
				g.Run("reused "+what+": ordered pairs", seg)
				if g.Thorough() {
					for _, x3 := range pool {
						g.Run("reused "+what+": ordered triples", append(append([]Ev{}, cloneEv(seg[0]), cloneEv(seg[1])), Ev{"op": "reuse", "what": what, "input": cps(x3), "first": false}))
					}
				}
			}
		}
		n := g.Pick(150, 3000)
		for i := 0; i < n; i++ {
			var seg []Ev
			for k := 0; k < 3+r.Intn(6); k++ {
				var in string
				if what == "template" || what == "mparser" {
					in = pool[r.Intn(len(pool))]
					if r.Intn(3) == 0 {
						in = string(mutateSnippet(g, in))
					}
				} else if r.Intn(3) == 0 {
					in = strings.Join(randomSentence(g, 2), " ")
					in = strings.ReplaceAll(in, " s ", " 's' ")
				} else {
					in = pool[r.Intn(len(pool))]
				}
				seg = append(seg, Ev{"op": "reuse", "what": what, "input": cps(in), "first": k == 0})
			}
			g.Run("reused "+what+": random histories", seg)
		}
	}
	for _, x := range append(append([]string{}, c05exprPool...), c05tmplPool...) {
		g.Run("constructors that take the text or the tokens", []Ev{{"op": "reuse", "what": "ctor", "input": cps(x), "first": true}})
	}
	// long-lived instances: hundreds of rejected inputs, then accepted ones (the N-th use behaves like the first)
	bad := []string{strings.Repeat("(", 45) + "1 +", strings.Repeat("{{#a}}", 40), strings.Repeat("f(", 30) + "1, ", "(((1 +", "2 * (3 + ", "f(1, (2", "a[", "((((((((", "NOT", "Min(((a)", "{{#a}}{{#a}}x", "{{#a}}", "{{/a}}", "{{a"}
	good := map[string][]string{"parser": {"(1 + 2) * Max(3, 4)", "a[1] + (b)"}, "calculator": {"(1 + 2) * Max(3, 4)", "((a)) + b"}, "template": {"{{#a}}x{{#a}}y{{/a}}{{/a}}", "Hello, {{NAME}}!"}}
	for _, what := range []string{"parser", "calculator", "template"} {
		for rep := 0; rep < g.Pick(1, 4); rep++ {
			var seg []Ev
			n := g.Pick(320, 1400)
			for i := 0; i < n; i++ {
				seg = append(seg, Ev{"op": "reuse", "what": what, "input": cps(bad[r.Intn(len(bad))]), "first": i == 0})
				if i%61 == 60 || i == n-1 {
					for _, x := range good[what] {
						seg = append(seg, Ev{"op": "reuse", "what": what, "input": cps(x), "first": false})
					}
				}
			}
			g.Run("reused "+what+": hundreds of rejected inputs in between", seg)
		}
	}
	// one parser used through both entries and given back the text it composed
	for _, x1 := range c05exprPool {
		for _, x2 := range []string{"x = 'abc'", "x = 'a b'", "\"a b\" + 1", "a + b", "'1' + 2", "(a", "x = abc"} {
			g.Run("one parser through both entries", []Ev{{"op": "reuse", "what": "parsertok", "input": cps(x2), "first": true}, {"op": "reuse", "what": "parserexpr", "input": []int{}, "first": false},
				{"op": "reuse", "what": "parser", "input": cps(x1), "first": false}, {"op": "reuse", "what": "parserexpr", "input": []int{}, "first": false}, {"op": "reuse", "what": "parsertok", "input": cps(x1), "first": false}})
		}
	}
	// another operations manager installed between two evaluations of the same compiled expression
	for _, ex := range []string{"(7 + '5') * 2 > 20", "1 + '2'", "2 * 3 + 1", "'a' + 1", "a + b", "a + '1'", "1.5 + 2", "Max(1, 2) + '3'", "7 / 2", "1 = '1'"} {
		for _, order := range [][]string{{"safe", "unsafe"}, {"unsafe", "safe"}, {"safe", "safe", "unsafe"}} {
			seg := []Ev{{"op": "reuse", "what": "calculator", "input": cps(ex), "first": true}, {"op": "reuse", "what": "reeval", "input": []int{}, "first": false}}
			for _, m := range order {
				seg = append(seg, Ev{"op": "reuse", "what": "setops", "input": []int{}, "first": false, "mgr": m}, Ev{"op": "reuse", "what": "reeval", "input": []int{}, "first": false},
					Ev{"op": "reuse", "what": "reeval", "input": []int{}, "first": false})
			}
			seg = append(seg, Ev{"op": "reuse", "what": "calculator", "input": cps("1 + '2'"), "first": false}, Ev{"op": "reuse", "what": "reeval", "input": []int{}, "first": false})
			g.Run("operations manager replaced between evaluations", seg)
		}
	}
	// the default variables changed (replaced by another object of the same name, removed, cleared) between evaluations
	vop := func(do, name string, k int) Ev {
		return Ev{"op": "reuse", "what": "fnop", "input": []int{}, "first": false, "do": do, "name": name, "k": k}
	}
	for _, ex := range []string{"x + 1", "x * y", "Max(x, y) + x", "x"} {
		cev := Ev{"op": "reuse", "what": "calceval", "input": cps(ex), "first": false}
		first := cloneEv(cev)
		first["first"] = true
		for _, mid := range [][]Ev{{vop("rmvar", "x", 0), vop("addvar", "x", 7)}, {vop("addvar", "X", 5)}, {vop("rmvar", "X", 0)}, {vop("addvar", "x", 3), vop("rmvar", "x", 0), vop("addvar", "x", 4)},
			{vop("addvar", "x", 5), vop("auto", "", 0), vop("clear", "", 0)}, {vop("auto", "", 0), vop("addvar", "x", 5), vop("addvar", "y", 6), vop("clear", "", 0)}, {vop("clearvars", "", 0)}, {vop("addvar", "y", 2), vop("auto", "", 1)}} {
			seg := []Ev{first, vop("addvar", "x", 21), cloneEv(cev)}
			seg = append(seg, mid...)
			seg = append(seg, cloneEv(cev), vop("addvar", "x", 1), cloneEv(cev))
			g.Run("default variables changed between evaluations", seg)
		}
	}
	// the calculator's default functions changed between evaluations
	for _, fn := range []string{"Min", "max", "SUM", "Abs", "If", "Mine"} {
		for _, ex := range []string{fn + "(7, 2)", "1 + " + fn + "(1, 2, 3)", fn + "(" + fn + "(1, 2), 3)"} {
			for _, ops := range [][]Ev{{{"do": "remove", "name": fn}}, {{"do": "remove", "name": fn}, {"do": "add", "name": fn, "k": 700}}, {{"do": "add", "name": fn, "k": 50}},
				{{"do": "add", "name": strings.ToUpper(fn), "k": 70}, {"do": "remove", "name": strings.ToLower(fn)}}, {{"do": "add", "name": fn, "k": 1}, {"do": "remove", "name": fn}, {"do": "add", "name": fn, "k": 2}}} {
				seg := []Ev{{"op": "reuse", "what": "calceval", "input": cps(ex), "first": true}, {"op": "reuse", "what": "calculator", "input": cps(ex), "first": false}}
				for _, o := range ops {
					seg = append(seg, Ev{"op": "reuse", "what": "fnop", "input": []int{}, "first": false, "do": o["do"], "name": o["name"], "k": orZero(o["k"])})
					seg = append(seg, Ev{"op": "reuse", "what": "calceval", "input": cps(ex), "first": false}, Ev{"op": "reuse", "what": "calculator", "input": cps(ex), "first": false})
				}
				g.Run("default functions changed between evaluations", seg)
			}
		}
	}
	_ = fmt.Sprint
}
