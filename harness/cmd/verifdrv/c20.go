package main

import (
	"strconv"
	"fmt"
	"math"
	"strings"
	"time"

	"github.com/pip-services3-gox/pip-services3-expressions-gox/variants"
)

// C20: variants hold what they were given: typed access, copies and equality.
func init() {
	props["C20"] = &Prop{
		Generate: genC20,
		Exec:     execC20,
		Rule: "heap: one segment per operation history on 4 variant slots and 2 caller lists, all slots and the equality matrix " +
			"observed after every step; host: one event per host value; non-trivial = distinct history with a copy (clone/assign/" +
			"set-as-object) of an array followed by a write to either side",
		NonTrivial: func(seg []Ev) string {
			copied, wrote := false, false
			for _, e := range seg {
				switch toStr(e["op"]) {
				case "copy", "fromlist":
					copied = true
				case "setbyindex", "setlength", "listput":
					if copied {
						wrote = true
					}
				case "host":
					return fmt.Sprint(e["hostkind"], e["value"])
				}
			}
			if wrote {
				k := ""
				for _, e := range seg {
					k += fmt.Sprint(e["op"], e["v"], e["w"], e["i"], e["e"], e["how"], e["list"], "|")
				}
				return k
			}
			return ""
		},
	}
}

var vtypeNames = map[variants.VariantType]string{variants.Null: "Null", variants.Integer: "Integer", variants.Long: "Long",
	variants.Float: "Float", variants.Double: "Double", variants.String: "String", variants.Boolean: "Boolean",
	variants.DateTime: "DateTime", variants.TimeSpan: "TimeSpan", variants.Object: "Object", variants.Array: "Array"}

type c20heap struct {
	own   []*variants.Variant // the list a variant handed out (AsArray) and was then set to again
	slots [5]*variants.Variant
	lists map[string][]*variants.Variant
	elems map[string]*variants.Variant
	names map[*variants.Variant]string
}

func newC20heap() *c20heap {
	h := &c20heap{lists: map[string][]*variants.Variant{"L1": {}, "L2": {}}, elems: map[string]*variants.Variant{}, names: map[*variants.Variant]string{}}
	for i := 1; i <= 4; i++ {
		h.slots[i] = variants.EmptyVariant()
	}
	for i := 1; i <= 5; i++ {
		n := fmt.Sprintf("e%d", i)
		h.elems[n] = variants.VariantFromInteger(100 + i)
		h.names[h.elems[n]] = n
	}
	// two distinct elements holding host values of one uncomparable type (equal contents), one holding a struct with a slice inside
	for i, o := range []any{map[string]int{"id": 1}, map[string]int{"id": 2}, struct {
		Name string
		Tags []string
	}{"s1", []string{"x"}}, struct {
		Name string
		Tags []string
	}{"s2", []string{"x"}}} {
		n := fmt.Sprintf("eo%d", i+1)
		h.elems[n] = variants.VariantFromObject(o)
		h.names[h.elems[n]] = n
	}
	h.elems["nilptr"] = nil // a position the caller left unset
	return h
}

func (h *c20heap) elemID(p *variants.Variant) string {
	if n, ok := h.names[p]; ok {
		return n
	}
	if p == nil {
		return "nilptr"
	}
	// an element object the recorder did not make itself (a copy of an array may hold copies of the elements): known by its value
	if p.Type() == variants.Integer && p.AsInteger() >= 101 && p.AsInteger() <= 105 {
		return fmt.Sprintf("e%d", p.AsInteger()-100)
	}
	if p.Type() == variants.Object {
		for n, q := range h.elems {
			if q != nil && q.Type() == variants.Object && fmt.Sprintf("%#v", q.AsObject()) == fmt.Sprintf("%#v", p.AsObject()) {
				return n
			}
		}
	}
	if p.IsNull() {
		return "nul"
	}
	return "other"
}

func (h *c20heap) obs() Ev {
	vars := []any{[]any{"-", "", []string{}}}[:0]
	for i := 1; i <= 4; i++ {
		v := h.slots[i]
		t := vtypeNames[v.Type()]
		payload := ""
		ids := []string{}
		if v.Type() == variants.Array {
			for _, e := range v.AsArray() {
				ids = append(ids, h.elemID(e))
			}
		} else if v.Type() == variants.Object {
			switch x := v.AsObject().(type) {
			case map[string]int:
				payload = fmt.Sprintf("map#%d", x["id"])
			case *c06obj:
				payload = fmt.Sprintf("ptr#%d", x.a)
			case struct {
				Name string
				Tags []string
			}:
				payload = "struct#" + x.Name[1:]
			default:
				payload = fmt.Sprintf("%T", x)
			}
		} else if v.Type() != variants.Null {
			payload = v.String()
		}
		vars = append(vars, []any{t, payload, ids})
	}
	eq := []any{}
	for i := 1; i <= 3; i++ {
		for j := 1; j <= 3; j++ {
			a, b := h.slots[i], h.slots[j]
			var r bool
			oc, _ := guarded(func() { r = a.Equals(b) })
			res := "panic"
			if oc == "ok" {
				res = fmt.Sprint(r)
			}
			eq = append(eq, []any{i, j, res})
		}
	}
	return Ev{"vars": vars, "eq": eq}
}

func execC20(seg []Ev) []Ev {
	var h *c20heap
	out := make([]Ev, 0, len(seg))
	for _, in := range seg {
		op := toStr(in["op"])
		if op == "host" {
			out = append(out, execHost(in))
			continue
		}
		e := Ev{"op": op}
		for _, k := range []string{"v", "w", "i", "n"} {
			_ = k
		}
		for _, k := range []string{"v", "w", "i", "n"} {
			if x, ok := in[k]; ok {
				e[k] = toInt(x)
			}
		}
		for _, k := range []string{"type", "payload", "list", "how", "e"} {
			if x, ok := in[k]; ok {
				e[k] = toStr(x)
			}
		}
		if op == "setobject" {
			e["kind"], e["inst"] = toStr(in["kind"]), toInt(in["inst"])
			e["payload"] = fmt.Sprintf("%s#%d", toStr(in["kind"]), toInt(in["inst"]))
		}
		oc, det := guarded(func() {
			switch op {
			case "new":
				h = newC20heap()
			case "setscalar":
				v := h.slots[toInt(in["v"])]
				if toStr(in["type"]) == "Integer" {
					var n int
					fmt.Sscan(toStr(in["payload"]), &n)
					v.SetAsInteger(n)
				} else if toStr(in["type"]) == "Double" {
					f, _ := strconv.ParseFloat(toStr(in["payload"]), 64)
					v.SetAsDouble(f)
				} else if toStr(in["type"]) == "Float" {
					f, _ := strconv.ParseFloat(toStr(in["payload"]), 32)
					v.SetAsFloat(float32(f))
				} else if toStr(in["type"]) == "Long" {
					n, _ := strconv.ParseInt(toStr(in["payload"]), 10, 64)
					v.SetAsLong(n)
				} else {
					v.SetAsString(toStr(in["payload"]))
				}
			case "fromlist":
				i := toInt(in["v"])
				L := h.lists[toStr(in["list"])]
				switch toStr(in["how"]) {
				case "SetAsArray":
					h.slots[i].SetAsArray(L)
				case "SetAsObject":
					h.slots[i].SetAsObject(L)
				case "VariantFromArray":
					h.slots[i] = variants.VariantFromArray(L)
				default:
					h.slots[i] = variants.NewVariant(L)
				}
			case "setbyindex":
				v := h.slots[toInt(in["v"])]
				if v.Type() == variants.Array {
					v.SetByIndex(toInt(in["i"]), h.elems[toStr(in["e"])])
				}
			case "setlength":
				v := h.slots[toInt(in["v"])]
				if v.Type() == variants.Array {
					v.SetLength(toInt(in["n"]))
				}
			case "copy":
				w, v := toInt(in["w"]), h.slots[toInt(in["v"])]
				switch toStr(in["how"]) {
				case "Clone":
					h.slots[w] = v.Clone()
				case "Assign":
					h.slots[w].Assign(v)
				case "SetAsObject":
					h.slots[w].SetAsObject(v)
				default:
					h.slots[w] = variants.NewVariant(v)
				}
			case "clear":
				h.slots[toInt(in["v"])].Clear()
			case "mutelem":
				// change, in place, an element that the variant created itself while growing
				v := h.slots[toInt(in["v"])]
				if i := toInt(in["i"]); v.Type() == variants.Array && i >= 0 && i < v.Length() {
					if el := v.GetByIndex(i); el != nil {
						if id := h.elemID(el); id == "nul" || id == "other" { // (only a growth element; never one of the caller's, nor a copy of one)
							el.SetAsInteger(7)
						}
					}
				}
			case "setobject":
				inst := toInt(in["inst"])
				var host any
				switch toStr(in["kind"]) {
				case "map":
					host = map[string]int{"id": inst}
				case "struct":
					host = struct {
						Name string
						Tags []string
					}{fmt.Sprintf("s%d", inst), []string{"x"}}
				default:
					host = &c06obj{inst}
				}
				h.slots[toInt(in["v"])].SetAsObject(host)
			case "listset":
				var els []string
				for _, x := range toList(in["elems"]) {
					els = append(els, toStr(x))
				}
				e["elems"] = els
				if els == nil {
					e["elems"] = []string{}
				}
				L := make([]*variants.Variant, 0, len(els)+4) // spare capacity: appends by a variant would land in the caller's array
				for _, n := range els {
					L = append(L, h.elems[n])
				}
				h.lists[toStr(in["list"])] = L
			case "ownlist":
				// the caller takes the variant's own list (AsArray) and sets the variant to that very list again: from then on the
				// variant holds a copy like of any other list, and what the caller does to the list it holds is its own business
				v := h.slots[toInt(in["v"])]
				if v.Type() == variants.Array {
					L := v.AsArray()
					switch toStr(in["how"]) {
					case "SetAsArray":
						v.SetAsArray(L)
					default:
						v.SetAsObject(L)
					}
					h.own = L
				}
			case "ownput":
				if i := toInt(in["i"]); i < len(h.own) {
					h.own[i] = h.elems[toStr(in["e"])]
				}
			case "listappend": // the caller appends to its own list (into the spare capacity of its array when there is some)
				h.lists[toStr(in["list"])] = append(h.lists[toStr(in["list"])], h.elems[toStr(in["e"])])
			case "listcut": // the caller shortens its own list, keeping the array
				L := h.lists[toStr(in["list"])]
				if n := toInt(in["n"]); n <= len(L) {
					h.lists[toStr(in["list"])] = L[:n]
				}
			case "listput":
				L := h.lists[toStr(in["list"])]
				if i := toInt(in["i"]); i < len(L) {
					L[i] = h.elems[toStr(in["e"])]
				}
			}
		})
		if oc != "ok" {
			e["detail"] = det
		}
		if h == nil {
			h = newC20heap()
		}
		e["obs"] = h.obs()
		out = append(out, e)
	}
	return out
}

// host-type table
type hostCase struct {
	kind  string
	value any
}

var c20now = time.Now() // carries a monotonic clock reading

func hostCases() []hostCase {
	t0 := time.Unix(1700000000, 123456789).UTC()
	arr := []*variants.Variant{variants.VariantFromInteger(1), variants.VariantFromString("x")}
	var cs []hostCase
	for _, v := range []int{0, 1, -1, 42, math.MaxInt32, math.MinInt32, math.MaxInt64, math.MinInt64} {
		cs = append(cs, hostCase{"int", v})
	}
	for _, v := range []int32{0, -5, math.MaxInt32, math.MinInt32} {
		cs = append(cs, hostCase{"int32", v})
	}
	for _, v := range []uint{0, 7, math.MaxUint32, math.MaxInt64} {
		cs = append(cs, hostCase{"uint", v})
	}
	for _, v := range []uint32{0, 7, math.MaxUint32} {
		cs = append(cs, hostCase{"uint32", v})
	}
	for _, v := range []int64{0, -9, math.MaxInt64, math.MinInt64, 1 << 53} {
		cs = append(cs, hostCase{"int64", v})
	}
	for _, v := range []float32{0, 1.5, -2.25, math.MaxFloat32, math.SmallestNonzeroFloat32, float32(math.Inf(1))} {
		cs = append(cs, hostCase{"float32", v})
	}
	for _, v := range []float64{0, 1.5, -2.25, math.MaxFloat64, math.SmallestNonzeroFloat64, math.Inf(-1), 0.1} {
		cs = append(cs, hostCase{"float64", v})
	}
	for _, v := range []string{strings.Repeat("é", 32), strings.Repeat("a", 64), strings.Repeat("a", 65), strings.Repeat("日本", 50), "\xff", "a\xffb", strings.Repeat("a\xffb", 30),
		strings.Repeat("\xed\xa0\x80", 30), "\ufffd", "\ufffe\uffff", "a\x00b", strings.Repeat("\x00", 70), strings.Repeat("\U0001f600", 20), strings.Repeat("x", 4097), "\xc3", strings.Repeat("é", 40) + "\xc3"} {
		cs = append(cs, hostCase{"string", v})
	}
	cs = append(cs, hostCase{"bool", true}, hostCase{"bool", false}, hostCase{"string", ""}, hostCase{"string", "héllo\n"},
		hostCase{"time.Time", t0}, hostCase{"time.Time", time.Time{}}, hostCase{"time.Duration", time.Duration(0)},
		hostCase{"time.Duration", 90 * time.Minute}, hostCase{"time.Duration", -time.Nanosecond},
		hostCase{"[]*Variant", arr}, hostCase{"[]*Variant", []*variants.Variant{}},
		hostCase{"*Variant", variants.VariantFromString("s")}, hostCase{"*Variant", variants.VariantFromArray(arr)}, hostCase{"*Variant", variants.EmptyVariant()},
		hostCase{"*Variant", variants.VariantFromDouble(2.5)},
		hostCase{"time.Time", c20now}, hostCase{"time.Time", c20now.Add(time.Hour)}, hostCase{"time.Time", time.Unix(1700000000, 5).In(time.FixedZone("east", 19800))},
		hostCase{"time.Time", time.Date(9999, 12, 31, 23, 59, 59, 999999999, time.UTC)}, hostCase{"time.Duration", time.Duration(math.MaxInt64)}, hostCase{"time.Duration", time.Duration(math.MinInt64)},
		hostCase{"other", (*int)(nil)}, hostCase{"other", (*c06obj)(nil)}, hostCase{"other", []int(nil)}, hostCase{"other", map[string]int(nil)}, hostCase{"other", []string{}}, hostCase{"other", &c06obj{5}},
		hostCase{"smallint", int8(-3)}, hostCase{"smallint", uint16(9)}, hostCase{"other", uint64(1 << 63)}, hostCase{"other", complex(1, 2)}, hostCase{"int32", 'x'},
		hostCase{"nil", nil}, hostCase{"other", struct{ A int }{3}}, hostCase{"other", map[string]int{"a": 1}}, hostCase{"smallint", uint8(3)}, hostCase{"smallint", int16(-300)})
	return cs
}

func canon(v any) string {
	switch x := v.(type) {
	case time.Time:
		return x.String() + "|" + x.Location().String() // wall clock, zone and monotonic reading
	case []*variants.Variant:
		s := "["
		for _, e := range x {
			s += fmt.Sprintf("%p ", e)
		}
		return s + "]"
	case float32:
		return fmt.Sprintf("%v", float64(x))
	case string:
		return fmt.Sprintf("bytes:%x", []byte(x)) // byte for byte (the trace format would repair ill-formed text)
	}
	return fmt.Sprintf("%v", v)
}

func execHost(in Ev) Ev {
	idx := toInt(in["index"])
	cs := hostCases()
	c := cs[idx%len(cs)]
	how := toStr(in["how"])
	e := Ev{"op": "host", "index": idx, "how": how, "hostkind": c.kind, "value": canon(c.value), "inner": "", "type": "?", "back": "?"}
	oc, det := guarded(func() {
		var v *variants.Variant
		if how == "NewVariant" {
			v = variants.NewVariant(c.value)
		} else if how == "typed" || how == "setter" {
			v = variants.EmptyVariant()
			switch x := c.value.(type) {
			case int:
				if how == "typed" {
					v = variants.VariantFromInteger(x)
				} else {
					v.SetAsInteger(x)
				}
			case int64:
				if how == "typed" {
					v = variants.VariantFromLong(x)
				} else {
					v.SetAsLong(x)
				}
			case float32:
				if how == "typed" {
					v = variants.VariantFromFloat(x)
				} else {
					v.SetAsFloat(x)
				}
			case float64:
				if how == "typed" {
					v = variants.VariantFromDouble(x)
				} else {
					v.SetAsDouble(x)
				}
			case bool:
				if how == "typed" {
					v = variants.VariantFromBoolean(x)
				} else {
					v.SetAsBoolean(x)
				}
			case string:
				if how == "typed" {
					v = variants.VariantFromString(x)
				} else {
					v.SetAsString(x)
				}
			case time.Time:
				if how == "typed" {
					v = variants.VariantFromDateTime(x)
				} else {
					v.SetAsDateTime(x)
				}
			case time.Duration:
				if how == "typed" {
					v = variants.VariantFromTimeSpan(x)
				} else {
					v.SetAsTimeSpan(x)
				}
			case []*variants.Variant:
				if how == "typed" {
					v = variants.VariantFromArray(x)
				} else {
					v.SetAsArray(x)
				}
			default:
				v.SetAsObject(c.value)
			}
		} else {
			v = variants.EmptyVariant()
			v.SetAsObject(c.value)
		}
		e["type"] = vtypeNames[v.Type()]
		switch c.kind {
		case "int", "int32":
			e["back"] = canon(v.AsInteger())
		case "uint", "uint32", "int64":
			e["back"] = canon(v.AsLong())
		case "float32":
			e["back"] = canon(v.AsFloat())
		case "float64":
			e["back"] = canon(v.AsDouble())
		case "bool":
			e["back"] = canon(v.AsBoolean())
		case "string":
			e["back"] = canon(v.AsString())
		case "time.Time":
			e["back"] = canon(v.AsDateTime())
		case "time.Duration":
			e["back"] = canon(v.AsTimeSpan())
		case "[]*Variant":
			e["back"] = canon(v.AsArray())
		case "*Variant":
			inner := c.value.(*variants.Variant)
			e["inner"] = vtypeNames[inner.Type()]
			if inner.Type() == variants.Array {
				e["value"] = canon(inner.AsArray())
				e["back"] = canon(v.AsArray())
			} else {
				e["value"] = canon(inner.AsObject())
				e["back"] = canon(v.AsObject())
			}
		default:
			e["back"] = canon(v.AsObject())
		}
	})
	if oc != "ok" {
		e["detail"] = det
	}
	return e
}

func genC20(g *Gen) {
	r := g.Rand()
	for i := range hostCases() {
		for _, how := range []string{"NewVariant", "SetAsObject", "typed", "setter"} {
			g.Run("host values of every kind", []Ev{{"op": "host", "index": i, "how": how}})
		}
	}
	// exhaustive histories over 2 slots and 1 list
	var ops []Ev
	for _, v := range []int{1, 2} {
		for _, how := range []string{"SetAsArray", "NewVariant"} {
			ops = append(ops, Ev{"op": "fromlist", "v": v, "list": "L1", "how": how})
		}
		ops = append(ops, Ev{"op": "setbyindex", "v": v, "i": 0, "e": "e3"}, Ev{"op": "setbyindex", "v": v, "i": 3, "e": "e4"}, Ev{"op": "setbyindex", "v": v, "i": 5, "e": "e5"},
			Ev{"op": "setlength", "v": v, "n": 3}, Ev{"op": "clear", "v": v}, Ev{"op": "setscalar", "v": v, "type": "Integer", "payload": "7"})
	}
	for _, how := range []string{"Clone", "Assign", "SetAsObject", "NewVariant"} {
		ops = append(ops, Ev{"op": "copy", "w": 2, "v": 1, "how": how}, Ev{"op": "copy", "w": 1, "v": 2, "how": how})
	}
	// a variant assigned to / set from itself; a floating-point NaN (which equals nothing, itself included)
	ops = append(ops, Ev{"op": "copy", "w": 1, "v": 1, "how": "Assign"}, Ev{"op": "copy", "w": 1, "v": 1, "how": "SetAsObject"}, Ev{"op": "copy", "w": 2, "v": 2, "how": "Clone"},
		Ev{"op": "setscalar", "v": 1, "type": "Double", "payload": "NaN"}, Ev{"op": "setscalar", "v": 2, "type": "Double", "payload": "1.5"})
	ops = append(ops, Ev{"op": "listset", "list": "L1", "elems": []any{"e1", "e2"}}, Ev{"op": "listput", "list": "L1", "i": 0, "e": "e5"},
		Ev{"op": "listcut", "list": "L1", "n": 0}, Ev{"op": "listappend", "list": "L1", "e": "e4"}, Ev{"op": "listset", "list": "L1", "elems": []any{"nilptr", "e1"}},
		Ev{"op": "mutelem", "v": 1, "i": 2}, Ev{"op": "mutelem", "v": 2, "i": 2})
	depth := g.Pick(3, 4)
	idx := make([]int, depth)
	for {
		seg := []Ev{{"op": "new"}, {"op": "listset", "list": "L1", "elems": []any{"e1", "e2"}}}
		for _, i := range idx {
			seg = append(seg, cloneEv(ops[i]))
		}
		g.Run(fmt.Sprintf("all histories of %d operations (2 slots, 1 list)", depth), seg)
		j := depth - 1
		for j >= 0 {
			idx[j]++
			if idx[j] < len(ops) {
				break
			}
			idx[j] = 0
			j--
		}
		if j < 0 {
			break
		}
	}
	// growth: every pair of index writes on arrays built from lists of every small size (spare capacity left by an earlier growth)
	for size := 0; size <= 5; size++ {
		els5 := []any{"e1", "e2", "e3", "e4", "e5"}[:size]
		for i1 := 0; i1 <= 7; i1++ {
			for i2 := 0; i2 <= 9; i2++ {
				g.Run("pairs of index writes x initial sizes", []Ev{{"op": "new"}, {"op": "listset", "list": "L1", "elems": els5},
					{"op": "fromlist", "v": 1, "list": "L1", "how": "SetAsArray"}, {"op": "setbyindex", "v": 1, "i": i1, "e": "e1"},
					{"op": "setbyindex", "v": 1, "i": i2, "e": "e2"}, {"op": "mutelem", "v": 1, "i": i2 - 1}})
			}
		}
	}
	// a variant built from a caller's list that is empty / short but has spare capacity: both sides grow afterwards, in every order
	for _, how := range []string{"SetAsArray", "SetAsObject", "VariantFromArray", "NewVariant"} {
		for keep := 0; keep <= 2; keep++ {
			grow := []Ev{{"op": "setbyindex", "v": 1, "i": keep, "e": "e3"}, {"op": "setlength", "v": 1, "n": keep + 2}, {"op": "setbyindex", "v": 1, "i": keep + 1, "e": "e5"}}
			call := []Ev{{"op": "listappend", "list": "L1", "e": "e4"}, {"op": "listappend", "list": "L1", "e": "nilptr"}, {"op": "listput", "list": "L1", "i": 0, "e": "e5"}}
			for _, g1 := range grow {
				for _, c1 := range call {
					for order := 0; order < 2; order++ {
						seg := []Ev{{"op": "new"}, {"op": "listset", "list": "L1", "elems": []any{"e1", "e2", "e3"}}, {"op": "listcut", "list": "L1", "n": keep},
							{"op": "fromlist", "v": 1, "list": "L1", "how": how}, {"op": "copy", "w": 2, "v": 1, "how": "Clone"}}
						if order == 0 {
							seg = append(seg, cloneEv(g1), cloneEv(c1), cloneEv(call[0]), cloneEv(grow[2]))
						} else {
							seg = append(seg, cloneEv(c1), cloneEv(g1), cloneEv(call[0]), cloneEv(grow[0]))
						}
						seg = append(seg, Ev{"op": "fromlist", "v": 3, "list": "L1", "how": how}, Ev{"op": "listappend", "list": "L1", "e": "e1"}, Ev{"op": "setbyindex", "v": 3, "i": keep + 3, "e": "e2"})
						g.Run("variants built from lists with spare capacity, both sides growing", seg)
					}
				}
			}
		}
	}
	// an array made empty (or short) again by SetLength, then copied: original and copy grow on their own afterwards
	for _, how := range []string{"Clone", "Assign", "SetAsObject", "NewVariant"} {
		for _, n := range []int{0, 1} {
			for _, sz := range []int{1, 2, 3, 5} {
				g.Run("shortened by SetLength, then copied, both growing", []Ev{{"op": "new"}, {"op": "listset", "list": "L1", "elems": []any{"e1", "e2", "e3", "e4", "e5"}[:sz]},
					{"op": "fromlist", "v": 1, "list": "L1", "how": "SetAsArray"}, {"op": "setlength", "v": 1, "n": n}, {"op": "copy", "w": 2, "v": 1, "how": how},
					{"op": "setbyindex", "v": 1, "i": n, "e": "e3"}, {"op": "setbyindex", "v": 2, "i": n, "e": "e4"}, {"op": "setbyindex", "v": 1, "i": n + 1, "e": "e5"},
					{"op": "setlength", "v": 2, "n": n + 3}, {"op": "mutelem", "v": 2, "i": n + 2}, {"op": "setlength", "v": 1, "n": n + 3}})
			}
		}
	}
	// a value set over an equal-looking one with the typed setter: the two zeros, the same number in another type
	for _, ty := range []string{"Double", "Float"} {
		for _, pr := range [][]string{{"0", "-0", "0", "-0"}, {"-0", "0"}, {"1.5", "1.5", "-0", "-0", "0"}} {
			seg := []Ev{{"op": "new"}}
			for _, pl := range pr {
				seg = append(seg, Ev{"op": "setscalar", "v": 1, "type": ty, "payload": pl}, Ev{"op": "copy", "w": 2, "v": 1, "how": "Clone"})
			}
			g.Run("a value set over an equal-looking one", seg)
		}
	}
	g.Run("a value set over an equal-looking one", []Ev{{"op": "new"}, {"op": "setscalar", "v": 1, "type": "Integer", "payload": "7"}, {"op": "setscalar", "v": 1, "type": "Long", "payload": "7"},
		{"op": "setscalar", "v": 1, "type": "Double", "payload": "7"}, {"op": "setscalar", "v": 1, "type": "Float", "payload": "7"}, {"op": "setscalar", "v": 1, "type": "Integer", "payload": "7"},
		{"op": "setscalar", "v": 1, "type": "String", "payload": "7"}})
	// the variant's own list handed back to it, then changed by the caller
	for _, how := range []string{"SetAsObject", "SetAsArray"} {
		for _, fh := range []string{"SetAsArray", "NewVariant"} {
			for i := 0; i < 3; i++ {
				g.Run("a variant set to the list it handed out itself", []Ev{{"op": "new"}, {"op": "listset", "list": "L1", "elems": []any{"e1", "e2", "e3"}}, {"op": "fromlist", "v": 1, "list": "L1", "how": fh},
					{"op": "ownlist", "v": 1, "how": how}, {"op": "ownput", "i": i, "e": "e5"}, {"op": "copy", "w": 2, "v": 1, "how": "Clone"}, {"op": "ownput", "i": (i + 1) % 3, "e": "e4"},
					{"op": "setbyindex", "v": 1, "i": 4, "e": "e2"}, {"op": "ownput", "i": 0, "e": "e3"}})
			}
		}
	}
	// arrays whose elements hold host values of uncomparable types: equality answers (an array and one built separately with
	// other element objects of equal contents; the same element objects; a clone)
	for _, pr := range [][2][]any{{{"eo1"}, {"eo2"}}, {{"eo3"}, {"eo4"}}, {{"e1", "eo1"}, {"e1", "eo2"}}, {{"eo1", "eo3"}, {"eo2", "eo4"}}, {{"eo1"}, {"eo3"}}, {{"eo1"}, {"eo1"}}} {
		g.Run("arrays of elements with uncomparable host values", []Ev{{"op": "new"}, {"op": "listset", "list": "L1", "elems": pr[0]}, {"op": "fromlist", "v": 1, "list": "L1", "how": "SetAsArray"},
			{"op": "listset", "list": "L2", "elems": pr[1]}, {"op": "fromlist", "v": 2, "list": "L2", "how": "NewVariant"}, {"op": "copy", "w": 3, "v": 1, "how": "Clone"},
			{"op": "setbyindex", "v": 3, "i": 0, "e": "eo2"}, {"op": "setbyindex", "v": 2, "i": 2, "e": "eo4"}})
	}
	// random histories over 4 slots and 2 lists
	n := g.Pick(800, 20000)
	els := []string{"e1", "e2", "e3", "e4", "e5"}
	hows := []string{"Clone", "Assign", "SetAsObject", "NewVariant"}
	fhows := []string{"SetAsArray", "SetAsObject", "VariantFromArray", "NewVariant"}
	for x := 0; x < n; x++ {
		seg := []Ev{{"op": "new"}}
		for k := 4 + r.Intn(26); k > 0; k-- {
			v, w := 1+r.Intn(4), 1+r.Intn(4)
			L := []string{"L1", "L2"}[r.Intn(2)]
			switch r.Intn(11) {
			case 9:
				seg = append(seg, Ev{"op": "mutelem", "v": v, "i": r.Intn(6)})
			case 10:
				seg = append(seg, Ev{"op": "setobject", "v": v, "kind": []string{"map", "struct", "ptr"}[r.Intn(3)], "inst": 1 + r.Intn(3)})
			case 0:
				if r.Intn(5) == 0 {
					seg = append(seg, Ev{"op": "setscalar", "v": v, "type": "Double", "payload": []string{"NaN", "1.5", "-0"}[r.Intn(3)]})
				} else {
					seg = append(seg, Ev{"op": "setscalar", "v": v, "type": []string{"Integer", "String"}[r.Intn(2)], "payload": fmt.Sprint(r.Intn(3))})
				}
			case 1, 2:
				seg = append(seg, Ev{"op": "fromlist", "v": v, "list": L, "how": fhows[r.Intn(4)]})
			case 3:
				seg = append(seg, Ev{"op": "setbyindex", "v": v, "i": r.Intn(6), "e": els[r.Intn(5)]})
			case 4:
				seg = append(seg, Ev{"op": "setlength", "v": v, "n": r.Intn(6)})
			case 5, 6:
				seg = append(seg, Ev{"op": "copy", "w": w, "v": v, "how": hows[r.Intn(4)]})
			case 7:
				var e []any
				for q := r.Intn(4); q > 0; q-- {
					e = append(e, append(els, "nilptr")[r.Intn(6)])
				}
				if e == nil {
					e = []any{}
				}
				seg = append(seg, Ev{"op": "listset", "list": L, "elems": e})
			default:
				if x := r.Intn(6); x == 0 {
					seg = append(seg, Ev{"op": "listappend", "list": L, "e": append(els, "nilptr")[r.Intn(6)]})
				} else if x == 1 {
					seg = append(seg, Ev{"op": "listcut", "list": L, "n": r.Intn(3)})
				} else if r.Intn(3) == 0 {
					seg = append(seg, Ev{"op": "clear", "v": v})
				} else {
					seg = append(seg, Ev{"op": "listput", "list": L, "i": r.Intn(3), "e": els[r.Intn(5)]})
				}
			}
		}
		g.Run("random histories (4 slots, 2 lists)", seg)
	}
}
