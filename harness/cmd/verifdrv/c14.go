package main

import (
	"fmt"
	"strings"

	calctok "github.com/pip-services3-gox/pip-services3-expressions-gox/calculator/tokenizers"
	"github.com/pip-services3-gox/pip-services3-expressions-gox/csv"
	"github.com/pip-services3-gox/pip-services3-expressions-gox/tokenizers"
	"github.com/pip-services3-gox/pip-services3-expressions-gox/tokenizers/generic"
)

// C14: quote encoding and decoding are inverse and total.
func init() {
	props["C14"] = &Prop{
		Generate: genC14,
		Exec:     execC14,
		Rule: "one event per (quote state, string, quote character[, tail]); non-trivial = distinct case whose string contains " +
			"the quote character or a non-ASCII character",
		NonTrivial: func(seg []Ev) string {
			e := seg[0]
			var s []rune
			if e["op"] == "decode" {
				s = toRunes(e["raw"])
			} else {
				s = toRunes(e["s"])
			}
			q := rune(toInt(e["q"]))
			for _, c := range s {
				if c == q || c > 127 {
					return fmt.Sprint(e["op"], e["state"], e["q"], s, e["tail"])
				}
			}
			return ""
		},
	}
}

func quoteState(name string) tokenizers.IQuoteState {
	switch name {
	case "generic0": // values that no constructor made
		return &generic.GenericQuoteState{}
	case "expression0":
		return &calctok.ExpressionQuoteState{}
	case "csv0":
		return &csv.CsvQuoteState{}
	case "generic":
		return generic.NewGenericQuoteState()
	case "expression":
		return calctok.NewExpressionQuoteState()
	case "csv":
		return csv.NewCsvQuoteState()
	}
	panic("quote state " + name)
}

func execC14(seg []Ev) []Ev {
	out := make([]Ev, 0, len(seg))
	kp := &keeper{}
	states := map[string]tokenizers.IQuoteState{} // one state object per segment: single-event segments see a new one
	for _, in := range seg {
		op, st := toStr(in["op"]), toStr(in["state"])
		q := rune(toInt(in["q"]))
		e := Ev{"op": op, "state": st, "q": int(q)}
		key := st
		if l, ok := in["literal"]; ok && toBool(l) {
			key = st + "0" // a state value that no constructor made
			e["literal"] = true
		}
		if states[key] == nil {
			states[key] = quoteState(key)
		}
		qs := states[key]
		switch op {
		case "codec":
			s := string(toRunes(in["s"]))
			e["s"] = cps(s)
			var enc, dec string
			oc, det := guarded(func() {
				// a state object serves several quote characters in turn: an earlier call with another one must not matter
				other := '\''
				if q == '\'' {
					other = '"'
				}
				_ = qs.DecodeString(qs.EncodeString("x"+string(other)+"y", other), other)
				enc = qs.EncodeString(s, q)
				dec = qs.DecodeString(enc, q)
			})
			e["enc"], e["dec"], e["outcome"] = cps(enc), cps(dec), oc
			if det != "" {
				e["detail"] = det
			}
			kp.check(e)
			d2, e2 := dec, enc
			kp.keep("decoded / encoded text of an earlier call", func() string { return d2 + "|" + e2 })
		case "decode":
			raw := string(toRunes(in["raw"]))
			e["raw"] = cps(raw)
			var dec string
			oc, det := guarded(func() { dec = qs.DecodeString(raw, q) })
			e["dec"], e["outcome"] = cps(dec), oc
			if det != "" {
				e["detail"] = det
			}
		case "read":
			s := string(toRunes(in["s"]))
			tail := string(toRunes(in["tail"]))
			e["s"], e["tail"] = cps(s), cps(tail)
			var enc, first, decoded string
			oc, det := guarded(func() {
				_ = qs.EncodeString("x'y\"z", map[bool]rune{true: '"', false: '\''}[q == '\''])
				enc = qs.EncodeString(s, q)
				mk := func(decode bool) tokenizers.ITokenizer {
					var t tokenizers.ITokenizer
					if st == "csv" {
						ct := csv.NewCsvTokenizer()
						if q != '"' {
							if q == ',' {
								ct.SetFieldSeparators([]rune{';'})
							}
							ct.SetQuoteSymbols([]rune{q})
						}
						t = ct
					} else {
						t = calctok.NewExpressionTokenizer()
					}
					setOpts(t, 0)
					t.SetDecodeStrings(decode)
					return t
				}
				t1 := mk(false).TokenizeBuffer(enc + tail)
				t2 := mk(true).TokenizeBuffer(enc + tail)
				if len(t1) > 0 {
					first = t1[0].Value()
				}
				if len(t2) > 0 {
					decoded = t2[0].Value()
				}
			})
			e["enc"], e["first"], e["decoded"], e["outcome"] = cps(enc), cps(first), cps(decoded), oc
			if det != "" {
				e["detail"] = det
			}
		}
		out = append(out, e)
	}
	return out
}

func genC14(g *Gen) {
	states := []string{"generic", "expression", "csv"}
	quotes := []rune{'\'', '"'}
	alpha := []rune{'\'', '"', 'a', 0xe9, 0x20ac, 0x1F600, ' ', '\n'}
	ln := g.Pick(4, 6)
	tails := map[string][][]rune{
		"expression": {{}, []rune(" + 1"), []rune(")")},
		"csv":        {{}, []rune(",a"), []rune("\r\n")},
	}
	allStrings(alpha, ln, func(s []rune) {
		for _, st := range states {
			for _, q := range quotes {
				g.Run(fmt.Sprintf("exhaustive<=%d codec", ln), []Ev{{"op": "codec", "state": st, "s": cpsR(s), "q": int(q)}})
				if len(s) <= ln-1 {
					g.Run(fmt.Sprintf("exhaustive<=%d decode raw", ln-1), []Ev{{"op": "decode", "state": st, "raw": cpsR(s), "q": int(q)}})
					if st != "generic" {
						for _, tl := range tails[st] {
							g.Run(fmt.Sprintf("exhaustive<=%d read in stream", ln-1), []Ev{{"op": "read", "state": st, "s": cpsR(s), "q": int(q), "tail": cpsR(tl)}})
						}
					}
				}
			}
		}
	})
	for _, sz := range g.WithRandomSizes([]int{63, 64, 65, 255, 256, 257, 1000, 4097}, g.Pick(6, 40), 2, g.Pick(260, 5000)) {
		if sz > g.Pick(260, 5000) {
			continue
		}
		for _, unit := range []string{"a", "'", "\"", "é", "😀", "a'b\"", "''", " \n"} {
			s := []rune(strings.Repeat(unit, sz))[:sz]
			for _, st := range states {
				for _, q := range quotes {
					g.Run("long strings", []Ev{{"op": "codec", "state": st, "s": cpsR(s), "q": int(q)}})
					if st != "generic" {
						g.Run("long strings", []Ev{{"op": "read", "state": st, "s": cpsR(s), "q": int(q), "tail": cpsR(tails[st][1])}})
					}
				}
			}
		}
	}
	both := func(gen string, s []rune, only rune) {
		for _, st := range states {
			for _, q := range quotes {
				if only != 0 && q != only {
					continue
				}
				g.Run(gen, []Ev{{"op": "codec", "state": st, "s": cpsR(s), "q": int(q)}})
				if st != "generic" {
					g.Run(gen, []Ev{{"op": "read", "state": st, "s": cpsR(s), "q": int(q), "tail": cpsR(tails[st][1])}})
				}
			}
		}
	}
	// states that no constructor made
	for _, st := range []string{"generic", "expression", "csv"} {
		for _, s := range []string{"ABC", "", "it's", "say \"hi\"", "''", "\"\"", "é'日\""} {
			for _, q := range quotes {
				g.Run("states that no constructor made", []Ev{{"op": "codec", "state": st, "s": cps(s), "q": int(q), "literal": true}})
				g.Run("states that no constructor made", []Ev{{"op": "decode", "state": st, "raw": cps(s), "q": int(q), "literal": true}})
			}
		}
	}
	// quote characters that mean something to formatting / pattern functions
	// ... and quote characters from every part of Latin-1 (one byte as a code point, two bytes in UTF-8: U+0080..U+00BF share
	// their low byte with a continuation byte, U+00C0..U+00FF do not), from the rest of the BMP and from a supplementary plane
	for _, q := range []rune{'%', '\\', '$', '{', '*', '^', '`', '|', 0xab, 0x80, 0xbf, 0xc0, 0xd7, 0xe9, 0xff, 0x100, 0x2018, 0xfffd, 0x1f4ac} {
		for _, s := range []string{"ABC", "", "a%sb", string(q), "x" + string(q) + string(q) + "y", "%d%%", "\\n$1{0}", "a" + string(q) + "b", string(q) + "é×ÿ" + string(q) + string(q)} {
			for _, st := range states {
				g.Run("unusual quote characters", []Ev{{"op": "codec", "state": st, "s": cps(s), "q": int(q)}})
				if st == "csv" {
					g.Run("unusual quote characters", []Ev{{"op": "read", "state": st, "s": cps(s), "q": int(q), "tail": cpsR(tails[st][1])}})
				}
			}
		}
	}
	// one long-lived state: many values, every result kept and looked at again later
	rk := g.Rand()
	for _, st := range states {
		for rep := 0; rep < g.Pick(20, 400); rep++ {
			var seg []Ev
			for k := 0; k < 4+rk.Intn(12); k++ {
				q := quotes[rk.Intn(2)]
				s := []string{"say " + string(q) + "hi" + string(q), "plain", string(q) + string(q), "a" + string(q) + "b" + string(q) + "c", "", "é" + string(q), "1234567", strings.Repeat(string(q), 5)}[rk.Intn(8)]
				seg = append(seg, Ev{"op": "codec", "state": st, "s": cps(s), "q": int(q)})
			}
			g.Run("one long-lived state, results kept", seg)
		}
	}
	// rare code points inside the string
	for _, c := range rareRunes {
		both("rare code points", []rune{c}, 0)
		both("rare code points", []rune{'a', c, 'b'}, 0)
		both("rare code points", []rune{c, '\'', '"', c}, 0)
	}
	// a quote character at every offset of a long string; quote-heavy strings whose encoded length crosses a power of two
	for pos := 0; pos <= g.Pick(300, 1100); pos++ {
		q := quotes[pos%2]
		s := append([]rune(strings.Repeat("a", pos)), q, 'b')
		both("a quote at every offset", s, q)
		if pos%5 == 0 {
			both("a quote at every offset", append(append([]rune(strings.Repeat("é", pos)), q, q), quotes[1-pos%2]), q)
		}
	}
	for L := 100; L <= g.Pick(280, 1100); L += 3 {
		for _, k := range []int{1, L / 5, L / 2, L - 1, L} {
			q := quotes[(L+k)%2]
			s := make([]rune, L)
			for i := range s {
				s[i] = 'a'
			}
			for j := 0; j < k; j++ { // k quote characters spread evenly
				s[j*L/k] = q
			}
			both("quote-heavy long strings", s, q)
		}
	}
	// random Unicode strings, other quote characters
	r := g.Rand()
	n := g.Pick(3000, 150000)
	for i := 0; i < n; i++ {
		m := r.Intn(40)
		s := make([]rune, m)
		q := quotes[r.Intn(2)]
		for j := range s {
			switch x := r.Intn(10); {
			case x < 3:
				s[j] = q
			case x < 6:
				s[j] = rune(0x20 + r.Intn(0x5f))
			case x < 8:
				s[j] = rune(0xA0 + r.Intn(0x3000))
			default:
				s[j] = []rune{0x1F600, 0x10000, 0xFFFE, 0xFFFF, '\r', '\n', 0, '`'}[r.Intn(8)]
			}
		}
		st := states[r.Intn(3)]
		switch i % 3 {
		case 0:
			qq := q
			if st != "expression" && r.Intn(3) == 0 {
				qq = []rune{'`', '|', 0xab, 0x201c}[r.Intn(4)]
			}
			g.Run("random codec", []Ev{{"op": "codec", "state": st, "s": cpsR(s), "q": int(qq)}})
		case 1:
			g.Run("random decode raw", []Ev{{"op": "decode", "state": st, "raw": cpsR(s), "q": int(q)}})
		default:
			if st == "generic" {
				st = "csv"
			}
			qq := q
			if st == "csv" && r.Intn(2) == 0 {
				qq = []rune{'\'', '`', '|', 0x201D, 0xFF02, 0xAB}[r.Intn(6)]
			}
			tl := tails[st][r.Intn(len(tails[st]))]
			g.Run("random read in stream", []Ev{{"op": "read", "state": st, "s": cpsR(s), "q": int(qq), "tail": cpsR(tl)}})
		}
	}
}
