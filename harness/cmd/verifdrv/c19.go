package main

import (
	"fmt"
	"github.com/pip-services3-gox/pip-services3-expressions-gox/calculator/parsers"
	"github.com/pip-services3-gox/pip-services3-expressions-gox/tokenizers"
	"os"
	"path/filepath"
	"sort"
	"strings"
	"sync"
	"time"

	"github.com/pip-services3-gox/pip-services3-expressions-gox/calculator"
	"github.com/pip-services3-gox/pip-services3-expressions-gox/calculator/functions"
	"github.com/pip-services3-gox/pip-services3-expressions-gox/calculator/variables"
	"github.com/pip-services3-gox/pip-services3-expressions-gox/mustache"
	mparsers "github.com/pip-services3-gox/pip-services3-expressions-gox/mustache/parsers"
	"github.com/pip-services3-gox/pip-services3-expressions-gox/variants"
)

// C19: evaluation is pure and repeatable, also under concurrent use.
// Parts: "sched" (gated goroutines released in prescribed interleavings + sequential repetition),
//
//	"race"  (free-running goroutines; meaningful when the driver is built with -race).
func init() {
	props["C19"] = &Prop{
		Generate: genC19,
		Exec:     execC19,
		Rule: "sched: one segment per (program, values, schedule) or per repetition history; race: one event per free-running " +
			"batch; non-trivial = distinct schedule in which the processes really interleave (not one after the other)",
		NonTrivial: func(seg []Ev) string {
			last, switches := -1, 0
			key := ""
			for _, e := range seg {
				key += fmt.Sprint(e["op"], e["p"], e["k"], e["env"], e["text"], e["mode"], "|")
				if e["op"] == "step" {
					p := e["p"].(int)
					if last >= 0 && p != last {
						switches++
					}
					last = p
				}
			}
			if switches >= 2 || seg[0]["op"] != "start" {
				return key
			}
			return ""
		},
	}
}

// ---- gates ----
type gateMsg struct {
	p    int
	what string
}
type gater struct {
	arrive  chan gateMsg
	release []chan struct{}
	off     bool
}

func (g *gater) pass(p int, what string) {
	if g == nil || g.off {
		return
	}
	g.arrive <- gateMsg{p, what}
	<-g.release[p]
}

type gatedVars struct {
	variables.IVariableCollection
	g *gater
	p int
}

func (v *gatedVars) FindByName(name string) variables.IVariable {
	v.g.pass(v.p, "var:"+strings.ToLower(name))
	return v.IVariableCollection.FindByName(name)
}

type gatedFunc struct {
	functions.IFunction
	g *gater
	p int
}

func (f *gatedFunc) Calculate(params []*variants.Variant, ops variants.IVariantOperations) (*variants.Variant, error) {
	f.g.pass(f.p, "func:"+strings.ToLower(f.Name()))
	return f.IFunction.Calculate(params, ops)
}

type gatedFuncs struct {
	functions.IFunctionCollection
	g *gater
	p int
}

func (c *gatedFuncs) FindByName(name string) functions.IFunction {
	f := c.IFunctionCollection.FindByName(name)
	if f == nil {
		return nil
	}
	return &gatedFunc{f, c.g, c.p}
}

// ---- subjects: one parsed calculator or template shared by all processes ----
type c19subject struct {
	what string
	calc *calculator.ExpressionCalculator
	tmpl *mustache.MustacheTemplate
	envs []any // per process: *variables.VariableCollection or map[string]string
	fns  []*functions.DefaultFunctionCollection
}

var c19safe = false
var c19deffn = false

func c19values(p int) map[string]*variants.Variant {
	return map[string]*variants.Variant{
		"a": variants.VariantFromInteger(10*p + 1), "b": variants.VariantFromInteger(p + 2), "c": variants.VariantFromDouble(float64(p) + 0.5),
		"d": variants.VariantFromLong(int64(-100 * p)), "s": variants.VariantFromString(fmt.Sprintf("s%d", p)),
		"arr": variants.VariantFromArray([]*variants.Variant{variants.VariantFromInteger(p), variants.VariantFromInteger(p + 2), variants.VariantFromString("x"), variants.VariantFromDouble(float64(p) + 1.5)}),
		"f":   variants.VariantFromFloat(float32(p) + 0.25), "t": variants.VariantFromBoolean(p%2 == 0), "n": variants.EmptyVariant(),
		"when": variants.VariantFromDateTime(time.Unix(1700000000+int64(p)*86400, 0).In(time.FixedZone("east", 3*3600+1800))), "span": variants.VariantFromTimeSpan(time.Duration(p) * 90 * time.Minute),
		"big": variants.VariantFromInteger(100 + p), "lbig": variants.VariantFromLong(int64(70 + p)),
		"arrn": variants.VariantFromArray([]*variants.Variant{variants.VariantFromInteger(p), variants.EmptyVariant(), variants.VariantFromInteger(p + 2), variants.EmptyVariant(), variants.VariantFromString("x")}),
	}
}

func newC19subject(what, text string, procs int) (*c19subject, error) {
	s := &c19subject{what: what}
	if what == "calc" {
		s.calc = calculator.NewExpressionCalculator()
		s.calc.SetAutoVariables(false)
		if c19safe {
			s.calc.SetVariantOperations(variants.NewTypeSafeVariantOperations())
		}
		if err := s.calc.SetExpression(text); err != nil {
			return nil, err
		}
		for p := 1; p <= procs; p++ {
			vc := variables.NewVariableCollection()
			vals := c19values(p)
			names := []string{}
			for k := range vals {
				names = append(names, k)
			}
			sort.Strings(names)
			for _, k := range names {
				vc.Add(variables.NewVariable(strings.ToUpper(k), vals[k]))
			}
			s.envs = append(s.envs, vc)
			s.fns = append(s.fns, functions.NewDefaultFunctionCollection())
		}
	} else {
		s.tmpl = mustache.NewMustacheTemplate()
		s.tmpl.SetAutoVariables(false)
		if err := s.tmpl.SetTemplate(text); err != nil {
			return nil, err
		}
		// default variables that lack most of the template's names, automatic variables switched on only after the template was set:
		// a rendering (with or without a map of its own) reads them and leaves them as they are
		s.tmpl.SetAutoVariables(true)
		s.tmpl.SetDefaultVariables(map[string]string{"a": "dflt"})
		for p := 1; p <= procs; p++ {
			m := map[string]string{"__proc": fmt.Sprint(p), "a": fmt.Sprintf("a%d", p), "B": []string{"", "yes"}[p%2], "c": fmt.Sprintf("c\"%d/", p), "D": []string{"dd", ""}[p%2],
				"s": fmt.Sprintf("ess%d", p), "\u017f": fmt.Sprintf("long%d", p), "k": "kay", "\u03c3": "sigma", "\u03c2": "final"}
			s.envs = append(s.envs, m)
		}
	}
	return s, nil
}

func (s *c19subject) eval(p int, g *gater) string {
	var res string
	oc, _ := guarded(func() {
		if s.what == "calc" {
			vars := s.envs[p-1].(*variables.VariableCollection)
			var v *variants.Variant
			var err error
			if c19deffn {
				v, err = s.calc.EvaluateUsingVariables(&gatedVars{vars, g, p})
			} else {
				v, err = s.calc.EvaluateUsingVariablesAndFunctions(&gatedVars{vars, g, p}, &gatedFuncs{s.fns[p-1], g, p})
			}
			switch {
			case err != nil:
				res = "error:" + errCode(err)
			case v == nil:
				res = "nil"
			default:
				res = vtypeNames[v.Type()] + ":" + v.String()
			}
		} else {
			c19tmplGate.Store(g)
			out, err := s.tmpl.EvaluateWithVariables(s.envs[p-1].(map[string]string))
			if err != nil {
				res = "error:" + errCode(err)
			} else {
				res = "text:" + out
			}
		}
	})
	if oc != "ok" {
		return oc
	}
	return res
}

func tokDigest(ts []*mparsers.MustacheToken) string {
	var sb strings.Builder
	for _, t := range ts {
		fmt.Fprintf(&sb, "%d:%q[", t.Type(), t.Value())
		sb.WriteString(tokDigest(t.Tokens()))
		sb.WriteString("]")
	}
	return sb.String()
}

func (s *c19subject) snapshot() string {
	var sb strings.Builder
	if s.what == "calc" {
		for _, t := range s.calc.ResultTokens() {
			fmt.Fprintf(&sb, "%d:%d:%s;", t.Type(), t.Value().Type(), t.Value().String())
		}
		for _, e := range s.envs {
			for _, v := range e.(*variables.VariableCollection).GetAll() {
				val := v.Value()
				fmt.Fprintf(&sb, "%s=%d:%s", v.Name(), val.Type(), val.String())
				if val.Type() == variants.Array {
					for _, el := range val.AsArray() {
						fmt.Fprintf(&sb, "[%d:%s]", el.Type(), el.String())
					}
				}
				sb.WriteString(";")
			}
		}
		for _, fc := range s.fns {
			for _, f := range fc.GetAll() {
				sb.WriteString(f.Name() + ",")
			}
		}
		sb.WriteString("|defaults:")
		for _, f := range s.calc.DefaultFunctions().GetAll() {
			sb.WriteString(f.Name() + ",")
		}
	} else {
		sb.WriteString(tokDigest(s.tmpl.ResultTokens()))
		dk := []string{}
		for k, v := range s.tmpl.DefaultVariables() {
			dk = append(dk, k+"="+v)
		}
		sort.Strings(dk)
		sb.WriteString("defaults:" + strings.Join(dk, ";") + "|")
		for _, e := range s.envs {
			m := e.(map[string]string)
			keys := []string{}
			for k := range m {
				keys = append(keys, k)
			}
			sort.Strings(keys)
			for _, k := range keys {
				fmt.Fprintf(&sb, "%s=%q;", k, m[k])
			}
		}
	}
	return sb.String()
}

// the template renderer's gate (set through the guarded repository hook)
type gateHolder struct {
	mu sync.Mutex
	g  *gater
}

func (h *gateHolder) Store(g *gater) { h.mu.Lock(); h.g = g; h.mu.Unlock() }
func (h *gateHolder) Load() *gater   { h.mu.Lock(); defer h.mu.Unlock(); return h.g }

var c19tmplGate = &gateHolder{}

func init() {
	mustache.VerifRenderStep = func(vars map[string]string, t *mparsers.MustacheToken) {
		g := c19tmplGate.Load()
		if g == nil || g.off {
			return
		}
		var p int
		fmt.Sscan(vars["__proc"], &p)
		if p > 0 {
			g.pass(p, fmt.Sprintf("tok:%d:%s", t.Type(), t.Value()))
		}
	}
}

// dry run: the gated accesses of one evaluation, in order
func (s *c19subject) gateList(p int) []string {
	g := &gater{arrive: make(chan gateMsg, 64), release: make([]chan struct{}, len(s.envs)+1)}
	for i := range g.release {
		g.release[i] = make(chan struct{}, 1)
	}
	var out []string
	done := make(chan struct{})
	go func() { s.eval(p, g); close(done) }()
	for {
		select {
		case m := <-g.arrive:
			out = append(out, m.what)
			g.release[m.p] <- struct{}{}
		case <-done:
			return out
		case <-time.After(3 * time.Second):
			return out
		}
	}
}

func execC19(seg []Ev) []Ev {
	in := seg[0]
	switch toStr(in["op"]) {
	case "start":
		return execSched(in)
	case "rstart":
		return execRepeat(in)
	case "race":
		return execRace(in)
	case "iso":
		return execIso(in)
	case "reent":
		return execReent(in)
	case "scrib":
		return execScrib(in)
	}
	panic("C19: segment must begin with start / rstart / race")
}

func execSched(in Ev) []Ev {
	what, text := toStr(in["what"]), toStr(in["text"])
	procs := toInt(in["procs"])
	var sched []int
	for _, x := range toList(in["schedule"]) {
		sched = append(sched, toInt(x))
	}
	s, err := newC19subject(what, text, procs)
	if err != nil {
		panic("C19: subject does not parse: " + text)
	}
	off := &gater{off: true}
	seq := make([]string, procs)
	for p := 1; p <= procs; p++ {
		// the sequential result under p's values, from a freshly parsed instance that evaluates nothing else
		fs, _ := newC19subject(what, text, procs)
		seq[p-1] = fs.eval(p, off)
	}
	gates := make([][]string, procs)
	for p := 1; p <= procs; p++ {
		gates[p-1] = s.gateList(p) // which accesses an evaluation makes may depend on its values (template sections)
		if gates[p-1] == nil {
			gates[p-1] = []string{}
		}
	}
	start := Ev{"op": "start", "what": what, "text": text, "procs": procs, "schedule": sched, "gates": gates, "seq": seq, "snap": s.snapshot()}
	out := []Ev{start}
	g := &gater{arrive: make(chan gateMsg, 64), release: make([]chan struct{}, procs+1)}
	for i := range g.release {
		g.release[i] = make(chan struct{}, 1)
	}
	results := make([]string, procs+1)
	var wg sync.WaitGroup
	finished := make(chan int, procs)
	for p := 1; p <= procs; p++ {
		wg.Add(1)
		go func(p int) {
			defer wg.Done()
			results[p] = s.eval(p, g)
			finished <- p
		}(p)
	}
	waiting := map[int]string{}
	count := make([]int, procs+1)
	deadline := time.After(10 * time.Second)
	nfin := 0
	done := map[int]bool{}
	emitFinish := func(p int) {
		out = append(out, Ev{"op": "finish", "p": p, "result": results[p]})
		nfin++
		done[p] = true
	}
	for _, p := range sched {
		if done[p] {
			continue // it finished before the schedule expected it to (its finish event is recorded; nothing to release)
		}
		// wait until process p stands at a gate (or has finished early)
		for {
			if _, ok := waiting[p]; ok {
				break
			}
			select {
			case m := <-g.arrive:
				waiting[m.p] = m.what
			case q := <-finished:
				emitFinish(q)
				if q == p {
					goto next
				}
			case <-deadline:
				out = append(out, Ev{"op": "finish", "p": p, "result": "hang"})
				g.off = true
				goto drain
			}
		}
		count[p]++
		out = append(out, Ev{"op": "step", "p": p, "k": count[p], "what": waiting[p]})
		delete(waiting, p)
		g.release[p] <- struct{}{}
	next:
	}
drain:
	// a schedule shorter than the evaluations' accesses (an evaluation may make more of them than the schedule was written for):
	// whoever still stands or arrives at a gate passes it, in the order of arrival - every access is recorded as a step
	{
		ps := []int{}
		for p := range waiting {
			ps = append(ps, p)
		}
		sort.Ints(ps)
		for _, p := range ps {
			count[p]++
			out = append(out, Ev{"op": "step", "p": p, "k": count[p], "what": waiting[p]})
			delete(waiting, p)
			g.release[p] <- struct{}{}
		}
	}
	for nfin < procs {
		select {
		case m := <-g.arrive:
			count[m.p]++
			out = append(out, Ev{"op": "step", "p": m.p, "k": count[m.p], "what": m.what})
			g.release[m.p] <- struct{}{}
		case q := <-finished:
			emitFinish(q)
		case <-time.After(5 * time.Second):
			nfin = procs
		}
	}
	go func() { // (stragglers after a timeout)
		for m := range g.arrive {
			g.release[m.p] <- struct{}{}
		}
	}()
	out = append(out, Ev{"op": "end", "snap": s.snapshot()})
	return out
}

func execRepeat(in Ev) []Ev {
	what, text := toStr(in["what"]), toStr(in["text"])
	var order []int
	for _, x := range toList(in["order"]) {
		order = append(order, toInt(x))
	}
	s, err := newC19subject(what, text, 3)
	if err != nil {
		panic("C19: subject does not parse: " + text)
	}
	out := []Ev{{"op": "rstart", "what": what, "text": text, "order": order, "snap": s.snapshot()}}
	off := &gater{off: true}
	for i, p := range order {
		fs, _ := newC19subject(what, text, 3)
		if what == "tmpl" && i%2 == 1 {
			guarded(func() { s.tmpl.Evaluate() }) // a rendering from the default variables in between
		}
		out = append(out, Ev{"op": "reval", "env": p, "result": s.eval(p, off), "fresh": fs.eval(p, off)})
	}
	out = append(out, Ev{"op": "rend", "snap": s.snapshot()})
	return out
}

// A result is the caller's: what the caller does to the variant an evaluation returned (here: overwriting it in place) shows in no
// later evaluation - of the same calculator or of another one. The expressions are rooted in an operator, so the result is a value
// the evaluation made (not one of the caller's own variables or a constant of the program); every evaluation gets variable
// objects of its own.
func execScrib(in Ev) []Ev {
	text := toStr(in["text"])
	evalOn := func(c *calculator.ExpressionCalculator, scribble bool) string {
		res := "?"
		guarded(func() {
			vc := variables.NewVariableCollection()
			vals := c19values(1)
			names := []string{}
			for k := range vals {
				names = append(names, k)
			}
			sort.Strings(names)
			for _, k := range names {
				vc.Add(variables.NewVariable(strings.ToUpper(k), vals[k]))
			}
			v, err := c.EvaluateUsingVariables(vc)
			switch {
			case err != nil:
				res = "error:" + errCode(err)
			case v == nil:
				res = "nil"
			default:
				res = vtypeNames[v.Type()] + ":" + cl(v.String())
				if scribble {
					v.SetAsString("scribbled by the caller")
				}
			}
		})
		return res
	}
	mk := func() *calculator.ExpressionCalculator {
		c := calculator.NewExpressionCalculator()
		c.SetAutoVariables(false)
		if err := c.SetExpression(text); err != nil {
			panic("C19 scrib: does not parse: " + text)
		}
		return c
	}
	c1 := mk()
	first := evalOn(c1, true)
	again := evalOn(c1, true)
	other := evalOn(mk(), false)
	third := evalOn(c1, false)
	return []Ev{{"op": "scrib", "text": text, "first": first, "again": again, "other": other, "third": third}}
}

// re-entrant evaluation: a caller-written function evaluates the very calculator that is calling it (with a variable set of
// its own) - an evaluation nested inside another one is an interleaving, too; both must return the sequential results
func execReent(in Ev) []Ev {
	text := toStr(in["text"])
	n := toInt(in["n"])
	calc := calculator.NewExpressionCalculator()
	calc.SetAutoVariables(false)
	depth := 0
	calc.DefaultFunctions().Add(functions.NewDelegatedFunction("Self", func(p []*variants.Variant, o variants.IVariantOperations) (*variants.Variant, error) {
		k := p[0].AsInteger()
		if k <= 1 || depth > 50 {
			return variants.VariantFromInteger(1), nil
		}
		depth++
		defer func() { depth-- }()
		vs := variables.NewVariableCollection()
		vs.Add(variables.NewVariable("n", variants.VariantFromInteger(k)))
		return calc.EvaluateUsingVariables(vs)
	}))
	res := "?"
	oc, _ := guarded(func() {
		if err := calc.SetExpression(text); err != nil {
			res = "error:" + errCode(err)
			return
		}
		vs := variables.NewVariableCollection()
		vs.Add(variables.NewVariable("n", variants.VariantFromInteger(n)))
		v, err := calc.EvaluateUsingVariables(vs)
		switch {
		case err != nil:
			res = "error:" + errCode(err)
		case v == nil:
			res = "nil"
		default:
			res = vtypeNames[v.Type()] + ":" + v.String()
		}
	})
	if oc != "ok" {
		res = oc
	}
	f := 1
	for i := 2; i <= n; i++ {
		f *= i
	}
	return []Ev{{"op": "reent", "text": text, "n": n, "result": res, "want": fmt.Sprint("Integer:", f)}}
}

// separate instances: customising the function table / variables of one calculator must not be visible in another one
func execIso(in Ev) []Ev {
	names := func() string {
		var sb strings.Builder
		for _, f := range functions.NewDefaultFunctionCollection().GetAll() {
			sb.WriteString(f.Name() + ",")
		}
		return sb.String()
	}
	evalOf := func(c *calculator.ExpressionCalculator) string {
		var res string
		oc, _ := guarded(func() {
			v, err := c.Evaluate()
			switch {
			case err != nil:
				res = "error:" + errCode(err)
			case v == nil:
				res = "nil"
			default:
				res = vtypeNames[v.Type()] + ":" + v.String()
			}
		})
		if oc != "ok" {
			return oc
		}
		return res
	}
	konst := func(name string, n int) functions.IFunction {
		return functions.NewDelegatedFunction(name, func(p []*variants.Variant, o variants.IVariantOperations) (*variants.Variant, error) {
			return variants.VariantFromInteger(n), nil
		})
	}
	order := toInt(in["order"])
	e := Ev{"op": "iso", "order": order, "names0": names()}
	calcC := calculator.NewExpressionCalculator()
	calcC.SetExpression("Max(1, 2) + Min(7, 9) + Abs(0 - 3)")
	e["c1"] = evalOf(calcC)
	calcA := calculator.NewExpressionCalculator()
	if order%2 == 0 {
		calcA.DefaultFunctions().RemoveByName("Ticks")
	}
	calcA.DefaultFunctions().Add(konst("Rate", 10))
	calcA.SetExpression("Rate() + Max(1, 2) + Sum(1, 2)")
	e["a1"] = evalOf(calcA)
	calcB := calculator.NewExpressionCalculator()
	if order%3 == 0 {
		calcB.DefaultFunctions().RemoveByName("Max")
		calcB.DefaultFunctions().Add(konst("Max", 99))
	}
	calcB.DefaultFunctions().Add(konst("Rate", 20))
	calcB.DefaultVariables().Add(variables.NewVariable("shared", variants.VariantFromInteger(5)))
	calcB.SetExpression("Rate() + Max(1, 2) + shared")
	e["b1"] = evalOf(calcB)
	e["a2"], e["c2"], e["b2"] = evalOf(calcA), evalOf(calcC), evalOf(calcB)
	e["names1"] = names()
	calcD := calculator.NewExpressionCalculator()
	calcD.SetExpression("Max(1, 2) + Min(7, 9) + Abs(0 - 3)")
	e["d"] = evalOf(calcD)
	return []Ev{e}
}

func raceReports() int {
	prefix := os.Getenv("VERIF_RACELOG")
	if prefix == "" {
		return 0
	}
	files, _ := filepath.Glob(prefix + "*")
	n := 0
	for _, f := range files {
		b, _ := os.ReadFile(f)
		n += strings.Count(string(b), "WARNING: DATA RACE")
	}
	return n
}

func execRace(in Ev) []Ev {
	mode := toStr(in["mode"])
	gor, iters := toInt(in["goroutines"]), toInt(in["iters"])
	before := raceReports()
	mismatch := 0
	var mu sync.Mutex
	var wg sync.WaitGroup
	off := &gater{off: true}
	c19tmplGate.Store(nil)
	switch mode {
	case "shared-calculator", "shared-template", "shared-calculator-safe", "shared-calculator-deffns":
		what, text := "calc", "a + b * c - d + Sum(a, b, Min(c, d)) + arr[1]"
		if mode == "shared-template" {
			what, text = "tmpl", "Hello {{A}}{{#b}} [{{{C}}}]{{/b}}{{^d}} none{{/d}}!"
		}
		if mode == "shared-calculator-deffns" {
			// every evaluation uses the calculator's own (shared) function table
			c19deffn = true
			defer func() { c19deffn = false }()
		}
		if mode == "shared-calculator-safe" {
			// the type-safe operations manager installed: widening conversions of every kind inside the shared evaluation
			text = "(d + a) + (c + a) * (c + d) + (f + a) + (c + f) + (d + b)"
			c19safe = true
			defer func() { c19safe = false }()
		}
		// the sequential results come from a separate fresh instance
		fs, err := newC19subject(what, text, gor)
		if err != nil {
			panic(err)
		}
		seq := make([]string, gor+1)
		for p := 1; p <= gor; p++ {
			seq[p] = fs.eval(p, off)
		}
		// many cold starts: each shared instance is used for the first time by the concurrent evaluations themselves
		// (state that is initialised lazily on first use must be safe then, too)
		reps := 24
		for rep := 0; rep < reps; rep++ {
			s, _ := newC19subject(what, text, gor)
			start := make(chan struct{})
			for p := 1; p <= gor; p++ {
				wg.Add(1)
				go func(p int) {
					defer wg.Done()
					<-start
					for i := 0; i < iters/reps+1; i++ {
						if r := s.eval(p, off); r != seq[p] {
							mu.Lock()
							mismatch++
							mu.Unlock()
						}
					}
				}(p)
			}
			close(start)
			wg.Wait()
		}
	default: // every goroutine owns its own tokenizer, calculator and template
		inputs := []string{"a <= b <> c << 2", "1.5e3 + 'it''s' /* c */ >= x", "NOT a IS NULL"}
		want := make([]string, len(inputs))
		for i, x := range inputs {
			want[i] = fmt.Sprint(tokJSON(newTokenizer("expression").TokenizeBuffer(x)))
		}
		// sequentially established: the program each goroutine's expression compiles to
		exprOf := func(p int) string { return "a + b * (c - " + fmt.Sprint(p) + ") + Max(a, 'x', 2.5)" }
		wantRpn := make([]string, gor+1)
		for p := 1; p <= gor; p++ {
			fp := parsers.NewExpressionParser()
			fp.ParseString(exprOf(p))
			wantRpn[p] = fmt.Sprint(rpnJSON(fp.ResultTokens()))
		}
		for p := 1; p <= gor; p++ {
			wg.Add(1)
			go func(p int) {
				defer wg.Done()
				tk := newTokenizer("expression")
				gt := newTokenizer("generic")
				// its own parser, CSV tokenizer, quote states and operation managers as well
				ownParser := parsers.NewExpressionParser()
				ownCsv := newTokenizer("csv")
				csvText := "a,\"q\"\"r, s\",\"" + strings.Repeat("x", p) + "\"\r\n\"2\",b\n"
				csvWant := fmt.Sprint(tokJSON(newTokenizer("csv").TokenizeBuffer(csvText)))
				qs := []tokenizers.IQuoteState{quoteState("generic"), quoteState("expression"), quoteState("csv")}
				safe, unsafe := variants.NewTypeSafeVariantOperations(), variants.NewTypeUnsafeVariantOperations()
				s, _ := newC19subject("calc", "a + b * c - d", 1)
				t, _ := newC19subject("tmpl", "x{{A}}y{{#b}}z{{/b}}", 1)
				r0, t0 := s.eval(1, off), t.eval(1, off)
				for i := 0; i < iters; i++ {
					x := inputs[(i+p)%len(inputs)]
					bad := false
					if err := ownParser.ParseString(exprOf(p)); err != nil || fmt.Sprint(rpnJSON(ownParser.ResultTokens())) != wantRpn[p] {
						bad = true
					}
					if fmt.Sprint(tokJSON(ownCsv.TokenizeBuffer(csvText))) != csvWant {
						bad = true
					}
					for _, q := range qs {
						txt := "it's \"" + fmt.Sprint(p, i) + "\""
						if q.DecodeString(q.EncodeString(txt, '"'), '"') != txt {
							bad = true
						}
					}
					if v, err := safe.Convert(variants.VariantFromInteger(p), variants.Long); err != nil || v.Type() != variants.Long || v.AsLong() != int64(p) {
						bad = true
					}
					if _, err := safe.Convert(variants.VariantFromLong(int64(p)), variants.Integer); err == nil {
						bad = true
					}
					if v, err := unsafe.Convert(variants.VariantFromLong(int64(p*1000+i%7)), variants.String); err != nil || v.AsString() != fmt.Sprint(p*1000+i%7) {
						bad = true
					}
					if bad || fmt.Sprint(tokJSON(tk.TokenizeBuffer(x))) != want[(i+p)%len(inputs)] || len(gt.TokenizeBuffer("a <= b <> -1.5")) != 10 ||
						s.eval(1, off) != r0 || t.eval(1, off) != t0 {
						mu.Lock()
						mismatch++
						mu.Unlock()
					}
				}
			}(p)
		}
	}
	wg.Wait()
	time.Sleep(50 * time.Millisecond)
	return []Ev{{"op": "race", "mode": mode, "goroutines": gor, "iters": iters, "races": raceReports() - before, "mismatch": mismatch,
		"detector": os.Getenv("VERIF_RACELOG") != ""}}
}

// all interleavings of procs processes with k steps each
func interleavings(procs, k int, f func([]int)) {
	left := make([]int, procs+1)
	for i := 1; i <= procs; i++ {
		left[i] = k
	}
	var rec func(cur []int)
	rec = func(cur []int) {
		if len(cur) == procs*k {
			f(append([]int{}, cur...))
			return
		}
		for p := 1; p <= procs; p++ {
			if left[p] > 0 {
				left[p]--
				rec(append(cur, p))
				left[p]++
			}
		}
	}
	rec(nil)
}

func genC19(g *Gen) {
	r := g.Rand()
	ints := func(s []int) []any {
		o := make([]any, len(s))
		for i, x := range s {
			o[i] = x
		}
		return o
	}
	if g.Part == "race" {
		gor, iters := g.Pick(8, 16), g.Pick(300, 3000)
		for _, mode := range []string{"shared-calculator", "shared-template", "separate-instances", "shared-calculator-safe", "shared-calculator-deffns"} {
			g.Run("free-running goroutines: "+mode, []Ev{{"op": "race", "mode": mode, "goroutines": gor, "iters": iters}})
		}
		return
	}
	for _, tx := range []string{"n * Self(n - 1)", "Self(n - 1) * n", "If(n <= 1, 1, n * Self(n - 1))", "Max(1, n) * Self(n - 1) * 1", "(n + 0) * (Self(n - 1) + 0)"} {
		for n := 1; n <= 6; n++ {
			g.Run("an evaluation nested inside an evaluation of the same calculator", []Ev{{"op": "reent", "text": tx, "n": n}})
		}
	}
	for _, tx := range []string{"n IS NULL", "a IS NULL", "n IS NOT NULL", "a IS NOT NULL", "a NOT IN arr", "b NOT IN arr", "a IN arr", "NOT t", "a = b", "a <> b", "a < b",
		"a + b", "-c", "s + 'x'", "t AND t", "t OR t", "a * c - d", "n + a", "arr[0] + 1", "Abs(d) + 0", "(a IS NULL) OR (n IS NULL)", "NOT (a NOT IN arr)"} {
		g.Run("results overwritten in place by the caller", []Ev{{"op": "scrib", "text": tx}})
	}
	for o := 0; o < 6; o++ {
		g.Run("separate instances customise their own function tables", []Ev{{"op": "iso", "order": o}})
	}
	progs := []struct{ what, text string }{
		{"calc", "a + b"}, {"calc", "a + b * c - d"}, {"calc", "Min(a, b) + c"}, {"calc", "arr[b - b] + Sum(c, d, a)"}, {"calc", "a IN arr AND s = 's1'"},
		{"calc", "c ^ 2 + a"}, {"calc", "arr[3] ^ 2 - f ^ b"}, {"calc", "-c + Abs(c) + Round(f)"}, {"calc", "NOT t OR n IS NULL"}, {"calc", "s + a + c"},
		{"calc", "If(n IS NULL, c, a) * c"}, {"calc", "Ceil(c) + c"}, {"calc", "Floor(c) * 2 + c"}, {"calc", "Round(c) - c + Trunc(c)"}, {"calc", "Sqrt(c) + Exp(c) + c"},
		{"calc", "Ln(c) + Log10(c) + Log(c) + c"}, {"calc", "Sin(c) + Cos(c) + Tan(c) + c"}, {"calc", "Atan(c) + Asin(c / 10) + Acos(c / 10) + c"}, {"calc", "Abs(c) + Ceiling(c) + Truncate(c) + c"},
		{"calc", "Min(c, c) + Max(c, c) + Sum(c, c) + c"}, {"calc", "MAX(a, b) + min(c, d) + sUM(a, b) + ABS(d) + rOUND(f)"}, {"calc", "ARRAY(a, b)[1] + contains(s, 's') + IF(t, a, b)"},
		// the result IS one of the caller's own values (a variable, an argument picked by a function, an array element)
		{"calc", "when"}, {"calc", "If(t, when, when)"}, {"calc", "Max(when, when)"}, {"calc", "Choose(1, when, span)"}, {"calc", "arr[3]"}, {"calc", "span"}, {"calc", "If(NOT t, c, f)"}, {"calc", "Array(when, c)[0]"}, {"calc", "when - span"}, {"calc", "Empty(c) OR Contains(s, s) OR t"}, {"calc", "Abs(d) + d + Abs(-f)"}, {"calc", "Min(d, a) - Max(d, c)"}, {"calc", "Max(c, f) / c"}, {"calc", "a % b + (a << 1) - d"},
		{"calc", "Sum('a', 'b', 'c', 'd', 'e', 'f', 'g', 'h', 'i', 'j')"}, {"calc", "Sum(s, 'b', s, 'c', s, 'd', s, 'e', s, 'f') + s"}, {"calc", "Sum(1, 2, 3, 4, 5, 6, 7, 8, 9, 10, a) + Max(a, 1, 2, 3, 4, 5, 6, 7, 8, 9)"},
		{"calc", "big + (1 << big)"}, {"calc", "(a >> 70) + 70 + (1 << 65)"}, {"calc", "(a << lbig) + lbig"}, {"calc", "Concat(s, 'x', s) + s"}, {"calc", "arr[0] + Array(a, b, s)[2] + Sum(arr[0], arr[1])"},
		{"calc", "(n IN arrn) OR (b IN arrn) OR arrn[2] = b"}, {"calc", "(a NOT IN arrn) AND arrn[1] IS NULL AND arrn[4] = 'x'"}, {"calc", "If(s IN arrn, arrn[0], arrn[2]) + a"},
		{"tmpl", "{{s}}-{{\u017f}}-{{S}}"}, {"tmpl", "{{k}}{{#\u03c3}}x{{/\u03c3}}{{\u03c2}}"},
		{"tmpl", "{{A}}{{C}}"}, {"tmpl", "Hi {{A}}{{#b}}[{{{C}}}]{{/b}}{{^d}}n{{/d}}"},
	}
	for _, pg := range progs {
		s, err := newC19subject(pg.what, pg.text, 1)
		if err != nil {
			panic(err)
		}
		s3, _ := newC19subject(pg.what, pg.text, 3)
		ks := []int{0, len(s3.gateList(1)), len(s3.gateList(2)), len(s3.gateList(3))}
		k := ks[1]
		if ks[2] != k {
			k = 99 // processes differ in length: only random schedules below
		}
		_ = s
		// every interleaving for two processes when small; for three processes a seeded sample; always a few random ones
		total := 0
		if k <= g.Pick(4, 5) {
			interleavings(2, k, func(sc []int) {
				total++
				g.Run("all interleavings of 2 evaluations", []Ev{{"op": "start", "what": pg.what, "text": pg.text, "procs": 2, "schedule": ints(sc)}})
			})
		}
		for x := 0; x < g.Pick(25, 1200); x++ {
			procs := 2 + r.Intn(2)
			var sc []int
			left := make([]int, procs+1)
			tot := 0
			for p := 1; p <= procs; p++ {
				left[p] = ks[p]
				tot += ks[p]
			}
			for len(sc) < tot {
				p := 1 + r.Intn(procs)
				if left[p] > 0 {
					left[p]--
					sc = append(sc, p)
				}
			}
			g.Run("random interleavings of 2-3 evaluations", []Ev{{"op": "start", "what": pg.what, "text": pg.text, "procs": procs, "schedule": ints(sc)}})
		}
		// sequential repetition in every order of three environments visited twice (thorough) / a sample (quick)
		for x := 0; x < g.Pick(20, 800); x++ {
			var order []int
			for y := 0; y < 3+r.Intn(8); y++ {
				order = append(order, 1+r.Intn(3))
			}
			g.Run("sequential repetition histories", []Ev{{"op": "rstart", "what": pg.what, "text": pg.text, "order": ints(order)}})
		}
	}
}
