package main

import (
	"fmt"
	"strings"
)

// C12 (token positions) and C15 (options only drop or rewrite whole tokens) share generator and executor:
// one event = one input tokenized by one real tokenizer with all options off (base) and under an option set (out).
func init() {
	props["C15"] = &Prop{
		Generate: func(g *Gen) { genOpts(g, false) },
		Exec:     execTok,
		Rule: "one event per (tokenizer, option set, input); non-trivial = distinct (tokenizer, options, input) whose option-free " +
			"stream contains a token that an enabled option drops or rewrites",
		NonTrivial: func(seg []Ev) string {
			e := seg[0]
			if fmt.Sprint(e["base"]) != fmt.Sprint(e["out"]) {
				return fmt.Sprint(e["kind"], e["opts"], e["input"])
			}
			return ""
		},
	}
	props["C12"] = &Prop{
		Generate: func(g *Gen) { genOpts(g, true) },
		Exec:     execTok,
		Rule: "one event per (tokenizer, option set, input); non-trivial = distinct (tokenizer, options, input) with a line break " +
			"in the input and at least three tokens",
		NonTrivial: func(seg []Ev) string {
			e := seg[0]
			in := string(toRunes(e["input"]))
			if strings.ContainsAny(in, "\r\n") && len(e["out"].([][]any)) >= 3 {
				return fmt.Sprint(e["kind"], e["opts"], e["input"])
			}
			return ""
		},
	}
}

// 16 option sets that cover every option on and off and every pair of options both on
var optCover = []int{0, 127, 1, 2, 4, 8, 16, 32, 64, 1 | 2 | 4, 2 | 16, 2 | 4 | 8, 1 | 2 | 64, 8 | 32 | 64, 1 | 4 | 16 | 32, 127 ^ 2}

var optAlpha = map[string][]rune{
	"generic":            {'a', '1', '.', '-', '\'', '#', ' ', '\n', '\r', 0x1F600},
	"expression":         {'a', '1', '.', '/', '*', '\'', '"', ' ', '\n', '\r', 0x1F600},
	"csv":                {'a', ',', '"', '\r', '\n', 0x416},
	"mustache":           {'a', '{', '}', '#', ' ', '\n', '"', 0x1F600},
	"generic-custom":     {'a', '=', ':', '<', '!', '-', '>', ' ', '\n'},
	"generic-arrows":     {'a', 0x2192, 0x3000, 0x416, ' ', '\'', '#', 0xa0, 0x2003},
	"csv-wide":           {'a', 0xff1b, 0xab, '"', '\r', '\n', 0x416},
	"generic-quotes":     {'a', 0xab, 0x201c, '\'', ' ', '#', '\n'},
	"generic-unknownsym": {'a', '?', '!', ' ', 0xffff, '#', '\n'},
	"generic-quotedsym":  {'a', '`', '|', 'x', '!', ' ', '\'', '#'},
	"expression-custom":  {'a', '1', '-', '>', '=', ' ', '\''},
	"generic-2quotes":    {'a', '`', '\'', ' ', '#', '\n'},
	"generic-interned":   {'a', ' ', '\n', '\r', '#'},
}

var optSnippets = map[string][]string{
	"generic": {"a  # c\n  b", "x 😀  'q' 1 2.5 # end", "a\r\n\r\n 'it' \"s\"\n\r-1 .5", "😀 😀  a", "# only\n# two\n", " \n 'multi\nline' x"},
	"expression": {"a i\u017f null\nor x l\u0131ke 'y'  fal\u017fe and\n  x \u0131n y", "a /* c */ b", "a  /* c */  b /* d */\n  c", "1 /*x*/ 2.5e3 'it''s' \"q\"\"r\" 😀 ", "/* c */ /* d */ x", "a\r\n+ 'b'\n\r/*\n*/ 7",
		"😀/**/ 😀 1", " /**/ ", "x /* unterminated"},
	"csv":                {"a,b\r\n\"c,d\",\"e\"\"f\"\n", "\"x\"\r\"y\"\n\r\"\"", "a,\"multi\nline\",b\rc"},
	"generic-custom":     {"a =:= b\n=: c", "<!-- x\n--> !>>> !>>\n!"},
	"generic-arrows":     {"страна a → b\u3000\u3000x→→y ← # c\n→", "日本\u3000語 → 'q→' 12  ", "a\u00a0\u2003 b\u3000\u00a0# c\u2003\n\u2003"},
	"csv-wide":           {"日本；語；«q；»»r«\r\nстрана；\"x\"\"y\"；；\n", "a,b；c\r«open；", "«a««b«；«««"},
	"generic-quotes":     {"a «b  c« “d“ 'e' \"f\" # c\n«open", "x«« ““y «'« “\"“ \uffff"},
	"generic-unknownsym": {"a ? b ?! c !? <= ? # c\n?", "??!?\uffff?# c\n? ?"},
	"generic-quotedsym":  {"a `` b |x| c !! 'q' || # c\n``", "``|x|!!`|x||x|! '``' 12  |x|"},
	"expression-custom":  {"a->b => c-- -= -1 /* c */ - 2 --3 'q'", "x-->y  -=- 1e-5\n->"},
	"generic-2quotes":    {"a `b``c` 'd' \"e\" # c\n`open", "`` ```` `'`  '`' x"},
	"generic-interned":   {"a\nb \n c\n\nd \r\n e # c\n", "\n x\n\n  y"},
	"mustache":           {"a {{ \"}}\" x }} b {{ '}}}' }}} c {{ '{{' }}", "Hello, {{ Name }}!\n{{#if a}} x {{/if}}", "{{ 'q'  \"r\" }} t {{{ b }}}", "a\r\n{{ b 😀 c }}\n d", "{{a}}{{b}} {{ c  d }}"},
}

// one lexeme of every token class per tokenizer, including the skippable ones (comment, whitespace, unknown character)
var optLexemes = map[string][]string{
	"generic":            {"a", "1", "2.5", "'q'", "# c", " ", "\n", "\r\n", "😀", "<=", "-"},
	"expression":         {"a", "1", "2.5e1", "'q''r'", "\"w\"", "/*c*/", "/*\n*/", " ", "\n", "😀", "<=", "NOT"},
	"csv":                {"a", ",", "\"q\"\"r\"", "\r\n", "\n", "😀", "\"\""},
	"mustache":           {"text", "{{", "}}", "{{{", "}}}", "a", " ", "\n", "😀", "'q'", "#", "\"}}\"", "'}}}'", "'{{'"},
	"generic-custom":     {"a", "=:=", "=:", " ", "\n", "😀", "<!--", "# c"},
	"generic-arrows":     {"a", "→", "→←", "\u3000", " ", "ж", "# c", "'q→'", "😀", "\u00a0", "\u2003\u3000"},
	"csv-wide":           {"a", "；", "«q««r«", "\"q\"", "\r\n", "ж", "««", "😀"},
	"generic-quotes":     {"a", "«q r«", "“q“", "'q'", " ", "# c", "😀", "\n"},
	"generic-unknownsym": {"a", "?", "?!", "!", " ", "# c", "\uffff", "\n"},
	"generic-quotedsym":  {"a", "``", "|x|", "!!", "||", "`", "|", " ", "# c", "'q'", "'``'"},
	"expression-custom":  {"a", "1", "->", "=>", "--", "-", ">", " ", "/*c*/", "'q'"},
	"generic-2quotes":    {"a", "`q``r`", "``", "'q'", " ", "# c", "\n", "`"},
	"generic-interned":   {"a", "\n", " ", "\r\n", "# c", "1"},
}

func genOpts(g *Gen, positions bool) {
	sets := optCover
	if g.Thorough() {
		sets = make([]int, 128)
		for i := range sets {
			sets[i] = i
		}
	}
	for _, kind := range tokKinds {
		kind := kind
		if positions && kind == "generic-interned" {
			continue // its caller-written state hands out one token object with one fixed position
		}
		ln := g.Pick(3, 4)
		if kind == "csv" && !g.Thorough() {
			ln = 4
		}
		allStrings(optAlpha[kind], ln, func(s []rune) {
			for _, bits := range sets {
				g.Run(fmt.Sprintf("exhaustive<=%d x %d option sets:%s", ln, len(sets), kind),
					[]Ev{{"op": "tok", "kind": kind, "opts": toAnyList(optList(bits)), "input": cpsR(s)}})
			}
		})
		// every sequence of up to three lexemes (a token of every class directly after every skippable token)
		lex := optLexemes[kind]
		for _, a := range lex {
			for _, b := range lex {
				for _, c := range append([]string{""}, lex...) {
					in := a + b + c
					for _, bits := range sets {
						g.Run(fmt.Sprintf("lexeme sequences<=3 x %d option sets:%s", len(sets), kind),
							[]Ev{{"op": "tok", "kind": kind, "opts": toAnyList(optList(bits)), "input": cps(in)}})
					}
				}
			}
		}
		for i, in := range rareInputs() {
			g.Run("rare code points in every context:"+kind, []Ev{{"op": "tok", "kind": kind, "opts": toAnyList(optList([]int{127, 0, 1 | 2 | 4 | 8, 16 | 32 | 64, 85, 42}[i%6])), "input": cpsR(in)}})
		}
		// a line break (each style) at every offset around the multiples of 64, after a token that reads it and puts it back
		var offs []int
		if g.Thorough() {
			for p := 1; p < 300; p++ {
				offs = append(offs, p)
			}
		} else {
			offs = []int{62, 63, 64, 65, 126, 127, 128, 129, 191, 192, 255, 256}
		}
		fill := map[string]string{"generic": "ab 12 <= ", "expression": "ab 1.5 <= ", "csv": "ab,12,\"q\",", "mustache": "ab {{c}} d", "generic-custom": "a=:=b <!-- ",
			"generic-arrows": "ab→ж 12 ", "csv-wide": "ab；«q«；ж；", "generic-quotes": "ab «q« 12 ", "generic-unknownsym": "ab ?! 12 ", "generic-quotedsym": "ab `` |x| 12 ", "expression-custom": "ab->1 => ", "generic-2quotes": "ab `q` 12 ", "generic-interned": "ab\n12 \n"}[kind]
		for _, p := range offs {
			for bi, br := range []string{"\n", "\r\n", "\r", "\n\r"} {
				if !g.Thorough() && bi >= 2 && p%64 != 63 {
					continue
				}
				in := []rune(strings.Repeat(fill, 60))[:p] // (the shortest filler has 7 characters: 60 of them reach past every offset)
				in = append(in, []rune(br+"x1 "+br+br+"y")...)
				g.Run("a line break at every offset around the multiples of 64:"+kind, []Ev{{"op": "tok", "kind": kind, "opts": toAnyList(optList([]int{0, 127, 2 | 16}[p%3])), "input": cpsR(in)}})
			}
		}
		for _, cnt := range []int{64, 129, 257, 300, 1030} {
			if cnt > g.Pick(260, 1100) || (positions && cnt > g.Pick(64, 300)) || (!g.Thorough() && cnt == 64) {
				continue
			}
			for _, unit := range []string{"\uffff", "# c\n", "/*c*/ ", "\U0001f600", " \n", "?", "{{!c}}", "\uffff "} {
				for bi, bits := range []int{127, 1, 2 | 4, 2, 1 | 2 | 4, 16} {
					if !g.Thorough() && bi >= 3 {
						continue
					}
					g.Run("many dropped tokens in a row:"+kind, []Ev{{"op": "tok", "kind": kind, "opts": toAnyList(optList(bits)), "input": cpsR([]rune("a" + strings.Repeat(unit, cnt) + "b"))}})
				}
			}
		}
		if g.Thorough() || kind == "generic" || kind == "csv" {
			// one line far longer than 65535 columns, many lines, many tokens
			g.Run("giant inputs:"+kind, []Ev{{"op": "tok", "kind": kind, "opts": []any{}, "input": cpsR([]rune(strings.Repeat("a", 70000) + " b\nc"))}})
			g.Run("giant inputs:"+kind, []Ev{{"op": "tok", "kind": kind, "opts": []any{}, "input": cpsR([]rune(strings.Repeat("\n", 70000) + "b c"))}})
		}
		for _, sz := range []int{64, 65, 129, 257, 600} {
			if sz > g.Pick(130, 600) {
				continue
			}
			for rep := 0; rep < g.Pick(1, 6); rep++ {
				in := longInput(g, kind, sz)
				for _, bits := range []int{127, 1 | 2 | 4 | 8, 16 | 32 | 64} {
					g.Run("long inputs x option sets:"+kind, []Ev{{"op": "tok", "kind": kind, "opts": toAnyList(optList(bits)), "input": cpsR(in)}})
				}
			}
		}
		n := g.Pick(400, 6000)
		r := g.Rand()
		for i := 0; i < n; i++ {
			var in []rune
			switch i % 3 {
			case 0:
				in = randomInput(g, kind, 30)
			case 1:
				sn := optSnippets[kind]
				in = mutateSnippet(g, sn[r.Intn(len(sn))])
			default:
				// tokens of every class separated by line breaks of every style
				alpha := optAlpha[kind]
				for j := 0; j < 2+r.Intn(8); j++ {
					for k := 0; k < 1+r.Intn(3); k++ {
						in = append(in, alpha[r.Intn(len(alpha))])
					}
					in = append(in, []rune([]string{"\n", "\r", "\r\n", "\n\r", " ", "  "}[r.Intn(6)])...)
				}
			}
			// all 128 option sets are sampled over the random inputs
			bits := r.Intn(128)
			if i%4 == 0 {
				bits = sets[r.Intn(len(sets))]
			}
			g.Run("random:"+kind, []Ev{{"op": "tok", "kind": kind, "opts": toAnyList(optList(bits)), "input": cpsR(in)}})
		}
		for _, sn := range optSnippets[kind] {
			for bits := 0; bits < 128; bits++ {
				g.Run("snippets x 128 option sets:"+kind, []Ev{{"op": "tok", "kind": kind, "opts": toAnyList(optList(bits)), "input": cps(sn)}})
			}
		}
	}
}

func toAnyList(s []string) []any {
	out := make([]any, len(s))
	for i, x := range s {
		out[i] = x
	}
	return out
}
