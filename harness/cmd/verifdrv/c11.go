package main

import (
	"fmt"

	sio "github.com/pip-services3-gox/pip-services3-expressions-gox/io"
)

// C11: the string scanner is a faithful cursor.
//
// Generators:
//  (i)  exhaustive exploration of the implementation's own state graph for every content up to
//       a bound over {x, LF, CR}: breadth-first over the observable state (cursor, Line, Column);
//       from every state every operation is applied and the transition logged with all observers.
//  (ii) seeded random walks over random contents with all four line-break styles.
func init() {
	props["C11"] = &Prop{
		Generate: genC11,
		Exec:     execC11,
		Rule: "segment = new(content) + call history; non-trivial = distinct (content, history) whose history " +
			"contains an unread/unreadmany/reset after at least one read and whose content has a line break",
		NonTrivial: func(seg []Ev) string {
			hasBreak := false
			for _, c := range toRunes(seg[0]["content"]) {
				if c == 10 || c == 13 {
					hasBreak = true
				}
			}
			back, read := false, false
			key := fmt.Sprint(seg[0]["content"])
			for _, e := range seg[1:] {
				op := toStr(e["op"])
				key += "|" + op
				if op == "unreadmany" {
					key += fmt.Sprint(e["n"])
				}
				if op == "read" {
					read = true
				} else if read {
					back = true
				}
			}
			if hasBreak && back {
				return key
			}
			return ""
		},
	}
}

func scanObs(s *sio.StringScanner) Ev {
	o := Ev{}
	o["k"] = s.VerifCursor()
	o["line"] = s.Line()
	o["col"] = s.Column()
	o["peek"] = int(s.Peek())
	o["pline"] = s.PeekLine()
	o["pcol"] = s.PeekColumn()
	o["k2"] = s.VerifCursor()
	o["line2"] = s.Line()
	o["col2"] = s.Column()
	return o
}

func execC11(seg []Ev) []Ev {
	var s *sio.StringScanner
	out := make([]Ev, 0, len(seg))
	for _, in := range seg {
		e := Ev{"op": in["op"]}
		switch toStr(in["op"]) {
		case "new":
			r := toRunes(in["content"])
			e["content"] = cpsR(r)
			s = sio.NewStringScanner(string(r))
		case "read":
			e["ret"] = int(s.Read())
		case "unread":
			s.Unread()
		case "unreadmany":
			n := toInt(in["n"])
			e["n"] = n
			s.UnreadMany(n)
		case "reset":
			s.Reset()
		default:
			panic("C11: unknown op")
		}
		e["obs"] = scanObs(s)
		out = append(out, e)
	}
	return out
}

type c11op struct {
	op string
	n  int
}

var c11ops = []c11op{{"read", 0}, {"unread", 0}, {"unreadmany", 2}, {"unreadmany", 3}, {"unreadmany", 0}, {"reset", 0}}

func (o c11op) ev() Ev {
	if o.op == "unreadmany" {
		return Ev{"op": o.op, "n": o.n}
	}
	return Ev{"op": o.op}
}

func genC11(g *Gen) {
	maxLen := g.Pick(4, 7)
	states := 0
	allStrings([]rune{'x', '\n', '\r'}, maxLen, func(content []rune) {
		// BFS over observable states of the real scanner
		type st struct{ k, line, col int }
		seen := map[st][]c11op{}
		queue := []st{}
		drive := func(path []c11op) []Ev {
			seg := []Ev{{"op": "new", "content": cpsR(content)}}
			for _, o := range path {
				seg = append(seg, o.ev())
			}
			return seg
		}
		key := func(out []Ev) st {
			o := out[len(out)-1]["obs"].(Ev)
			return st{o["k"].(int), o["line"].(int), o["col"].(int)}
		}
		init := execC11(drive(nil))
		s0 := key(init)
		seen[s0] = []c11op{}
		queue = append(queue, s0)
		for len(queue) > 0 && len(seen) < 400 {
			cur := queue[0]
			queue = queue[1:]
			path := seen[cur]
			for _, o := range c11ops {
				p2 := append(append([]c11op{}, path...), o)
				seg := drive(p2)
				out := execC11(seg)
				g.w.gens["stategraph"]++
				g.w.Put(out)
				n := key(out)
				if _, ok := seen[n]; !ok {
					seen[n] = p2
					queue = append(queue, n)
				}
			}
		}
		states += len(seen)
	})
	g.w.extra["impl_states_explored"] = states
	g.w.extra["stategraph_max_content_len"] = maxLen

	// all call histories of a fixed depth (hidden state that the observable state graph cannot see)
	hops := []c11op{{"read", 0}, {"unread", 0}, {"unreadmany", 2}}
	depth := g.Pick(5, 7)
	hlen := g.Pick(3, 4)
	allStrings([]rune{'x', '\n', '\r'}, hlen, func(content []rune) {
		if len(content) < 2 {
			return
		}
		idx := make([]int, depth)
		for {
			seg := []Ev{{"op": "new", "content": cpsR(content)}}
			for _, i := range idx {
				seg = append(seg, hops[i].ev())
			}
			g.Run("histories", seg)
			j := depth - 1
			for j >= 0 {
				idx[j]++
				if idx[j] < len(hops) {
					break
				}
				idx[j] = 0
				j--
			}
			if j < 0 {
				break
			}
		}
	})

	// random walks
	r := g.Rand()
	walks := g.Pick(150, 8000)
	alpha := []rune{'a', 'b', ' ', '\n', '\r', 0xe9, 0x416, 0x1F600}
	for i := 0; i < walks; i++ {
		n := r.Intn(60)
		content := make([]rune, n)
		for j := range content {
			if r.Intn(100) < 35 {
				content[j] = []rune{'\n', '\r'}[r.Intn(2)]
			} else {
				content[j] = alpha[r.Intn(len(alpha))]
			}
		}
		seg := []Ev{{"op": "new", "content": cpsR(content)}}
		steps := 50 + r.Intn(150)
		for j := 0; j < steps; j++ {
			x := r.Intn(100)
			switch {
			case x < 55:
				seg = append(seg, Ev{"op": "read"})
			case x < 80:
				seg = append(seg, Ev{"op": "unread"})
			case x < 95:
				seg = append(seg, Ev{"op": "unreadmany", "n": r.Intn(6) - 1})
			default:
				seg = append(seg, Ev{"op": "reset"})
			}
		}
		g.Run("randomwalk", seg)
	}
}
