package main

import (
	"math"
	"fmt"
	"strings"

	sio "github.com/pip-services3-gox/pip-services3-expressions-gox/io"
)

// C11: the string scanner is a faithful cursor.
//
// Generators:
//
//	(i)  exhaustive exploration of the implementation's own state graph for every content up to
//	     a bound over {x, LF, CR}: breadth-first over the observable state (cursor, Line, Column);
//	     from every state every operation is applied and the transition logged with all observers.
//	(ii) seeded random walks over random contents with all four line-break styles.
func init() {
	props["C11"] = &Prop{
		Generate: genC11,
		Exec:     execC11,
		Rule: "segment = new(content) + call history; non-trivial = distinct (content, history) whose history " +
			"contains an unread/unreadmany/reset after at least one read and whose content has a line break",
		NonTrivial: func(seg []Ev) string {
			hasBreak := false
			for _, c := range toRunes(seg[0]["content"]) {
				if c == 10 || c == 13 {
					hasBreak = true
				}
			}
			back, read := false, false
			key := fmt.Sprint(seg[0]["content"])
			for _, e := range seg[1:] {
				op := toStr(e["op"])
				key += "|" + op
				if op == "unreadmany" {
					key += fmt.Sprint(e["n"])
				}
				if op == "read" {
					read = true
				} else if read {
					back = true
				}
			}
			if hasBreak && back {
				return key
			}
			return ""
		},
	}
}

// scanObs asks the five queries in one of several orders (qo): what one query reports must not depend on which was asked before
func scanObs(s *sio.StringScanner, qo int) Ev {
	o := Ev{}
	o["k"] = s.VerifCursor()
	q := map[byte]func(){
		'L': func() { o["line"] = s.Line() }, 'C': func() { o["col"] = s.Column() }, 'P': func() { o["peek"] = int(s.Peek()) },
		'l': func() { o["pline"] = s.PeekLine() }, 'c': func() { o["pcol"] = s.PeekColumn() },
	}
	orders := []string{"LCPlc", "clPLC", "PlcCL", "CcLlP", "lcPCL", "cLCPl"}
	for _, x := range []byte(orders[((qo%len(orders))+len(orders))%len(orders)]) {
		q[x]()
	}
	o["k2"] = s.VerifCursor()
	o["line2"] = s.Line()
	o["col2"] = s.Column()
	return o
}

func execC11(seg []Ev) []Ev {
	var s *sio.StringScanner
	other := sio.NewStringScanner("") // a second scanner that stays alive; "switch" exchanges the two
	out := make([]Ev, 0, len(seg))
	for i, in := range seg {
		e := Ev{"op": in["op"]}
		qo := 0
		if q, ok := in["qo"]; ok {
			qo = toInt(q)
		} else if len(seg) > 12 {
			qo = i // long histories rotate the order of the queries
		}
		e["qo"] = qo
		e["first"] = i == 0 // a segment starts with two new scanners
		switch toStr(in["op"]) {
		case "switch":
			s, other = other, s
		case "newbytes": // a text given as bytes, possibly not well-formed UTF-8: its characters are those the host's conversion yields
			bs := toList(in["bytes"])
			b := make([]byte, len(bs))
			for j, x := range bs {
				b[j] = byte(toInt(x))
			}
			e["op"], e["bytes"] = "new", bs
			e["frombytes"] = true
			e["content"] = cpsR([]rune(string(b)))
			s = sio.NewStringScanner(string(b))
		case "new":
			r := toRunes(in["content"])
			e["content"] = cpsR(r)
			s = sio.NewStringScanner(string(r))
		case "read":
			e["ret"] = int(s.Read())
		case "unread":
			s.Unread()
		case "unreadmany":
			n := toInt(in["n"])
			if raw, ok := in["nraw"]; ok { // a replayed event carries the real count here
				fmt.Sscan(toStr(raw), &n)
			}
			e["n"] = n
			if n < -(1 << 30) {
				e["n"] = -(1 << 30) // what the specification sees (TLC's integers are 32 bits wide; any count <= 0 means "nothing")
				e["nraw"] = fmt.Sprint(n)
			}
			s.UnreadMany(n)
		case "reset":
			s.Reset()
		case "readmany": // n reads recorded as one step (long lines: one event instead of tens of thousands)
			n := toInt(in["n"])
			e["n"] = n
			last := rune(-2)
			for j := 0; j < n; j++ {
				last = s.Read()
			}
			e["ret"] = int(last)
		default:
			panic("C11: unknown op")
		}
		e["obs"] = scanObs(s, qo)
		out = append(out, e)
	}
	return out
}

type c11op struct {
	op string
	n  int
}

var c11ops = []c11op{{"read", 0}, {"unread", 0}, {"unreadmany", 2}, {"unreadmany", 3}, {"unreadmany", 0}, {"reset", 0}}

func (o c11op) ev() Ev {
	if o.op == "unreadmany" {
		return Ev{"op": o.op, "n": o.n}
	}
	return Ev{"op": o.op}
}

func genC11(g *Gen) {
	maxLen := g.Pick(4, 7)
	states := 0
	allStrings([]rune{'x', '\n', '\r'}, maxLen, func(content []rune) {
		// BFS over observable states of the real scanner
		type st struct{ k, line, col int }
		seen := map[st][]c11op{}
		queue := []st{}
		drive := func(path []c11op) []Ev {
			seg := []Ev{{"op": "new", "content": cpsR(content)}}
			for _, o := range path {
				seg = append(seg, o.ev())
			}
			return seg
		}
		key := func(out []Ev) st {
			o := out[len(out)-1]["obs"].(Ev)
			return st{o["k"].(int), o["line"].(int), o["col"].(int)}
		}
		init := execC11(drive(nil))
		s0 := key(init)
		seen[s0] = []c11op{}
		queue = append(queue, s0)
		for len(queue) > 0 && len(seen) < 6*(len(content)+2) { // a faithful cursor has len+2 states; beyond a few times that the graph is being left (every extra state is a rejected observation already)
			cur := queue[0]
			queue = queue[1:]
			path := seen[cur]
			for _, o := range c11ops {
				p2 := append(append([]c11op{}, path...), o)
				seg := drive(p2)
				out := execC11(seg)
				g.w.gens["stategraph"]++
				g.w.Put(out)
				n := key(out)
				if _, ok := seen[n]; !ok {
					seen[n] = p2
					queue = append(queue, n)
				}
			}
		}
		states += len(seen)
	})
	g.w.extra["impl_states_explored"] = states
	g.w.extra["stategraph_max_content_len"] = maxLen

	// all call histories of a fixed depth (hidden state that the observable state graph cannot see)
	hops := []c11op{{"read", 0}, {"unread", 0}, {"unreadmany", 2}}
	depth := g.Pick(5, 7)
	hlen := g.Pick(3, 4)
	allStrings([]rune{'x', '\n', '\r'}, hlen, func(content []rune) {
		if len(content) < 2 {
			return
		}
		idx := make([]int, depth)
		for {
			seg := []Ev{{"op": "new", "content": cpsR(content)}}
			for _, i := range idx {
				seg = append(seg, hops[i].ev())
			}
			g.Run("histories", seg)
			j := depth - 1
			for j >= 0 {
				idx[j]++
				if idx[j] < len(hops) {
					break
				}
				idx[j] = 0
				j--
			}
			if j < 0 {
				break
			}
		}
	})

	// long contents (sizes around powers of two), read through and walked back
	rl := g.Rand()
	for _, sz := range g.WithRandomSizes([]int{63, 64, 65, 127, 128, 129, 255, 256, 257, 1023, 1024, 1025}, g.Pick(4, 30), 2, g.Pick(130, 1025)) {
		if sz > g.Pick(130, 1025) {
			continue
		}
		content := make([]rune, sz)
		for j := range content {
			switch rl.Intn(8) {
			case 0:
				content[j] = '\n'
			case 1:
				content[j] = '\r'
			default:
				content[j] = rune('a' + rl.Intn(26))
			}
		}
		seg := []Ev{{"op": "new", "content": cpsR(content)}}
		for j := 0; j < sz+2; j++ {
			seg = append(seg, Ev{"op": "read"})
			if rl.Intn(6) == 0 {
				seg = append(seg, Ev{"op": "unreadmany", "n": rl.Intn(5)}, Ev{"op": "read"})
			}
		}
		for j := 0; j < 40; j++ {
			seg = append(seg, Ev{"op": "unreadmany", "n": rl.Intn(sz/8 + 2)}, Ev{"op": "read"}, Ev{"op": "unread"})
		}
		g.Run("long contents", seg)
	}
	// rare code points next to line breaks: read through, walked back one by one, read again
	for _, c := range rareRunes {
		if c == '\n' || c == '\r' {
			continue
		}
		content := []rune{'a', c, 'b', '\n', c, c, '\r', '\n', c, '\r', c, '\n', '\r', c}
		seg := []Ev{{"op": "new", "content": cpsR(content)}}
		for j := 0; j <= len(content)+1; j++ {
			seg = append(seg, Ev{"op": "read"})
		}
		for j := 0; j <= len(content)+1; j++ {
			seg = append(seg, Ev{"op": "unread"})
		}
		for j := 0; j < len(content); j++ {
			seg = append(seg, Ev{"op": "read"}, Ev{"op": "read"}, Ev{"op": "unread"})
		}
		g.Run("rare code points next to line breaks", seg)
	}
	// a line break (each of the four styles) at every offset around the multiples of 64 of a long content
	var offs []int
	if g.Thorough() {
		for p := 0; p < 300; p++ {
			offs = append(offs, p)
		}
	} else {
		offs = []int{63, 64, 127, 128, 255, 256}
	}
	for _, p := range offs {
		for bi, br := range [][]rune{{'\n', '\r'}, {'\r', '\n'}, {'\n'}, {'\r'}} {
			if !g.Thorough() && bi >= 2 && p%64 != 63 {
				continue
			}
			content := []rune(strings.Repeat("ab", 160))[:p+12]
			copy(content[p:], br)
			copy(content[p+5:], []rune{'\n', 'x', '\r'}) // later line breaks to step back over
			seg := []Ev{{"op": "new", "content": cpsR(content)}}
			for j := 0; j <= len(content); j++ {
				seg = append(seg, Ev{"op": "read"})
			}
			for j := 0; j <= len(content); j++ {
				seg = append(seg, Ev{"op": "unread"})
				if j%50 == 49 {
					seg = append(seg, Ev{"op": "read"}, Ev{"op": "unread"})
				}
			}
			g.Run("a line break at every offset around the multiples of 64", seg)
		}
	}
	// very long lines (beyond 2^16 columns) followed by a line break of each style: read through, stepped back across the break one
	// call at a time, read again - the column of a long line is reported exactly however it is kept
	widths := []int{65536, 70000}
	if g.Thorough() {
		widths = g.WithRandomSizes([]int{65535, 65536, 65537, 70000}, 1, 65000, 140000)
	}
	for _, width := range widths {
		for _, br := range []string{"\n", "\r\n", "\r", "\n\r"} {
			if !g.Thorough() && br != "\n" && !(width == 65536 && br == "\r\n") {
				continue
			}
			content := []rune(strings.Repeat("a", width) + br + "b" + br + "cd")
			n := width + len([]rune(br)) + 1
			seg := []Ev{{"op": "new", "content": cpsR(content)}, {"op": "readmany", "n": n}}
			for j := 0; j < len([]rune(br))+2; j++ {
				seg = append(seg, Ev{"op": "unread"})
			}
			seg = append(seg, Ev{"op": "readmany", "n": len([]rune(br)) + 3}, Ev{"op": "unreadmany", "n": 3}, Ev{"op": "read"}, Ev{"op": "readmany", "n": 8}, Ev{"op": "unread"}, Ev{"op": "unread"})
			g.Run("lines of more than 2^16 columns", seg)
		}
	}
	// multi-unread by large counts, from the end-of-input slot and from the middle
	for _, sz := range []int{63, 64, 65, 99, 130, 257} {
		if sz > g.Pick(100, 300) {
			continue
		}
		for _, n := range []int{62, 63, 64, 65, 70, 98, 99, 100, 104, 127, 128, 129, 130, 131, 256, 257, 258, 1000} {
			if n > sz+8 && n != 1000 {
				continue
			}
			for _, past := range []int{1, 0, 3} {
				content := []rune(strings.Repeat("abc\nde\r\n", 40))[:sz]
				seg := []Ev{{"op": "new", "content": cpsR(content)}}
				for j := 0; j < sz+past; j++ {
					seg = append(seg, Ev{"op": "read"})
				}
				seg = append(seg, Ev{"op": "unreadmany", "n": n}, Ev{"op": "read"}, Ev{"op": "read"}, Ev{"op": "unreadmany", "n": 2}, Ev{"op": "read"})
				g.Run("multi-unread by large counts", seg)
			}
		}
	}
	// the other ASCII control characters between LF and CR, and next to them; multi-unread by extreme counts
	for _, c := range []string{"a\vb\fc", "\v\n\f\r\v", "\x0b", "\x0c\x0c", "a\x09b\x08\x0e\x1c\x1d\x1e\x1f\u0085\u2028z", "\n\v\r\f\n"} {
		for qo := 0; qo < 6; qo++ {
			seg := []Ev{{"op": "new", "content": cps(c), "qo": qo}}
			for j := 0; j <= len([]rune(c)); j++ {
				seg = append(seg, Ev{"op": "read", "qo": qo})
			}
			for j := 0; j <= len([]rune(c)); j++ {
				seg = append(seg, Ev{"op": "unread", "qo": qo})
			}
			g.Run("control characters between LF and CR", seg)
		}
	}
	// (large positive counts are not driven: the scanner steps back one character at a time)
	for _, n := range []int{math.MinInt64, math.MinInt64 + 1, math.MinInt64 + 5, math.MinInt32, -1 << 40, -1, 100000} {
		for k := 0; k <= 4; k++ {
			seg := []Ev{{"op": "new", "content": cps("ab\ncd")}}
			for j := 0; j < k; j++ {
				seg = append(seg, Ev{"op": "read"})
			}
			seg = append(seg, Ev{"op": "unreadmany", "n": n}, Ev{"op": "read"}, Ev{"op": "unreadmany", "n": n}, Ev{"op": "read"}, Ev{"op": "read"})
			g.Run("multi-unread by extreme counts", seg)
		}
	}
	// two scanners alive at the same time, used alternately
	r2 := g.Rand()
	texts := [][]rune{[]rune("ab\ncd\r\nef"), []rune("xyz"), []rune("\n\n\n\n\n\n\n\n\n\n\n\n"), []rune("q"), {}, []rune("longer text\rwith\n\rbreaks and more"), []rune("été\n日本")}
	for i := 0; i < g.Pick(300, 5000); i++ {
		seg := []Ev{{"op": "new", "content": cpsR(texts[r2.Intn(len(texts))])}}
		for j := 0; j < 4+r2.Intn(30); j++ {
			switch x := r2.Intn(12); {
			case x < 5:
				seg = append(seg, Ev{"op": "read"})
			case x < 7:
				seg = append(seg, Ev{"op": "unread"})
			case x < 8:
				seg = append(seg, Ev{"op": "unreadmany", "n": r2.Intn(5)})
			case x < 10:
				seg = append(seg, Ev{"op": "switch"})
			case x < 11:
				seg = append(seg, Ev{"op": "new", "content": cpsR(texts[r2.Intn(len(texts))])})
			default:
				seg = append(seg, Ev{"op": "reset"})
			}
		}
		g.Run("two scanners alive at once", seg)
	}
	for _, a := range texts {
		for _, b := range texts {
			seg := []Ev{{"op": "new", "content": cpsR(a)}, {"op": "read"}, {"op": "read"}, {"op": "switch"}, {"op": "new", "content": cpsR(b)}, {"op": "read"}, {"op": "switch"}}
			for j := 0; j <= len(a); j++ {
				seg = append(seg, Ev{"op": "read"})
			}
			seg = append(seg, Ev{"op": "switch"}, Ev{"op": "read"}, Ev{"op": "unread"}, Ev{"op": "switch"}, Ev{"op": "unreadmany", "n": 3}, Ev{"op": "read"})
			g.Run("two scanners alive at once", seg)
		}
	}
	// every order of the five queries after stepping back over line breaks
	for qo := 0; qo < 6; qo++ {
		for _, c := range []string{"ab\ncd", "a\r\nb", "a\n\rb", "\n\nab", "ab\r", "x\ny\nz"} {
			for back := 1; back <= 5; back++ {
				for _, many := range []bool{true, false} {
					seg := []Ev{{"op": "new", "content": cps(c), "qo": qo}}
					for j := 0; j < len([]rune(c)); j++ {
						seg = append(seg, Ev{"op": "read", "qo": qo})
					}
					if many {
						seg = append(seg, Ev{"op": "unreadmany", "n": back, "qo": qo})
					} else {
						for j := 0; j < back; j++ {
							seg = append(seg, Ev{"op": "unread", "qo": qo})
						}
					}
					seg = append(seg, Ev{"op": "read", "qo": qo}, Ev{"op": "reset", "qo": qo})
					g.Run("every order of the queries after stepping back", seg)
				}
			}
		}
	}
	// texts that are not well-formed UTF-8
	for _, b := range [][]byte{{0xff}, []byte("ab\x80c"), []byte("caf\xe9\ns"), {0xe2, 0x82}, []byte("a\r\n\xc3"), []byte("\xed\xa0\x80x"), []byte("ok\n"), []byte("\xe9t\xe9 é"), {0xf0, 0x9f, 0x98}, {0xc0, 0x80, '\n', 0xfe}} {
		bl := make([]any, len(b))
		for j, x := range b {
			bl[j] = int(x)
		}
		seg := []Ev{{"op": "newbytes", "bytes": bl}}
		for j := 0; j <= len(b)+1; j++ {
			seg = append(seg, Ev{"op": "read"})
		}
		for j := 0; j <= len(b); j++ {
			seg = append(seg, Ev{"op": "unread"})
		}
		g.Run("texts that are not well-formed UTF-8", seg)
	}
	// random walks
	r := g.Rand()
	walks := g.Pick(150, 8000)
	alpha := []rune{'a', 'b', ' ', '\n', '\r', 0xe9, 0x416, 0x1F600}
	for i := 0; i < walks; i++ {
		n := r.Intn(60)
		content := make([]rune, n)
		for j := range content {
			if r.Intn(100) < 35 {
				content[j] = []rune{'\n', '\r'}[r.Intn(2)]
			} else {
				content[j] = alpha[r.Intn(len(alpha))]
			}
		}
		seg := []Ev{{"op": "new", "content": cpsR(content)}}
		steps := 50 + r.Intn(150)
		for j := 0; j < steps; j++ {
			x := r.Intn(100)
			switch {
			case x < 55:
				seg = append(seg, Ev{"op": "read"})
			case x < 80:
				seg = append(seg, Ev{"op": "unread"})
			case x < 95:
				seg = append(seg, Ev{"op": "unreadmany", "n": r.Intn(6) - 1})
			default:
				seg = append(seg, Ev{"op": "reset"})
			}
		}
		g.Run("randomwalk", seg)
	}
}
