package main

import (
	"regexp"
	"fmt"
	"math"
	"strconv"
	"strings"
	"time"

	"github.com/pip-services3-gox/pip-services3-expressions-gox/variants"
)

// C07: variant conversions deliver the requested type and round-trip losslessly.
var vtypeByName = map[string]variants.VariantType{}
var vtypeOrder = []string{"Null", "Integer", "Long", "Float", "Double", "String", "Boolean", "DateTime", "TimeSpan", "Object", "Array"}

func init() {
	for t, n := range vtypeNames {
		vtypeByName[n] = t
	}
	props["C07"] = &Prop{
		Generate: genC07,
		Exec:     execC07,
		Rule: "one event per (manager, value, target type) and per two-step chain; non-trivial = distinct event whose value lies at a " +
			"boundary (outside the exactly modelled domain, zero, negative) or whose target differs from the source type",
		NonTrivial: func(seg []Ev) string {
			e := seg[0]
			if len(seg) > 1 {
				return fmt.Sprint(seg)
			}
			v := e["v"].(Ev)
			return fmt.Sprint(e["op"], e["mgr"], v["t"], v["s"], e["to"], e["via"])
		},
	}
}

func c07pool(r func(int) int, extra int) []*variants.Variant {
	pool := valuePool(true)
	defer func() { c07base = c07twins - 29 - 18 - 6 }()
	pool = append(pool,
		variants.VariantFromInteger(1<<53), variants.VariantFromInteger(1<<53+1), variants.VariantFromLong(1<<53+1), variants.VariantFromLong(-(1 << 53)),
		variants.VariantFromLong(1<<60+1<<36+1), variants.VariantFromLong(-(1<<60 + 1<<36 + 1)), variants.VariantFromLong(1<<60+3<<36-1), variants.VariantFromInteger(1<<60+1<<36+1),
		variants.VariantFromLong(1<<24+1), variants.VariantFromLong(1<<25+3), variants.VariantFromInteger(1<<53+1<<29+1),
		variants.VariantFromInteger(1<<24+1), variants.VariantFromLong(1<<24), variants.VariantFromInteger(1000), variants.VariantFromLong(86400),
		variants.VariantFromDouble(1<<53), variants.VariantFromDouble(1e15), variants.VariantFromDouble(-7), variants.VariantFromDouble(2.75), variants.VariantFromFloat(16777216),
		variants.VariantFromString("12"), variants.VariantFromString("-7"), variants.VariantFromString("false"), variants.VariantFromString("007"), variants.VariantFromString("x1"),
		variants.VariantFromTimeSpan(90*time.Minute), variants.VariantFromTimeSpan(-3*time.Millisecond), variants.VariantFromTimeSpan(1500*time.Microsecond),
		variants.VariantFromDateTime(time.Unix(1000, 0)), variants.VariantFromDateTime(time.Unix(1000, 500)), variants.VariantFromDateTime(time.Unix(-86400, 0)),
	)
	// values whose 64-bit payloads coincide across types (a Long holding the bits of a Double), strings that differ only slightly
	for _, d := range []float64{1.0, 2.5, -0.5, 0.1, 7, 1e300} {
		bits := int64(math.Float64bits(d))
		pool = append(pool, variants.VariantFromDouble(d), variants.VariantFromLong(bits), variants.VariantFromInteger(int(bits)))
	}
	pool = append(pool, variants.VariantFromDouble(math.Copysign(0, -1)), variants.VariantFromFloat(1), variants.VariantFromLong(int64(math.Float32bits(1))),
		variants.VariantFromString("70"), variants.VariantFromString("5"), variants.VariantFromString("true"), variants.VariantFromString("1.5"), variants.VariantFromString("1"))
	// instants inside the hour that a daylight-saving zone repeats / skips, carried in that zone and in UTC
	for _, u := range []int64{1636263000, 1636266600, 1635640200, 1635643800, 1616893200, 1615705200} {
		pool = append(pool, variants.VariantFromDateTime(time.Unix(u, 0).In(zone("America/New_York"))), variants.VariantFromDateTime(time.Unix(u, 0).In(zone("Europe/Berlin"))),
			variants.VariantFromLong(u))
	}
	// values whose host kind is not the variant's native one; instants before 1970 with a fraction
	pool = append(pool, variants.NewVariant(int32(7)), variants.NewVariant(uint(9)), variants.NewVariant(uint32(11)), variants.VariantFromObject(int32(-3)),
		variants.VariantFromDateTime(time.Unix(-1, 500000000).UTC()), variants.VariantFromDateTime(time.Unix(-86400, 1000000).UTC()))
	c07twins = len(pool)
	for i := 0; i < extra; i++ {
		switch r(6) {
		case 0:
			pool = append(pool, variants.VariantFromInteger(r(2_000_001)-1_000_000))
		case 1:
			pool = append(pool, variants.VariantFromLong(int64(r(math.MaxInt32))*int64(r(math.MaxInt32))-int64(r(math.MaxInt32))))
		case 2:
			pool = append(pool, variants.VariantFromDouble(float64(r(2_000_001)-1_000_000)/8))
		case 3:
			pool = append(pool, variants.VariantFromFloat(float32(r(200_001)-100_000)/4))
		case 4:
			pool = append(pool, variants.VariantFromTimeSpan(time.Duration(r(2_000_001)-1_000_000)*time.Millisecond))
		default:
			pool = append(pool, variants.VariantFromDateTime(time.Unix(int64(r(2_000_001)-1_000_000), 0)))
		}
	}
	return pool
}

var c07twins = 0 // pool[c07base:c07twins] are the payload twins
var c07base = 0
var c07extra = 0
var c07seed int64 = 1

func c07values() []*variants.Variant {
	rr := newRand(c07seed)
	return c07pool(func(n int) int { return rr.Intn(n) }, c07extra)
}

func convCall(mgr string, v *variants.Variant, to string) (string, *variants.Variant, string) {
	m := c06mgr(mgr)
	return opOutcome(func() (*variants.Variant, error) { return m.Convert(v, typeCode(to)) })
}

// typeCode: the variant type of a name, or the number after '#' (a code that names no type)
func typeCode(to string) variants.VariantType {
	if strings.HasPrefix(to, "#") {
		n, _ := strconv.Atoi(to[1:])
		return variants.VariantType(n)
	}
	return vtypeByName[to]
}

func zone(name string) *time.Location {
	l, err := time.LoadLocation(name)
	if err != nil {
		panic(err)
	}
	return l
}

func numInfo(v *variants.Variant) (le53, integral bool) {
	var f float64
	switch v.Type() {
	case variants.Integer:
		x := v.AsInteger()
		return x >= -(1<<53) && x <= (1<<53), true
	case variants.Long:
		x := v.AsLong()
		return x >= -(1<<53) && x <= (1<<53), true
	case variants.Float:
		f = float64(v.AsFloat())
	case variants.Double:
		f = v.AsDouble()
	default:
		return false, false
	}
	if math.IsNaN(f) || math.IsInf(f, 0) {
		return false, false
	}
	return math.Abs(f) <= (1 << 53), f == math.Trunc(f)
}

func execC07(seg []Ev) []Ev {
	out := make([]Ev, 0, len(seg))
	defer func() { time.Local = c08hostZone }()
	// state of a history segment: one long-lived manager, one reusable source variant, every result handed out so far
	var hm variants.IVariantOperations
	var hsrc *variants.Variant
	var held []*variants.Variant
	short := func(v *variants.Variant) []any { j := valJSON(v); return []any{j["t"], j["s"]} }
	for _, in := range seg {
		c07extra = toInt(in["extra"])
		c07seed = int64(toInt(in["pseed"]))
		time.Local = c08hostZone
		if hz, ok := in["hostzone"]; ok { // the host's local zone has daylight saving
			time.Local = zone(toStr(hz))
		}
		pool := c07values()
		vi := toInt(in["vi"])
		v := pool[vi%len(pool)]
		op := toStr(in["op"])
		e := Ev{"op": op, "vi": vi, "extra": c07extra, "pseed": int(c07seed), "v": valJSON(v), "vfits": fitsInt64(v)}
		if hz, ok := in["hostzone"]; ok {
			e["hostzone"] = hz
		}
		switch op {
		case "hstart":
			hm, hsrc, held = c06mgr(toStr(in["mgr"])), variants.EmptyVariant(), nil
			e["mgr"] = toStr(in["mgr"])
		case "hconv":
			to, inplace := toStr(in["to"]), toBool(in["inplace"])
			src := v
			if inplace {
				guarded(func() { hsrc.Assign(v) })
				src = hsrc
			}
			oc, r, _ := opOutcome(func() (*variants.Variant, error) { return hm.Convert(src, vtypeByName[to]) })
			fo, fr, _ := convCall(toStr(in["mgr"]), pool[vi%len(pool)].Clone(), to)
			e["mgr"], e["to"], e["inplace"], e["outcome"], e["r"], e["fo"], e["fr"] = toStr(in["mgr"]), to, inplace, oc, valJSON(r), fo, valJSON(fr)
			e["keep"] = oc == "value" && r != src
			if oc == "value" && r != src {
				held = append(held, r)
			}
		case "hend":
			now := make([]any, 0, len(held))
			for _, h := range held {
				now = append(now, short(h))
			}
			e["now"] = now
		case "conv":
			mgr, to := toStr(in["mgr"]), toStr(in["to"])
			oc, r, det := convCall(mgr, v, to)
			e["mgr"], e["to"], e["outcome"], e["r"] = mgr, to, oc, valJSON(r)
			if det != "" {
				e["detail"] = det
			}
		case "both":
			to := toStr(in["to"])
			so, sr, _ := convCall("safe", v, to)
			uo, ur, _ := convCall("unsafe", v, to)
			e["to"], e["so"], e["sr"], e["uo"], e["ur"] = to, so, valJSON(sr), uo, valJSON(ur)
		case "alias":
			mgr, to := toStr(in["mgr"]), toStr(in["to"])
			o1, r1, _ := convCall(mgr, v, to)
			e["mgr"], e["to"], e["o1"], e["r1"], e["scribbled"] = mgr, to, o1, valJSON(r1), false
			if o1 == "value" && r1 != v {
				r1.SetAsInteger(424242)
				e["scribbled"] = true
			}
			o2, r2, _ := convCall(mgr, v, to)
			e["o2"], e["r2"] = o2, valJSON(r2)
		case "chain":
			via := toStr(in["via"])
			o1, r1, _ := convCall("unsafe", v, via)
			o2, r2 := "none", (*variants.Variant)(nil)
			if o1 == "value" {
				o2, r2, _ = convCall("unsafe", r1, vtypeNames[v.Type()])
			}
			le53, integral := numInfo(v)
			e["via"], e["o1"], e["r1"], e["o2"], e["r2"], e["le53"], e["integral"] = via, o1, valJSON(r1), o2, valJSON(r2), le53, integral
		}
		out = append(out, e)
	}
	return out
}

func genC07(g *Gen) {
	extra := g.Pick(60, 3000)
	c07extra, c07seed = extra, g.Seed
	n := len(c07values())
	base := Ev{"extra": extra, "pseed": int(g.Seed)}
	mk := func(kv ...any) Ev {
		e := cloneEv(base)
		for i := 0; i < len(kv); i += 2 {
			e[kv[i].(string)] = kv[i+1]
		}
		return e
	}
	// histories on one manager: every conversion equals the one a fresh manager makes; results handed out stay as they were
	rr := g.Rand()
	for _, mgr := range []string{"unsafe", "safe"} {
		for a := c07base; a < c07twins; a++ {
			for b := c07base; b < c07twins; b++ {
				for _, to := range vtypeOrder {
					if to != "String" && (a*31+b*7)%5 != 0 && !g.Thorough() {
						continue
					}
					inplace := (a+b)%2 == 0
					g.Run("pairs of conversions on one manager (payload twins, reused source variant)", []Ev{mk("op", "hstart", "mgr", mgr, "vi", 0),
						mk("op", "hconv", "mgr", mgr, "vi", a, "to", to, "inplace", inplace), mk("op", "hconv", "mgr", mgr, "vi", b, "to", to, "inplace", inplace), mk("op", "hend", "vi", 0)})
				}
			}
		}
		for rep := 0; rep < g.Pick(4, 40); rep++ {
			seg := []Ev{mk("op", "hstart", "mgr", mgr, "vi", 0)}
			steps := []int{70, 130, 300, 1100}[rep%4]
			for i := 0; i < steps; i++ {
				to := vtypeOrder[rr.Intn(len(vtypeOrder))]
				if mgr == "safe" && rr.Intn(3) != 0 {
					to = []string{"Long", "Float", "Double"}[rr.Intn(3)]
				}
				seg = append(seg, mk("op", "hconv", "mgr", mgr, "vi", rr.Intn(n), "to", to, "inplace", rr.Intn(3) == 0))
			}
			seg = append(seg, mk("op", "hend", "vi", 0))
			g.Run("long conversion histories on one manager", seg)
		}
	}
	// type codes that name no type
	for vi := 0; vi < n; vi += 7 {
		for _, code := range []string{"#-1", "#11", "#12", "#99", "#-2147483648", "#2147483647"} {
			for _, mgr := range []string{"unsafe", "safe"} {
				g.Run("type codes that name no type", []Ev{mk("op", "conv", "mgr", mgr, "vi", vi, "to", code)})
			}
		}
	}
	// a host whose local zone has daylight saving: date-times built from Unix seconds around the repeated / skipped hours
	for _, hz := range []string{"America/New_York", "Europe/Berlin", "Australia/Lord_Howe"} {
		for vi := c07base; vi < c07twins; vi++ {
			for _, via := range []string{"DateTime", "Long", "Integer", "String", "TimeSpan"} {
				g.Run("host zone with daylight saving", []Ev{mk("op", "chain", "vi", vi, "via", via, "hostzone", hz)})
				g.Run("host zone with daylight saving", []Ev{mk("op", "conv", "mgr", "unsafe", "vi", vi, "to", via, "hostzone", hz)})
			}
		}
	}
	for vi := 0; vi < n; vi++ {
		for _, to := range vtypeOrder {
			for _, mgr := range []string{"unsafe", "safe"} {
				g.Run("all values x 11 targets x 2 managers", []Ev{mk("op", "conv", "mgr", mgr, "vi", vi, "to", to)})
			}
			g.Run("safe vs unsafe agreement", []Ev{mk("op", "both", "vi", vi, "to", to)})
			g.Run("two-step chains", []Ev{mk("op", "chain", "vi", vi, "via", to)})
			if vi%4 == 0 {
				for _, mgr := range []string{"unsafe", "safe"} {
					g.Run("results are not aliased between calls", []Ev{mk("op", "alias", "mgr", mgr, "vi", vi, "to", to)})
				}
			}
		}
	}
}

// fitsInt64: does the value denote a number that has an integer part a 64-bit integer can hold (a floating-point NaN, an infinity
// or a magnitude of 2^63 and more has none: the host language defines no result for converting it to an integer type)
func fitsInt64(v *variants.Variant) bool {
	var f float64
	switch v.Type() {
	case variants.Float:
		f = float64(v.AsFloat())
	case variants.Double:
		f = v.AsDouble()
	case variants.String:
		// a text that does not spell a number denotes none (what converting it to a number gives - zero, an error - is not stated)
		return anyNumeral.MatchString(strings.TrimSpace(v.AsString()))
	default:
		return true
	}
	return !math.IsNaN(f) && !math.IsInf(f, 0) && math.Abs(f) < 9223372036854775808.0
}

var anyNumeral = regexp.MustCompile(`^[+-]?([0-9]+(\.[0-9]*)?|\.[0-9]+)([eE][+-]?[0-9]+)?$`)
