package main

import (
	"fmt"
	"math"
	"time"

	"github.com/pip-services3-gox/pip-services3-expressions-gox/variants"
)

// C07: variant conversions deliver the requested type and round-trip losslessly.
var vtypeByName = map[string]variants.VariantType{}
var vtypeOrder = []string{"Null", "Integer", "Long", "Float", "Double", "String", "Boolean", "DateTime", "TimeSpan", "Object", "Array"}

func init() {
	for t, n := range vtypeNames {
		vtypeByName[n] = t
	}
	props["C07"] = &Prop{
		Generate: genC07,
		Exec:     execC07,
		Rule: "one event per (manager, value, target type) and per two-step chain; non-trivial = distinct event whose value lies at a " +
			"boundary (outside the exactly modelled domain, zero, negative) or whose target differs from the source type",
		NonTrivial: func(seg []Ev) string {
			e := seg[0]
			v := e["v"].(Ev)
			return fmt.Sprint(e["op"], e["mgr"], v["t"], v["s"], e["to"], e["via"])
		},
	}
}

func c07pool(r func(int) int, extra int) []*variants.Variant {
	pool := valuePool(true)
	pool = append(pool,
		variants.VariantFromInteger(1<<53), variants.VariantFromInteger(1<<53+1), variants.VariantFromLong(1<<53+1), variants.VariantFromLong(-(1 << 53)),
		variants.VariantFromLong(1<<60+1<<36+1), variants.VariantFromLong(-(1<<60 + 1<<36 + 1)), variants.VariantFromLong(1<<60+3<<36-1), variants.VariantFromInteger(1<<60+1<<36+1),
		variants.VariantFromLong(1<<24+1), variants.VariantFromLong(1<<25+3), variants.VariantFromInteger(1<<53+1<<29+1),
		variants.VariantFromInteger(1<<24+1), variants.VariantFromLong(1<<24), variants.VariantFromInteger(1000), variants.VariantFromLong(86400),
		variants.VariantFromDouble(1<<53), variants.VariantFromDouble(1e15), variants.VariantFromDouble(-7), variants.VariantFromDouble(2.75), variants.VariantFromFloat(16777216),
		variants.VariantFromString("12"), variants.VariantFromString("-7"), variants.VariantFromString("false"), variants.VariantFromString("007"), variants.VariantFromString("x1"),
		variants.VariantFromTimeSpan(90*time.Minute), variants.VariantFromTimeSpan(-3*time.Millisecond), variants.VariantFromTimeSpan(1500*time.Microsecond),
		variants.VariantFromDateTime(time.Unix(1000, 0)), variants.VariantFromDateTime(time.Unix(1000, 500)), variants.VariantFromDateTime(time.Unix(-86400, 0)),
	)
	for i := 0; i < extra; i++ {
		switch r(6) {
		case 0:
			pool = append(pool, variants.VariantFromInteger(r(2_000_001)-1_000_000))
		case 1:
			pool = append(pool, variants.VariantFromLong(int64(r(math.MaxInt32))*int64(r(math.MaxInt32))-int64(r(math.MaxInt32))))
		case 2:
			pool = append(pool, variants.VariantFromDouble(float64(r(2_000_001)-1_000_000)/8))
		case 3:
			pool = append(pool, variants.VariantFromFloat(float32(r(200_001)-100_000)/4))
		case 4:
			pool = append(pool, variants.VariantFromTimeSpan(time.Duration(r(2_000_001)-1_000_000)*time.Millisecond))
		default:
			pool = append(pool, variants.VariantFromDateTime(time.Unix(int64(r(2_000_001)-1_000_000), 0)))
		}
	}
	return pool
}

var c07extra = 0
var c07seed int64 = 1

func c07values() []*variants.Variant {
	rr := newRand(c07seed)
	return c07pool(func(n int) int { return rr.Intn(n) }, c07extra)
}

func convCall(mgr string, v *variants.Variant, to string) (string, *variants.Variant, string) {
	m := c06mgr(mgr)
	return opOutcome(func() (*variants.Variant, error) { return m.Convert(v, vtypeByName[to]) })
}

func numInfo(v *variants.Variant) (le53, integral bool) {
	var f float64
	switch v.Type() {
	case variants.Integer:
		x := v.AsInteger()
		return x >= -(1<<53) && x <= (1<<53), true
	case variants.Long:
		x := v.AsLong()
		return x >= -(1<<53) && x <= (1<<53), true
	case variants.Float:
		f = float64(v.AsFloat())
	case variants.Double:
		f = v.AsDouble()
	default:
		return false, false
	}
	if math.IsNaN(f) || math.IsInf(f, 0) {
		return false, false
	}
	return math.Abs(f) <= (1 << 53), f == math.Trunc(f)
}

func execC07(seg []Ev) []Ev {
	out := make([]Ev, 0, len(seg))
	for _, in := range seg {
		c07extra = toInt(in["extra"])
		c07seed = int64(toInt(in["pseed"]))
		pool := c07values()
		vi := toInt(in["vi"])
		v := pool[vi%len(pool)]
		op := toStr(in["op"])
		e := Ev{"op": op, "vi": vi, "extra": c07extra, "pseed": int(c07seed), "v": valJSON(v)}
		switch op {
		case "conv":
			mgr, to := toStr(in["mgr"]), toStr(in["to"])
			oc, r, det := convCall(mgr, v, to)
			e["mgr"], e["to"], e["outcome"], e["r"] = mgr, to, oc, valJSON(r)
			if det != "" {
				e["detail"] = det
			}
		case "both":
			to := toStr(in["to"])
			so, sr, _ := convCall("safe", v, to)
			uo, ur, _ := convCall("unsafe", v, to)
			e["to"], e["so"], e["sr"], e["uo"], e["ur"] = to, so, valJSON(sr), uo, valJSON(ur)
		case "alias":
			mgr, to := toStr(in["mgr"]), toStr(in["to"])
			o1, r1, _ := convCall(mgr, v, to)
			e["mgr"], e["to"], e["o1"], e["r1"], e["scribbled"] = mgr, to, o1, valJSON(r1), false
			if o1 == "value" && r1 != v {
				r1.SetAsInteger(424242)
				e["scribbled"] = true
			}
			o2, r2, _ := convCall(mgr, v, to)
			e["o2"], e["r2"] = o2, valJSON(r2)
		case "chain":
			via := toStr(in["via"])
			o1, r1, _ := convCall("unsafe", v, via)
			o2, r2 := "none", (*variants.Variant)(nil)
			if o1 == "value" {
				o2, r2, _ = convCall("unsafe", r1, vtypeNames[v.Type()])
			}
			le53, integral := numInfo(v)
			e["via"], e["o1"], e["r1"], e["o2"], e["r2"], e["le53"], e["integral"] = via, o1, valJSON(r1), o2, valJSON(r2), le53, integral
		}
		out = append(out, e)
	}
	return out
}

func genC07(g *Gen) {
	extra := g.Pick(60, 3000)
	c07extra, c07seed = extra, g.Seed
	n := len(c07values())
	base := Ev{"extra": extra, "pseed": int(g.Seed)}
	mk := func(kv ...any) Ev {
		e := cloneEv(base)
		for i := 0; i < len(kv); i += 2 {
			e[kv[i].(string)] = kv[i+1]
		}
		return e
	}
	for vi := 0; vi < n; vi++ {
		for _, to := range vtypeOrder {
			for _, mgr := range []string{"unsafe", "safe"} {
				g.Run("all values x 11 targets x 2 managers", []Ev{mk("op", "conv", "mgr", mgr, "vi", vi, "to", to)})
			}
			g.Run("safe vs unsafe agreement", []Ev{mk("op", "both", "vi", vi, "to", to)})
			g.Run("two-step chains", []Ev{mk("op", "chain", "vi", vi, "via", to)})
			if vi%4 == 0 {
				for _, mgr := range []string{"unsafe", "safe"} {
					g.Run("results are not aliased between calls", []Ev{mk("op", "alias", "mgr", mgr, "vi", vi, "to", to)})
				}
			}
		}
	}
}
