package main

import (
	"github.com/pip-services3-gox/pip-services3-expressions-gox/csv"
	"fmt"

	sio "github.com/pip-services3-gox/pip-services3-expressions-gox/io"
	"github.com/pip-services3-gox/pip-services3-expressions-gox/tokenizers"
)

// C05: reused instances give history-independent results (tokenizer part; the parser / calculator /
// template part is appended by c05b.go through c05extra).
var c05extra []func(g *Gen)
var c05exec = map[string]func(in Ev) Ev{}

func init() {
	props["C05"] = &Prop{
		Generate: genC05,
		Exec:     execC05,
		Rule: "segment = one instance fed a sequence of inputs (interleaved has-next / next calls, abandoned iterations); " +
			"non-trivial = distinct segment with >= 2 inputs of which an earlier one shares a first symbol character or token class with a later one",
		NonTrivial: func(seg []Ev) string {
			n := 0
			key := ""
			for _, e := range seg {
				op := toStr(e["op"])
				key += op + fmt.Sprint(e["input"], e["what"], e["kind"], e["opts"]) + "|"
				if op == "setreader" || op == "buffer" || op == "reuse" {
					n++
				}
			}
			if n >= 2 {
				return key
			}
			return ""
		},
	}
}

func tok1(t *tokenizers.Token) []any {
	if t == nil {
		return []any{}
	}
	return []any{t.Type(), cps(t.Value()), t.Line(), t.Column()}
}

func execC05(seg []Ev) []Ev {
	var t tokenizers.ITokenizer
	kind, bits := "", 0
	var csvSeps, csvQuotes []rune // the CSV dialect set last on the long-lived tokenizer
	var added [][2]any            // symbols registered on the long-lived tokenizer so far: a new one gets the same
	fresh := func(input string) [][]any {
		f := newTokenizer(kind)
		if bits >= 0 {
			setOpts(f, bits)
		}
		for _, a := range added {
			f.SymbolState().Add(a[0].(string), a[1].(int))
		}
		if ct, ok := f.(*csv.CsvTokenizer); ok && csvSeps != nil {
			// the dialect set last (a new tokenizer is given only that one)
			ct.SetFieldSeparators([]rune{0x1})
			ct.SetQuoteSymbols(csvQuotes)
			ct.SetFieldSeparators(csvSeps)
		}
		return tokJSON(f.TokenizeBuffer(input))
	}
	out := make([]Ev, 0, len(seg))
	kp := &keeper{}
	var sc *sio.StringScanner
	curInput := ""
	for _, in := range seg {
		op := toStr(in["op"])
		e := Ev{"op": op}
		if op != "reuse" && op != "new" {
			defer func() {}()
		}
		switch op {
		case "new":
			kind = toStr(in["kind"])
			e["kind"] = kind
			t = newTokenizer(kind)
			if _, dflt := in["defaults"]; dflt {
				bits = -1 // the tokenizer's own default options
				e["defaults"] = true
				e["opts"] = []string{}
			} else {
				bits = optBits(in["opts"])
				e["opts"] = optList(bits)
				setOpts(t, bits)
			}
		case "csvconf": // another CSV dialect on a tokenizer that has been used
			csvSeps, csvQuotes = toRunes(in["seps"]), toRunes(in["quotes"])
			e["seps"], e["quotes"] = cpsR(csvSeps), cpsR(csvQuotes)
			if ct, ok := t.(*csv.CsvTokenizer); ok {
				ct.SetFieldSeparators([]rune{0x1})
				ct.SetQuoteSymbols(csvQuotes)
				ct.SetFieldSeparators(csvSeps)
			}
		case "addsym": // a symbol is registered on a tokenizer that has already been used
			sym, typ := string(toRunes(in["sym"])), toInt(in["type"])
			e["sym"], e["type"] = cps(sym), typ
			added = append(added, [2]any{sym, typ})
			t.SymbolState().Add(sym, typ)
		case "setopts": // the options of the long-lived tokenizer are changed between two inputs
			bits = optBits(in["opts"])
			e["opts"] = optList(bits)
			setOpts(t, bits)
			if toBool(orFalse(in["atstart"])) {
				// directly after the reader was attached (nothing read yet): the stream is the one a new tokenizer with these options yields
				e["atstart"] = true
				e["fresh"] = fresh(curInput)
			}
		case "sameopts": // every option setter called again with the value the option already has, in the middle of a stream
			if toInt(orZero(in["rev"])) == 1 {
				setOptsRev(t, bits)
			} else {
				setOpts(t, bits)
			}
			e["opts"] = optList(bits)
		case "rewind": // the same scanner object, reset and attached again
			e["input"] = cps(curInput)
			e["fresh"] = fresh(curInput)
			e["op"] = "setreader"
			sc.Reset()
			t.SetReader(sc)
		case "stream": // the same scanner object, reset and tokenized as a whole
			e["op"] = "buffer"
			e["input"] = cps(curInput)
			e["fresh"] = fresh(curInput)
			sc.Reset()
			ts := t.TokenizeStream(sc)
			e["toks"] = tokJSON(ts)
			kp.keep("token list of an earlier whole-stream call", func() string { return tokRender(ts) })
		case "setreader":
			input := string(toRunes(in["input"]))
			e["input"] = cps(input)
			e["fresh"] = fresh(input)
			curInput = input
			sc = sio.NewStringScanner(input)
			t.SetReader(sc)
		case "hasnext":
			e["ret"] = t.HasNextToken()
		case "next":
			e["tok"] = tok1(t.NextToken())
		case "buffer":
			input := string(toRunes(in["input"]))
			e["input"] = cps(input)
			e["fresh"] = fresh(input)
			ts := t.TokenizeBuffer(input)
			e["toks"] = tokJSON(ts)
			kp.keep("token list of an earlier whole-buffer call", func() string { return tokRender(ts) })
		case "reuse":
			f := c05exec[toStr(in["what"])]
			if f == nil {
				panic("C05: unknown reuse kind")
			}
			out = append(out, f(in))
			continue
		}
		kp.check(e)
		out = append(out, e)
	}
	return out
}

var c05pool = map[string][]string{
	"generic":            {"<=", "<>", ">=", "<", "a<=b<>c>=d", "abc", "12.5", "-", "'q'", "'open", "# c", " ", "", "a.b-c", "Ж", "😀"},
	"expression":         {"<=", "<>", "<<", ">=", ">>", "!=", "<", ">", "!", "a<=b<>c<<d>=e>>f!=g", "abc", "1.5e3", "'q''r'", "\"w\"", "'open", "/* c */", "/* open", "/", " ", "", "NOT x", "7e+x", "3E-", "1e", "2e3", "2e2 + 1", "1.e", "5e-2"},
	"csv":                {"\r\n", "\n\r", "\r", "\n", "a,b\r\nc\n\rd", "\"q\"\"r\"", "\"open", ",", "", "a"},
	"generic-custom":     {"=:=", "=:", "=", "<!--", "<!-", "<!", "!>>>", "!>>", "a=:=b<!--c", "=:=:<!-!>>", "", "x"},
	"generic-arrows":     {"страна", "a → b", "→", "x→y", "日本　語", "ab", "", "→→ж", "'→'", "ж"},
	"generic-quotes":     {"a «b c«", "«open", "“d“ x", "", "'e'", "««"},
	"generic-unknownsym": {"a ? b", "?!", "?", "!?", "", "x"},
	"generic-quotedsym":  {"a `` b", "|x|", "!!", "``|x|", "", "'q' ``"},
	"generic-interned":   {"a\nb", "\n", " \n ", "x", "", "\n\n"},
	"generic-2quotes":    {"a `b``c`", "`open", "'d'", "", "``", "x"},
	"expression-custom":  {"a->b", "->", "-", "=>", "=", "--", "-=", "a - 1", "", "-1"},
	"csv-wide":           {"日本；語", "страна", "a；b", "«q；»；x", "；", "", "a,b", "ж；ж\r\nж"},
	"mustache":           {"{{", "{{{", "}}", "}}}", "{{a}}", "{{{a}}}", "x{{a}}y{{{b}}}z", "text", "{{ 'q' }}", "{{#a}}b{{/a}}", "{", "}", "", "{{ open"},
}

func genC05(g *Gen) {
	r := g.Rand()
	for _, kind := range tokKinds {
		pool := c05pool[kind]
		optSets := [][]any{nil, toAnyList(optList(127)), toAnyList(optList(1 | 2 | 4 | 8))}
		// (1) all ordered pairs (thorough: triples) from the pool: drain x1 completely or abandon it at every position, then x2
		for _, x1 := range pool {
			n1 := len(newTokenizer(kind).TokenizeBuffer(x1))
			for _, x2 := range pool {
				for ab := 0; ab <= n1+1; ab++ {
					seg := []Ev{{"op": "new", "kind": kind, "opts": []any{}}, {"op": "setreader", "input": cps(x1)}}
					for k := 0; k < ab; k++ {
						if (k+ab)%2 == 0 {
							seg = append(seg, Ev{"op": "hasnext"})
						}
						seg = append(seg, Ev{"op": "next"})
					}
					seg = append(seg, Ev{"op": "setreader", "input": cps(x2)})
					for k := 0; k < len(x2)+3; k++ {
						if k%3 == 1 {
							seg = append(seg, Ev{"op": "hasnext"}, Ev{"op": "hasnext"})
						}
						seg = append(seg, Ev{"op": "next"})
					}
					g.Run("ordered pairs x abandon points:"+kind, seg)
				}
				if g.Thorough() {
					for _, x3 := range pool {
						g.Run("ordered triples (whole-buffer calls):"+kind, []Ev{{"op": "new", "kind": kind, "opts": []any{}},
							{"op": "buffer", "input": cps(x1)}, {"op": "buffer", "input": cps(x2)}, {"op": "buffer", "input": cps(x3)}})
					}
				}
			}
		}
		// (2) all interleavings of has-next / next / set-reader up to a depth over two inputs
		depth := g.Pick(5, 7)
		pairs := [][2]string{{pool[0], pool[1]}, {pool[4], pool[len(pool)-1]}}
		for _, pr := range pairs {
			ops := []Ev{{"op": "hasnext"}, {"op": "next"}, {"op": "setreader", "input": cps(pr[0])}, {"op": "setreader", "input": cps(pr[1])}}
			idx := make([]int, depth)
			for {
				seg := []Ev{{"op": "new", "kind": kind, "opts": []any{}}, {"op": "setreader", "input": cps(pr[0])}}
				for _, i := range idx {
					seg = append(seg, cloneEv(ops[i]))
				}
				g.Run(fmt.Sprintf("all interleavings depth %d:%s", depth, kind), seg)
				j := depth - 1
				for j >= 0 {
					idx[j]++
					if idx[j] < len(ops) {
						break
					}
					idx[j] = 0
					j--
				}
				if j < 0 {
					break
				}
			}
		}
		// (2b) options changed between two inputs of one tokenizer, and changed back
		optL := []int{0, 127, 1 | 2 | 4 | 8, 16 | 32 | 64, 2, 64, 8}
		for _, a := range optL {
			for _, b := range optL {
				if a == b {
					continue
				}
				for _, x := range []string{pool[4%len(pool)], pool[len(pool)/2], tokSnippets[kind][0]} {
					g.Run("options changed between inputs:"+kind, []Ev{{"op": "new", "kind": kind, "opts": toAnyList(optList(a))}, {"op": "buffer", "input": cps(x)},
						{"op": "setopts", "opts": toAnyList(optList(b))}, {"op": "buffer", "input": cps(x)}, {"op": "setreader", "input": cps(x)}, {"op": "next"}, {"op": "next"},
						{"op": "setopts", "opts": toAnyList(optList(a))}, {"op": "buffer", "input": cps(x)}, {"op": "setreader", "input": cps(x)}, {"op": "next"}, {"op": "hasnext"}, {"op": "next"}})
				}
			}
		}
		// (2b') symbols registered after the tokenizer has been used on a text that contains their first character
		if kind != "mustache" {
			for _, sy := range [][2]string{{"=>", "a = b => c =>"}, {"<-", "x < y <- z"}, {"::", "a : b :: c"}, {"!!", "! a !! !"}, {"..", "a . b .. c"}, {"+=", "1 + 2 += 3"}} {
				seg := []Ev{{"op": "new", "kind": kind, "opts": []any{}}, {"op": "buffer", "input": cps(sy[1])}, {"op": "buffer", "input": cps(sy[0][:1])},
					{"op": "addsym", "sym": cps(sy[0]), "type": 7}, {"op": "buffer", "input": cps(sy[1])}, {"op": "buffer", "input": cps(sy[0])},
					{"op": "addsym", "sym": cps(sy[0] + sy[0][:1]), "type": 10}, {"op": "buffer", "input": cps(sy[1] + sy[0] + sy[0][:1])}, {"op": "setreader", "input": cps(sy[1])}, {"op": "next"}, {"op": "next"}, {"op": "next"}, {"op": "next"}}
				g.Run("symbols registered after use:"+kind, seg)
			}
		}
		// (2b'') CSV dialects that follow one another on one tokenizer (also characters beyond the configured range as separators / quotes)
		if kind == "csv" {
			dialects := [][2][]rune{{{';'}, {'\''}}, {{0x1F600}, {'"'}}, {{','}, {0x1F601}}, {{0xFFFF}, {'"'}}, {{0x10000, '|'}, {0x10FFFF}}, {{','}, {'"'}}, {{0x2502}, {0xAB}}}
			text := "a😀b;c,\U0001f601q\U0001f601|d\uffffe\U00010000f\U0010ffffg\U0010ffff│«h«\r\n'i;j',\"k\""
			for i, d1 := range dialects {
				for j, d2 := range dialects {
					if i == j {
						continue
					}
					g.Run("CSV dialects that follow one another", []Ev{{"op": "new", "kind": kind, "opts": []any{}}, {"op": "csvconf", "seps": cpsR(d1[0]), "quotes": cpsR(d1[1])}, {"op": "buffer", "input": cps(text)},
						{"op": "csvconf", "seps": cpsR(d2[0]), "quotes": cpsR(d2[1])}, {"op": "buffer", "input": cps(text)}, {"op": "csvconf", "seps": cpsR(d1[0]), "quotes": cpsR(d1[1])}, {"op": "buffer", "input": cps(text)}})
				}
			}
		}
		// (2c) the same scanner object reset and attached again with a look-ahead token pending; options set after the reader
		for _, x := range pool {
			for k := 0; k <= 3; k++ {
				seg := []Ev{{"op": "new", "kind": kind, "opts": []any{}}, {"op": "setreader", "input": cps(x)}}
				for j := 0; j < k; j++ {
					seg = append(seg, Ev{"op": "next"})
				}
				seg = append(seg, Ev{"op": "hasnext"}, Ev{"op": "stream"}, Ev{"op": "rewind"}, Ev{"op": "hasnext"}, Ev{"op": "next"}, Ev{"op": "hasnext"}, Ev{"op": "rewind"}, Ev{"op": "next"}, Ev{"op": "stream"}, Ev{"op": "buffer", "input": cps(pool[(k+1)%len(pool)])})
				g.Run("the same scanner reset and attached again:"+kind, seg)
			}
			for _, b := range []int{127, 16 | 32 | 64, 1 | 2 | 4 | 8, 64, 32} {
				if xs := optSnippets[kind]; len(xs) > 0 && b != 32 {
					x = xs[(len(x)+b)%len(xs)] // texts in which skipped tokens are followed by rebuilt ones
				}
				seg := []Ev{{"op": "new", "kind": kind, "opts": []any{}}, {"op": "setreader", "input": cps(x)}, {"op": "setopts", "opts": toAnyList(optList(b)), "atstart": true}}
				for j := 0; j < len(x)+2; j++ {
					if j%2 == 0 {
						seg = append(seg, Ev{"op": "hasnext"})
					}
					seg = append(seg, Ev{"op": "next"})
				}
				g.Run("options set after the reader was attached:"+kind, seg)
				// the setters called again with unchanged values between a has-next query and the fetch: nothing is lost or repeated
				seg2 := []Ev{{"op": "new", "kind": kind, "opts": toAnyList(optList(b))}, {"op": "setreader", "input": cps(x)}}
				for j := 0; j < len(x)+2; j++ {
					switch j % 3 {
					case 0:
						seg2 = append(seg2, Ev{"op": "hasnext"}, Ev{"op": "sameopts", "rev": j % 2}, Ev{"op": "next"})
					case 1:
						seg2 = append(seg2, Ev{"op": "sameopts", "rev": 1}, Ev{"op": "hasnext"}, Ev{"op": "hasnext"}, Ev{"op": "next"})
					default:
						seg2 = append(seg2, Ev{"op": "next"})
					}
				}
				g.Run("option setters called again with unchanged values in the middle of a stream:"+kind, seg2)
			}
		}
		// (3) random longer sequences under option sets and the tokenizer's own defaults
		n := g.Pick(300, 5000)
		for x := 0; x < n; x++ {
			first := Ev{"op": "new", "kind": kind, "opts": optSets[r.Intn(len(optSets))]}
			if first["opts"] == nil {
				first["opts"] = []any{}
			}
			if r.Intn(4) == 0 {
				first = Ev{"op": "new", "kind": kind, "defaults": true}
			}
			seg := []Ev{first}
			for y := 0; y < 2+r.Intn(6); y++ {
				var in string
				if r.Intn(3) == 0 && tokAlpha[kind] != nil {
					in = string(randomInput(g, kind, 12))
				} else {
					in = pool[r.Intn(len(pool))]
				}
				if r.Intn(3) == 0 {
					seg = append(seg, Ev{"op": "buffer", "input": cps(in)})
					continue
				}
				seg = append(seg, Ev{"op": "setreader", "input": cps(in)})
				for z := r.Intn(len(in) + 4); z > 0; z-- {
					if r.Intn(2) == 0 {
						seg = append(seg, Ev{"op": "hasnext"})
					} else {
						seg = append(seg, Ev{"op": "next"})
					}
				}
			}
			g.Run("random histories:"+kind, seg)
		}
	}
	for _, f := range c05extra {
		f(g)
	}
}
