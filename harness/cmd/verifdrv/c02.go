package main

import (
	"fmt"
	ctok "github.com/pip-services3-gox/pip-services3-expressions-gox/calculator/tokenizers"
	"strings"

	cerr "github.com/pip-services3-gox/pip-services3-commons-gox/errors"
	"github.com/pip-services3-gox/pip-services3-expressions-gox/calculator/parsers"
	"github.com/pip-services3-gox/pip-services3-expressions-gox/tokenizers"
	"github.com/pip-services3-gox/pip-services3-expressions-gox/variants"
)

// C02: the parser accepts exactly the expression grammar.
func init() {
	props["C02"] = &Prop{
		Generate: genC02,
		Exec:     execC02,
		Rule: "one event per token sequence handed to the parser (ParseTokens) or rendered and parsed (ParseString); " +
			"non-trivial = distinct token sequence of length >= 3 that contains an operator or bracket",
		NonTrivial: func(seg []Ev) string {
			e := seg[0]
			ts := e["toks"].([][]string)
			if len(ts) < 3 {
				return ""
			}
			for _, t := range ts {
				if t[0] != "Constant" && t[0] != "Variable" {
					return fmt.Sprint(e["entry"], ts)
				}
			}
			return ""
		},
	}
}

// vocabulary: kind -> (lexical token type, text). Constants and variables get distinct texts per position.
type vocab struct {
	kind string
	typ  int
	text string
}

var exprVocab = []vocab{
	{"Constant", tokenizers.Integer, "1"}, {"Variable", tokenizers.Word, "a"},
	{"LeftBrace", tokenizers.Symbol, "("}, {"RightBrace", tokenizers.Symbol, ")"},
	{"LeftSquareBrace", tokenizers.Symbol, "["}, {"RightSquareBrace", tokenizers.Symbol, "]"},
	{"Comma", tokenizers.Symbol, ","},
	{"Plus", tokenizers.Symbol, "+"}, {"Minus", tokenizers.Symbol, "-"}, {"Star", tokenizers.Symbol, "*"},
	{"Slash", tokenizers.Symbol, "/"}, {"Procent", tokenizers.Symbol, "%"}, {"Power", tokenizers.Symbol, "^"},
	{"Equal", tokenizers.Symbol, "="}, {"NotEqual", tokenizers.Symbol, "<>"}, {"NotEqual", tokenizers.Symbol, "!="},
	{"More", tokenizers.Symbol, ">"}, {"Less", tokenizers.Symbol, "<"}, {"EqualMore", tokenizers.Symbol, ">="},
	{"EqualLess", tokenizers.Symbol, "<="}, {"ShiftLeft", tokenizers.Symbol, "<<"}, {"ShiftRight", tokenizers.Symbol, ">>"},
	{"And", tokenizers.Keyword, "AND"}, {"Or", tokenizers.Keyword, "OR"}, {"Xor", tokenizers.Keyword, "XOR"},
	{"Not", tokenizers.Keyword, "NOT"}, {"Is", tokenizers.Keyword, "IS"}, {"In", tokenizers.Keyword, "IN"},
	{"Null", tokenizers.Keyword, "NULL"}, {"Like", tokenizers.Keyword, "LIKE"},
	{"Constant", tokenizers.Keyword, "TRUE"}, {"Constant", tokenizers.Quoted, "s"}, {"Constant", tokenizers.Float, "2.5"},
	{"Unknown", tokenizers.Symbol, "$"},
	// Keyword-typed tokens whose spelling is no keyword of the language (token entry only: the lexer never makes them)
	{"Unknown", tokenizers.Keyword, "YES"}, {"Unknown", tokenizers.Keyword, "T"}, {"Unknown", tokenizers.Keyword, "MAYBE"},
	// identifiers that are spelled like operators (a quoted identifier "and" is a word, not the operator)
	{"Variable", tokenizers.Word, "and"}, {"Variable", tokenizers.Word, "NULL"}, {"Variable", tokenizers.Word, "not"}, {"Variable", tokenizers.Word, "+"},
	// a quoted identifier made of one blank names a variable (only the empty one names nothing; seeded C02-r8-1)
	{"Variable", tokenizers.Word, " "},
}

// representative 16-symbol vocabulary (one operator per level)
var exprVocabCore = []string{"1", "a", "(", ")", "[", "]", ",", "AND", "NOT", "=", "+", "*", "^", "-", "IS", "NULL", "IN", "LIKE", "$", "w:and"}

// vocabByText must distinguish the keyword AND (Keyword token) from the word "and"/"NULL"/"not"/"+" (Word tokens): the word
// entries are addressed with a "w:" prefix in the texts lists

func vocabByText(text string) vocab {
	if strings.HasPrefix(text, "r:") { // a word written as it is
		return vocab{"Variable", tokenizers.Word, text[2:]}
	}
	if strings.HasPrefix(text, "s:") { // an operator word delivered as a Symbol token, in any letter case
		for _, v := range exprVocab {
			if v.typ == tokenizers.Keyword && strings.EqualFold(v.text, text[2:]) {
				return vocab{v.kind, tokenizers.Symbol, text[2:]}
			}
		}
	}
	if strings.HasPrefix(text, "w:") {
		for _, v := range exprVocab {
			if v.typ == tokenizers.Word && v.text == text[2:] {
				return v
			}
		}
	}
	for _, v := range exprVocab {
		if v.text == text && !(v.typ == tokenizers.Word && v.text != "a") {
			return v
		}
	}
	panic("vocab " + text)
}

var exprTypeNames = map[int]string{
	parsers.Unknown: "Unknown", parsers.LeftBrace: "LeftBrace", parsers.RightBrace: "RightBrace",
	parsers.LeftSquareBrace: "LeftSquareBrace", parsers.RightSquareBrace: "RightSquareBrace",
	parsers.Plus: "Plus", parsers.Minus: "Minus", parsers.Star: "Star", parsers.Slash: "Slash", parsers.Procent: "Procent",
	parsers.Power: "Power", parsers.Equal: "Equal", parsers.NotEqual: "NotEqual", parsers.More: "More", parsers.Less: "Less",
	parsers.EqualMore: "EqualMore", parsers.EqualLess: "EqualLess", parsers.ShiftLeft: "ShiftLeft", parsers.ShiftRight: "ShiftRight",
	parsers.And: "And", parsers.Or: "Or", parsers.Xor: "Xor", parsers.Is: "Is", parsers.In: "In", parsers.NotIn: "NotIn",
	parsers.Element: "Element", parsers.Null: "Null", parsers.Not: "Not", parsers.Like: "Like", parsers.NotLike: "NotLike",
	parsers.IsNull: "IsNull", parsers.IsNotNull: "IsNotNull", parsers.Comma: "Comma", parsers.Unary: "Unary",
	parsers.Function: "Function", parsers.Variable: "Variable", parsers.Constant: "Constant",
}

func variantText(v *variants.Variant) string {
	if v == nil || v.IsNull() {
		return ""
	}
	return v.String()
}

func rpnJSON(ts []*parsers.ExpressionToken) [][]string {
	out := make([][]string, 0, len(ts))
	for _, t := range ts {
		k := exprTypeNames[t.Type()]
		txt := ""
		if k == "Constant" || k == "Variable" || k == "Function" {
			txt = variantText(t.Value())
		}
		out = append(out, []string{k, txt})
	}
	return out
}

// lexKind maps a lexical token to the vocabulary kind the parser's lexical analysis assigns to it.
func lexKind(t *tokenizers.Token) (string, string) {
	up := strings.ToUpper(t.Value())
	switch t.Type() {
	case tokenizers.Keyword:
		if up == "TRUE" {
			return "Constant", "true"
		}
		if up == "FALSE" {
			return "Constant", "false"
		}
		for _, v := range exprVocab {
			if v.typ == tokenizers.Keyword && v.text == up {
				return v.kind, ""
			}
		}
		return "Unknown", ""
	case tokenizers.Word:
		return "Variable", t.Value()
	case tokenizers.Integer, tokenizers.Float:
		return "Constant", "#num"
	case tokenizers.Quoted:
		return "Constant", t.Value()
	case tokenizers.Symbol:
		for _, v := range exprVocab {
			if v.typ == tokenizers.Symbol && v.text == up && v.kind != "Unknown" {
				return v.kind, ""
			}
		}
		return "Unknown", ""
	case tokenizers.Comment, tokenizers.Whitespace:
		return "", ""
	}
	return "Unknown", ""
}

// lexTokens: the lexical tokens of an expression text, from a separate tokenizer configured like the parser's own
func lexTokens(text string) []*tokenizers.Token {
	var lt []*tokenizers.Token
	guarded(func() {
		tk := ctok.NewExpressionTokenizer()
		tk.SetSkipWhitespaces(true)
		tk.SetSkipComments(true)
		tk.SetSkipEof(true)
		tk.SetDecodeStrings(true)
		lt = tk.TokenizeBuffer(text)
	})
	return lt
}

func errCode(err error) string {
	if ae, ok := err.(*cerr.ApplicationError); ok {
		return ae.Code
	}
	if err != nil {
		return "non-application-error"
	}
	return ""
}

// event input: entry, texts (list of vocabulary texts; constants/variables are made distinct by position)
func execC02(seg []Ev) []Ev {
	out := make([]Ev, 0, len(seg))
	// one parser per segment: single-event segments observe a fresh parser (every observation reproducible in isolation),
	// multi-event segments a long-lived one that must keep judging every input by the grammar alone
	p := parsers.NewExpressionParser()
	kp := &keeper{}
	progText := func(q *parsers.ExpressionParser) string {
		return fmt.Sprint(rpnJSON(q.ResultTokens()), q.VariableNames(), tokRender(q.OriginalTokens()))
	}
	for _, in := range seg {
		entry := toStr(in["entry"])
		var texts []string
		for _, x := range toList(in["texts"]) {
			texts = append(texts, toStr(x))
		}
		e := Ev{"op": "parse", "entry": entry, "texts": texts}
		// build the lexical tokens; constants 1,2,3.. and variables a1,a2.. get distinct texts
		var lex []*tokenizers.Token
		var toks [][]string
		for i, tx := range texts {
			v := vocabByText(tx)
			text := v.text
			ktext := ""
			switch {
			case v.kind == "Constant" && v.typ == tokenizers.Integer:
				text = fmt.Sprint(i + 1)
				ktext = text
				if i%2 == 1 { // every other integer literal is written with a redundant leading zero (the same number: 011 is eleven)
					ktext = fmt.Sprint(i + 10)
					text = "0" + ktext
				}
			case v.kind == "Variable" && v.text != "a":
				ktext = text // spelled like an operator: kept as is
			case v.kind == "Variable":
				text = fmt.Sprintf("%s%d", v.text, i+1)
				ktext = text
			case v.kind == "Constant" && v.typ == tokenizers.Keyword:
				ktext = "true"
			case v.kind == "Constant" && v.typ == tokenizers.Quoted:
				text = fmt.Sprintf("s%d", i+1)
				ktext = text
			case v.kind == "Constant" && v.typ == tokenizers.Float:
				ktext = "2.5"
			}
			lex = append(lex, tokenizers.NewToken(v.typ, text, 1, i+1))
			toks = append(toks, []string{v.kind, ktext})
		}
		var err error
		parsedText := ""
		oc, det := guarded(func() {
			if entry == "zerotokens" {
				var zp parsers.ExpressionParser // a parser value that no constructor made
				err = zp.ParseTokens(lex)
				p = &zp
			} else if entry == "origtokens" {
				err = p.SetOriginalTokens(lex)
			} else if entry == "tokens" {
				given := lex
				kp.keep("token list that was given to ParseTokens", func() string { return tokRender(given) })
				err = p.ParseTokens(lex)
			} else if entry == "expr" {
				// the text the parser itself reports for what it holds, parsed again by the same parser
				parsedText = p.Expression()
				err = p.ParseString(parsedText)
			} else {
				var sb strings.Builder
				for i, t := range lex {
					if i > 0 {
						sb.WriteString(" ")
						if entry == "stringc" && i%2 == 1 {
							sb.WriteString("/* c " + fmt.Sprint(i) + " */ ") // comments between the tokens
						}
					}
					if t.Type() == tokenizers.Quoted {
						sb.WriteString("'" + t.Value() + "'")
					} else if t.Type() == tokenizers.Word && strings.HasPrefix(texts[i], "r:") {
						sb.WriteString(t.Value()) // a word written as it is (it only looks like a keyword)
					} else if t.Type() == tokenizers.Word && !strings.HasPrefix(t.Value(), "a") {
						sb.WriteString("\"" + t.Value() + "\"") // a quoted identifier
					} else {
						sb.WriteString(t.Value())
					}
				}
				parsedText = sb.String()
				err = p.ParseString(parsedText)
			}
		})
		if entry != "tokens" && entry != "origtokens" && entry != "zerotokens" {
			e["text"] = parsedText
		}
		if entry != "tokens" && entry != "origtokens" && entry != "zerotokens" && oc == "ok" {
			// the lexical tokens of that text, from a separate tokenizer of the parser's kind
			toks = toks[:0]
			for _, t := range lexTokens(parsedText) {
				k, tx := lexKind(t)
				if k == "" {
					continue
				}
				if k == "Constant" && tx == "#num" {
					tx = t.Value()
					if allDigits(tx) && len(tx) > 1 {
						tx = strings.TrimLeft(tx, "0") // the number the literal denotes
						if tx == "" {
							tx = "0"
						}
					}
				}
				toks = append(toks, []string{k, tx})
			}
		}
		e["toks"] = toks
		switch {
		case oc != "ok":
			e["outcome"], e["code"], e["rpn"] = "panic", "", [][]string{}
			e["detail"] = oc + ": " + det
		case err != nil:
			e["outcome"], e["code"], e["rpn"] = "rejected", errCode(err), [][]string{}
		default:
			e["outcome"], e["code"], e["rpn"] = "accepted", "", rpnJSON(p.ResultTokens())
		}
		kp.check(e)
		out = append(out, e)
	}
	// a caller may do what it likes with the constants of a program it was given: nothing another parser compiles depends on it
	guarded(func() {
		tp := parsers.NewExpressionParser()
		if tp.ParseString("TRUE AND FALSE OR 1 = 'x' OR 2.5 > a") == nil {
			for _, t := range tp.ResultTokens() {
				if t.Type() == parsers.Constant && t.Value() != nil {
					t.Value().SetAsString("scribbled by the caller")
				}
			}
		}
	})
	if len(out) > 0 {
		q := p
		hold("compiled program, names and tokens of the previous parser", func() string { return progText(q) })
	}
	return out
}

func genC02(g *Gen) {
	run := func(gen, entry string, texts []string) {
		tl := make([]any, len(texts))
		for i, t := range texts {
			tl[i] = t
		}
		g.Run(gen, []Ev{{"op": "parse", "entry": entry, "texts": tl}})
	}
	// exhaustive over the representative vocabulary
	ln := g.Pick(4, 5)
	var rec func(cur []string)
	rec = func(cur []string) {
		if len(cur) > 0 {
			run(fmt.Sprintf("exhaustive<=%d core vocabulary (ParseTokens)", ln), "tokens", cur)
		}
		if len(cur) == ln {
			return
		}
		for _, t := range exprVocabCore {
			rec(append(append([]string{}, cur...), t))
		}
	}
	rec(nil)
	// deeper over the call / index / grouping vocabulary
	ln3 := g.Pick(5, 6)
	var rec3 func(cur []string)
	rec3 = func(cur []string) {
		if len(cur) > ln {
			run(fmt.Sprintf("exhaustive<=%d bracket vocabulary (ParseTokens)", ln3), "tokens", cur)
		}
		if len(cur) == ln3 {
			return
		}
		for _, t := range []string{"1", "a", "(", ")", "[", "]", ","} {
			rec3(append(append([]string{}, cur...), t))
		}
	}
	rec3(nil)
	// every ordered pair of operator forms in a chain  x OP1 y OP2 z  (the multi-token forms NOT LIKE, NOT IN, IS NULL, IS NOT NULL
	// included; a postfix form takes no right operand), through both entries
	{
		bin := [][]string{{"AND"}, {"OR"}, {"XOR"}, {"="}, {"<>"}, {"!="}, {">"}, {"<"}, {">="}, {"<="}, {"+"}, {"-"}, {"LIKE"}, {"NOT", "LIKE"}, {"NOT", "IN"},
			{"*"}, {"/"}, {"%"}, {"^"}, {"IN"}, {"<<"}, {">>"}}
		post := [][]string{{"IS", "NULL"}, {"IS", "NOT", "NULL"}}
		all := append(append([][]string{}, bin...), post...)
		for i1, o1 := range all {
			for _, o2 := range all {
				ts := append([]string{"a"}, o1...)
				if i1 < len(bin) {
					ts = append(ts, "a")
				}
				ts = append(ts, o2...)
				if len(o2) > 0 && !(o2[0] == "IS") {
					ts = append(ts, "a")
				}
				run("every ordered pair of operator forms in a chain (ParseTokens)", "tokens", ts)
				run("every ordered pair of operator forms in a chain (ParseString)", "string", ts)
				run("every ordered pair of operator forms in a chain, prefixed (ParseTokens)", "tokens", append([]string{"NOT", "-"}, ts...))
			}
		}
	}
	// full vocabulary exhaustively <= 2 (quick) / 3 (thorough), both entries
	ln2 := g.Pick(2, 3)
	var rec2 func(cur []string)
	rec2 = func(cur []string) {
		if len(cur) > 0 {
			run(fmt.Sprintf("exhaustive<=%d full vocabulary (ParseTokens)", ln2), "tokens", cur)
			run(fmt.Sprintf("exhaustive<=%d full vocabulary (ParseString)", ln2), "string", cur)
			if len(cur) >= 2 {
				run(fmt.Sprintf("exhaustive<=%d full vocabulary (ParseString with comments)", ln2), "stringc", cur)
			}
		}
		if len(cur) == ln2 {
			return
		}
		for _, v := range exprVocab {
			t := v.text
			if v.typ == tokenizers.Word && v.text != "a" {
				t = "w:" + v.text
			}
			rec2(append(append([]string{}, cur...), t))
		}
	}
	rec2(nil)
	// operator words delivered as Symbol tokens in any letter case (token entries only)
	for _, w := range []string{"and", "Or", "xOR", "not", "like", "IS", "in", "Null"} {
		for _, ctx := range [][]string{{"a", "s:" + w, "a"}, {"s:" + w, "a"}, {"a", "s:" + w, "s:null"}, {"a", "NOT", "s:" + w, "a"}, {"a", "s:not", "s:" + w, "a"}, {"1", "+", "a", "s:" + w, "1"}} {
			for _, entry := range []string{"tokens", "origtokens", "zerotokens"} {
				run("operator words as Symbol tokens", entry, ctx)
			}
		}
	}
	// words that look like keywords: a letter replaced by one whose case mapping meets the keyword's letter
	for _, kwd := range c13keywords {
		low := strings.ToLower(kwd)
		for i, ch := range low {
			for _, alt := range map[rune][]rune{'s': {0x17f}, 'i': {0x131, 0x130}, 'k': {0x212a}, 'a': {0xe5}, 'e': {0xe9}}[ch] {
				if i == 0 && alt > 0xff {
					continue // must still start a word
				}
				w := "r:" + low[:i] + string(alt) + low[i+1:]
				for _, ctx := range [][]string{{"a", w, "a"}, {"a", "NOT", w, "a"}, {w}, {"a", w, "NULL"}, {"a", "IS", w}, {w, "a"}, {"a", w, "(", "1", ")"}, {"a", "+", w}} {
					run("words that look like keywords", "string", ctx)
					run("words that look like keywords", "tokens", ctx)
				}
			}
		}
	}
	// deep nesting: grouping, calls and indexing nested far beyond any fixed small bound
	for _, d := range []int{64, 100, 200, 201, 256, 1001, 1025} {
		if d > g.Pick(260, 2000) {
			continue
		}
		mk := func(open, inner, close []string) []string {
			var ts []string
			for i := 0; i < d; i++ {
				ts = append(ts, open...)
			}
			ts = append(ts, inner...)
			for i := 0; i < d; i++ {
				ts = append(ts, close...)
			}
			return ts
		}
		run("deep nesting", "tokens", mk([]string{"("}, []string{"1"}, []string{")"}))
		run("deep nesting", "string", mk([]string{"("}, []string{"1", "+", "a"}, []string{")"}))
		run("deep nesting", "tokens", mk([]string{"a", "("}, []string{"1"}, []string{")"}))
		run("deep nesting", "tokens", mk([]string{"-", "("}, []string{"a"}, []string{")", "[", "1", "]"}))
		run("deep nesting", "tokens", mk([]string{"NOT"}, []string{"a"}, nil))
		run("deep nesting", "tokens", mk([]string{"("}, []string{"1"}, []string{")"})[:2*d]) // one ')' short
		long := []string{"1"}
		for i := 0; i < d; i++ {
			long = append(long, []string{"+", "*", "AND", "="}[i%4], "a")
		}
		run("long chains", "tokens", long)
		args := []string{"a", "("}
		for i := 0; i < d; i++ {
			if i > 0 {
				args = append(args, ",")
			}
			args = append(args, "1")
		}
		run("long argument lists", "tokens", append(args, ")"))
	}
	// one long-lived parser: many rejected inputs, then sentences; a text re-parsed by the parser that composed it
	rr := g.Rand()
	for rep := 0; rep < g.Pick(2, 6); rep++ {
		var seg []Ev
		add := func(entry string, texts ...string) {
			tl := make([]any, len(texts))
			for i, t := range texts {
				tl[i] = t
			}
			seg = append(seg, Ev{"op": "parse", "entry": entry, "texts": tl})
		}
		deepBad := append(strings.Split(strings.Repeat("( ", 45), " ")[:45], "1", "+")
		bad := [][]string{deepBad, deepBad[5:], {"(", "1", "+"}, {"(", "(", "(", "1", "+"}, {"a", "(", "1", ","}, {"1", "["}, {"(", "(", "a", ")"}, {"1", "1"}, {")"}, {"a", "(", "(", "(", "("}, {"NOT"}, {"(", "-"}}
		n := g.Pick(300, 1300)
		for i := 0; i < n; i++ {
			b := bad[rr.Intn(len(bad))]
			add([]string{"tokens", "string"}[rr.Intn(2)], b...)
			if i%97 == 96 || i == n-1 {
				add("tokens", "(", "1", "+", "a", ")", "*", "a", "(", "1", ",", "(", "a", ")", ")")
				add("string", "(", "1", "+", "a", ")", "*", "a", "(", "1", ",", "(", "a", ")", ")")
			}
		}
		g.Run("one long-lived parser: rejected inputs in between", seg)
	}
	for i := 0; i < g.Pick(300, 3000); i++ {
		ts := randomSentence(g, rr.Intn(3))
		if len(ts) == 0 || len(ts) > 40 {
			continue
		}
		tl := make([]any, len(ts))
		for j, t := range ts {
			tl[j] = t
		}
		ts2 := randomSentence(g, rr.Intn(3))
		tl2 := make([]any, len(ts2))
		for j, t := range ts2 {
			tl2[j] = t
		}
		g.Run("the composed text re-parsed by the same parser", []Ev{{"op": "parse", "entry": "tokens", "texts": tl}, {"op": "parse", "entry": "expr", "texts": []any{}},
			{"op": "parse", "entry": "string", "texts": tl2}, {"op": "parse", "entry": "expr", "texts": []any{}}, {"op": "parse", "entry": "tokens", "texts": tl2}})
	}
	// token-level mutations of generated valid expressions
	r := g.Rand()
	n := g.Pick(6000, 150000)
	for i := 0; i < n; i++ {
		ts := randomSentence(g, r.Intn(4))
		for k := r.Intn(4); k > 0 && len(ts) > 0; k-- {
			j := r.Intn(len(ts))
			switch r.Intn(5) {
			case 0: // insert
				ts = append(ts[:j], append([]string{vocabKey(exprVocab[r.Intn(len(exprVocab))])}, ts[j:]...)...)
			case 1: // delete
				ts = append(ts[:j], ts[j+1:]...)
			case 2: // replace
				ts[j] = vocabKey(exprVocab[r.Intn(len(exprVocab))])
			case 3: // swap
				m := r.Intn(len(ts))
				ts[j], ts[m] = ts[m], ts[j]
			default: // duplicate
				ts = append(ts[:j], append([]string{ts[j]}, ts[j:]...)...)
			}
		}
		if len(ts) == 0 || len(ts) > 80 {
			continue
		}
		entry := "tokens"
		if i%3 == 0 {
			entry = "string"
		}
		if i%9 == 0 {
			entry = "stringc"
		}
		if i%9 == 4 {
			entry = "origtokens"
		}
		if i%9 == 7 {
			entry = "zerotokens"
		}
		run("mutated valid expressions", entry, ts)
	}
}

// randomSentence generates a sentence of the grammar as vocabulary texts.
func randomSentence(g *Gen, depth int) []string {
	r := g.Rand()
	var e0 func(d int) []string
	prim := func(d int) []string {
		switch x := r.Intn(10); {
		case d <= 0 || x < 3:
			return []string{[]string{"1", "a", "TRUE", "s", "2.5"}[r.Intn(5)]}
		case x < 5:
			return append(append([]string{"("}, e0(d-1)...), ")")
		case x < 8:
			out := []string{"a", "("}
			for k, n := 0, r.Intn(4); k < n; k++ {
				if k > 0 {
					out = append(out, ",")
				}
				out = append(out, e0(d-1)...)
			}
			return append(out, ")")
		default:
			return []string{"a"}
		}
	}
	e6 := func(d int) []string {
		var out []string
		if x := r.Intn(6); x == 0 {
			out = append(out, "-")
		} else if x == 1 {
			out = append(out, "+")
		}
		out = append(out, prim(d)...)
		if d > 0 && r.Intn(6) == 0 {
			out = append(append(append(out, "["), e0(d-1)...), "]")
		}
		return out
	}
	level := func(ops []string, next func(d int) []string) func(d int) []string {
		return func(d int) []string {
			out := next(d)
			for r.Intn(3) == 0 {
				out = append(append(out, ops[r.Intn(len(ops))]), next(d)...)
			}
			return out
		}
	}
	e5 := level([]string{"^", "IN", "<<", ">>"}, e6)
	e4 := level([]string{"*", "/", "%"}, e5)
	e3 := func(d int) []string {
		out := e4(d)
		for r.Intn(3) == 0 {
			switch r.Intn(7) {
			case 0, 1:
				out = append(append(out, []string{"+", "-", "LIKE"}[r.Intn(3)]), e4(d)...)
			case 2:
				out = append(append(out, "NOT", "LIKE"), e4(d)...)
			case 3:
				out = append(out, "IS", "NULL")
			case 4:
				out = append(out, "IS", "NOT", "NULL")
			default:
				out = append(append(out, "NOT", "IN"), e4(d)...)
			}
		}
		return out
	}
	e2 := level([]string{"=", "<>", "!=", ">", "<", ">=", "<="}, e3)
	e1 := func(d int) []string {
		if r.Intn(5) == 0 {
			return append([]string{"NOT"}, e2(d)...)
		}
		return e2(d)
	}
	e0 = level([]string{"AND", "OR", "XOR"}, e1)
	return e0(depth)
}

func vocabKey(v vocab) string {
	if v.typ == tokenizers.Word && v.text != "a" {
		return "w:" + v.text
	}
	return v.text
}
