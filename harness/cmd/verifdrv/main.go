// verifdrv drives the real pip-services3-expressions-gox code and records what it
// observed as NDJSON events that the TLA+ trace specifications in /verif/spec validate.
//
//	verifdrv <property> -tier quick|thorough -seed N -out DIR
//	verifdrv <property> -replay FILE -out DIR
//
// The driver only generates inputs, executes the real code and logs; it never judges.
package main

import (
	"flag"
	"fmt"
	"os"
	_ "time/tzdata" // zone rules for the daylight-saving cases (no zone files needed on the host)
)

// A Prop knows how to generate input segments and how to execute a segment on the real code.
// A segment is a list of events; Exec fills in the observations. Replay = Exec on stored inputs.
type Prop struct {
	// Generate calls run(seg) for every generated segment of input-only events.
	Generate func(g *Gen)
	// Exec re-executes the inputs of seg on the real code and returns the events with observations.
	Exec func(seg []Ev) []Ev
	// NonTrivial returns a key if the executed segment is non-trivial by the property's rule ("" otherwise).
	NonTrivial func(seg []Ev) string
	Rule       string
}

var props = map[string]*Prop{}

func main() {
	if len(os.Args) < 2 {
		fmt.Fprintln(os.Stderr, "usage: verifdrv <property> [flags]")
		os.Exit(2)
	}
	id := os.Args[1]
	fs := flag.NewFlagSet("verifdrv", flag.ExitOnError)
	tier := fs.String("tier", "quick", "quick|thorough")
	seed := fs.Int64("seed", 1, "seed")
	out := fs.String("out", ".", "output directory")
	replay := fs.String("replay", "", "replay file (NDJSON segment)")
	part := fs.String("part", "", "optional sub-part selector")
	fs.Parse(os.Args[2:])
	p, ok := props[id]
	if !ok {
		fmt.Fprintln(os.Stderr, "unknown property", id)
		os.Exit(2)
	}
	w := NewWriter(*out, p)
	if *replay != "" {
		seg := stripObs(readSegment(*replay))
		out, crash := safeExec(p, seg)
		if crash != "" {
			w.crash(seg, crash)
		} else {
			w.Put(out)
		}
		w.Close()
		return
	}
	g := &Gen{Tier: *tier, Seed: *seed, Part: *part, w: w, p: p}
	p.Generate(g)
	w.Close()
}
