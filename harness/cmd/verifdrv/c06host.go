package main

import (
	"time"
	"math"
	"regexp"
	"strconv"
	"strings"

	"github.com/pip-services3-gox/pip-services3-expressions-gox/variants"
)

// hostBin computes a binary operator on two numeric variants with the host language's own operators on the native type of the
// first operand (the second operand converted with the host's conversion).  ok=false when the host leaves the case undefined
// (division of integers by zero, shift counts outside 0..63, float-to-integer conversion out of range) or the operator is not
// an arithmetic/comparison operator of that type.  The result is what "agrees with host arithmetic" means beyond the range the
// TLA+ value model computes exactly.
func hostBin(name string, a, b *variants.Variant, unsafe bool) (r *variants.Variant, ok bool) {
	isNum := func(v *variants.Variant) bool {
		switch v.Type() {
		case variants.Integer, variants.Long, variants.Float, variants.Double:
			return true
		}
		return false
	}
	if (a.Type() == variants.Integer || a.Type() == variants.Long) && unsafe && (b.Type() == variants.DateTime || b.Type() == variants.TimeSpan) {
		// a date-time counts in Unix seconds (the floor for instants before 1970), a time span in whole milliseconds
		if b.Type() == variants.DateTime {
			b = variants.VariantFromLong(b.AsDateTime().Unix())
		} else if b.AsTimeSpan()%time.Millisecond == 0 {
			b = variants.VariantFromLong(int64(b.AsTimeSpan() / time.Millisecond))
		} else {
			return nil, false
		}
	}
	if isNum(a) && b.Type() == variants.String && unsafe {
		// a string that is a decimal numeral converts to the number it denotes (type-unsafe manager only)
		s := b.AsString()
		switch {
		case intNumeral.MatchString(s) && (a.Type() == variants.Integer || a.Type() == variants.Long):
			v, err := strconv.ParseInt(s, 10, 64)
			if err != nil {
				return nil, false
			}
			b = variants.VariantFromLong(v)
		case decNumeral.MatchString(s) && (a.Type() == variants.Float || a.Type() == variants.Double):
			if a.Type() == variants.Float {
				v, err := strconv.ParseFloat(s, 32)
				if err != nil {
					return nil, false
				}
				b = variants.VariantFromFloat(float32(v))
			} else {
				v, err := strconv.ParseFloat(s, 64)
				if err != nil {
					return nil, false
				}
				b = variants.VariantFromDouble(v)
			}
		default:
			return nil, false
		}
	}
	// time spans and date-times of the same type: the host's Duration arithmetic / time comparison (any magnitude, any zone)
	if a.Type() == variants.TimeSpan && b.Type() == variants.TimeSpan {
		x, y := a.AsTimeSpan(), b.AsTimeSpan()
		switch name {
		case "Add":
			return variants.VariantFromTimeSpan(x + y), true
		case "Sub":
			return variants.VariantFromTimeSpan(x - y), true
		case "Equal":
			return variants.VariantFromBoolean(x == y), true
		case "NotEqual":
			return variants.VariantFromBoolean(x != y), true
		case "More":
			return variants.VariantFromBoolean(x > y), true
		case "Less":
			return variants.VariantFromBoolean(x < y), true
		case "MoreEqual":
			return variants.VariantFromBoolean(x >= y), true
		case "LessEqual":
			return variants.VariantFromBoolean(x <= y), true
		}
		return nil, false
	}
	if a.Type() == variants.DateTime && b.Type() == variants.DateTime {
		x, y := a.AsDateTime(), b.AsDateTime()
		switch name {
		case "Sub":
			return variants.VariantFromTimeSpan(x.Sub(y)), true
		case "Equal":
			return variants.VariantFromBoolean(x.Equal(y)), true
		case "NotEqual":
			return variants.VariantFromBoolean(!x.Equal(y)), true
		case "More":
			return variants.VariantFromBoolean(x.After(y)), true
		case "Less":
			return variants.VariantFromBoolean(x.Before(y)), true
		case "MoreEqual":
			return variants.VariantFromBoolean(!x.Before(y)), true
		case "LessEqual":
			return variants.VariantFromBoolean(!x.After(y)), true
		}
		return nil, false
	}
	if a.Type() == variants.Boolean && b.Type() == variants.Boolean {
		x, y := a.AsBoolean(), b.AsBoolean()
		switch name {
		case "And":
			return variants.VariantFromBoolean(x && y), true
		case "Or":
			return variants.VariantFromBoolean(x || y), true
		case "Xor":
			return variants.VariantFromBoolean(x != y), true
		case "Equal":
			return variants.VariantFromBoolean(x == y), true
		case "NotEqual":
			return variants.VariantFromBoolean(x != y), true
		}
		return nil, false
	}
	if a.Type() == variants.String && b.Type() == variants.String {
		x, y := a.AsString(), b.AsString()
		switch name {
		case "Add":
			return variants.VariantFromString(x + y), true
		case "Equal":
			return variants.VariantFromBoolean(x == y), true
		case "NotEqual":
			return variants.VariantFromBoolean(x != y), true
		case "More":
			return variants.VariantFromBoolean(x > y), true
		case "Less":
			return variants.VariantFromBoolean(x < y), true
		case "MoreEqual":
			return variants.VariantFromBoolean(x >= y), true
		case "LessEqual":
			return variants.VariantFromBoolean(x <= y), true
		}
		return nil, false
	}
	if !isNum(a) || !isNum(b) {
		return nil, false
	}
	toI64 := func(v *variants.Variant) (int64, bool) {
		switch v.Type() {
		case variants.Integer:
			return int64(v.AsInteger()), true
		case variants.Long:
			return v.AsLong(), true
		case variants.Float:
			f := float64(v.AsFloat())
			if math.IsNaN(f) || f <= -9.2e18 || f >= 9.2e18 {
				return 0, false
			}
			return int64(v.AsFloat()), true
		default:
			f := v.AsDouble()
			if math.IsNaN(f) || f <= -9.2e18 || f >= 9.2e18 {
				return 0, false
			}
			return int64(f), true
		}
	}
	toF64 := func(v *variants.Variant) float64 {
		switch v.Type() {
		case variants.Integer:
			return float64(v.AsInteger())
		case variants.Long:
			return float64(v.AsLong())
		case variants.Float:
			return float64(v.AsFloat())
		default:
			return v.AsDouble()
		}
	}
	toF32 := func(v *variants.Variant) float32 {
		switch v.Type() {
		case variants.Integer:
			return float32(v.AsInteger())
		case variants.Long:
			return float32(v.AsLong())
		case variants.Float:
			return v.AsFloat()
		default:
			return float32(v.AsDouble())
		}
	}
	boolean := func(x bool) (*variants.Variant, bool) { return variants.VariantFromBoolean(x), true }
	switch a.Type() {
	case variants.Integer, variants.Long:
		x, _ := toI64(a)
		y, yok := toI64(b)
		if !yok {
			return nil, false
		}
		if name == "Lsh" || name == "Rsh" {
			y = int64(int(y))
		}
		mk := func(z int64) (*variants.Variant, bool) {
			if a.Type() == variants.Integer {
				return variants.VariantFromInteger(int(z)), true
			}
			return variants.VariantFromLong(z), true
		}
		switch name {
		case "Add":
			return mk(x + y)
		case "Sub":
			return mk(x - y)
		case "Mul":
			return mk(x * y)
		case "Div":
			if y == 0 {
				return nil, false
			}
			return mk(x / y)
		case "Mod":
			if y == 0 {
				return nil, false
			}
			return mk(x % y)
		case "And":
			return mk(x & y)
		case "Or":
			return mk(x | y)
		case "Xor":
			return mk(x ^ y)
		case "Lsh":
			if y < 0 || y > 63 {
				return nil, false
			}
			return mk(x << uint(y))
		case "Rsh":
			if y < 0 || y > 63 {
				return nil, false
			}
			return mk(x >> uint(y))
		case "Equal":
			return boolean(x == y)
		case "NotEqual":
			return boolean(x != y)
		case "More":
			return boolean(x > y)
		case "Less":
			return boolean(x < y)
		case "MoreEqual":
			return boolean(x >= y)
		case "LessEqual":
			return boolean(x <= y)
		}
	case variants.Float:
		x, y := a.AsFloat(), toF32(b)
		switch name {
		case "Add":
			return variants.VariantFromFloat(x + y), true
		case "Sub":
			return variants.VariantFromFloat(x - y), true
		case "Mul":
			return variants.VariantFromFloat(x * y), true
		case "Div":
			return variants.VariantFromFloat(x / y), true
		case "Equal":
			return boolean(x == y)
		case "NotEqual":
			return boolean(x != y)
		case "More":
			return boolean(x > y)
		case "Less":
			return boolean(x < y)
		case "MoreEqual":
			return boolean(x >= y)
		case "LessEqual":
			return boolean(x <= y)
		}
	case variants.Double:
		x, y := a.AsDouble(), toF64(b)
		switch name {
		case "Add":
			return variants.VariantFromDouble(x + y), true
		case "Sub":
			return variants.VariantFromDouble(x - y), true
		case "Mul":
			return variants.VariantFromDouble(x * y), true
		case "Div":
			return variants.VariantFromDouble(x / y), true
		case "Equal":
			return boolean(x == y)
		case "NotEqual":
			return boolean(x != y)
		case "More":
			return boolean(x > y)
		case "Less":
			return boolean(x < y)
		case "MoreEqual":
			return boolean(x >= y)
		case "LessEqual":
			return boolean(x <= y)
		}
	}
	return nil, false
}

var intNumeral = regexp.MustCompile(`^-?[0-9]+$`)
var decNumeral = regexp.MustCompile(`^-?[0-9]+(\.[0-9]+)?$`)

// widePool: numeric values of extreme magnitude, next to the rounding midpoints of the narrower types, with special bit patterns
func widePool() []*variants.Variant {
	I, L, F, D, S := variants.VariantFromInteger, variants.VariantFromLong, variants.VariantFromFloat, variants.VariantFromDouble, variants.VariantFromString
	return []*variants.Variant{
		I(0), I(1), I(-1), I(3), I(math.MaxInt64 - 1), I(math.MinInt64 + 1), I(math.MaxInt64), I(math.MinInt64), I(1 << 31), I(1<<31 - 1), I(-(1 << 31)), I(1 << 32),
		I(1<<53 + 1), I(1 << 62), I(3037000500), I(0x5555555555555555), I(-0x5555555555555556), I(1<<24 + 1), I(63), I(64),
		L(0), L(2), L(-3), L(1<<54 + 1<<30 + 1), L(1<<54 + 1<<30 - 1), L(-(1<<54 + 1<<30 + 1)), L(1<<53 + 1), L(1<<24 + 1), L(1<<25 + 3), L(1<<60 + 1<<36 + 1),
		L(4607182418800017408), L(math.MaxInt64), L(math.MinInt64), L(1<<31 + 7), L(1000000007),
		F(16777216), F(16777218), F(1e10), F(3.4e38), F(1e-45), F(float32(math.Copysign(0, -1))), F(0.3), F(-7.75), F(2147483648), F(0.5),
		D(9007199254740992), D(9007199254740994), D(1e-320), D(math.Copysign(0, -1)), D(9.223372036854775807e18), D(1e19), D(0.1 + 0.2), D(1.0 / 3), D(123456789.125),
		D(16777217), D(-2147483649), D(4294967296.5), D(0.5), D(-1e300),
		variants.VariantFromTimeSpan(time.Duration(math.MaxInt64)), variants.VariantFromTimeSpan(time.Duration(math.MinInt64)), variants.VariantFromTimeSpan(time.Nanosecond), variants.VariantFromTimeSpan(-36 * time.Hour),
		variants.VariantFromTimeSpan(1<<53 + 1), variants.VariantFromDateTime(time.Unix(1636266600, 0).In(zone("America/New_York"))), variants.VariantFromDateTime(time.Unix(1636266600, 0).UTC()),
		variants.VariantFromDateTime(time.Unix(1636263000, 999999999).In(zone("Europe/Berlin"))), variants.VariantFromDateTime(time.Date(1, 1, 1, 0, 0, 0, 0, time.UTC)),
		variants.VariantFromDateTime(time.Date(9999, 12, 31, 23, 59, 59, 0, time.UTC)), variants.VariantFromDateTime(time.Unix(-1, 500)), variants.VariantFromDateTime(time.Unix(-1, 500000000).UTC()), variants.VariantFromDateTime(time.Unix(-86400, 1000000).UTC()),
		variants.VariantFromBoolean(true), variants.VariantFromBoolean(false), S(""), S("a"), S("A"), S("a\x00"), S("ab"), S("\u00e9"), S("e\u0301"), S("z"), S("\U0001f600"),
		S("0.5" + strings.Repeat("0", 62)), S(strings.Repeat("0", 80) + "42"), S("3.1415926535897932384626433832795028841971693993751058209749445923078164062"), S("-2.5"), S("17"), S("0.1"),
		S("9223372036854775807"), S("-9223372036854775808"), S("16777217"), S("123456789.125"), S(strings.Repeat("9", 30)), S("0." + strings.Repeat("0", 70) + "1"),
	}
}
