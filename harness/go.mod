module verifharness

go 1.18

require github.com/pip-services3-gox/pip-services3-expressions-gox v0.0.0

require github.com/pip-services3-gox/pip-services3-commons-gox v1.0.8 // indirect

replace github.com/pip-services3-gox/pip-services3-expressions-gox => /repo
