#!/usr/bin/env python3
"""round-4 prompt: base prompt (paths /tmp/mut4, /tmp/mutout4) + summaries of all earlier changes for the property + what kinds of
triggers are by now well covered (the sub-agent still gets nothing from /verif itself)."""
import json, sys, glob, subprocess
pid = sys.argv[1]
base = subprocess.run([sys.executable, '/verif/tools/mutprompt.py', pid, '3'], capture_output=True, text=True).stdout
base = base.replace('/tmp/mut/', '/tmp/mut4/').replace('/tmp/mutout/', '/tmp/mutout4/')
prev = []
for m in sorted(glob.glob('/verif/seeded/%s-*/meta.json' % pid)):
    try:
        d = json.load(open(m))
    except Exception:
        continue
    s = (d.get('summary') or '').replace('\n', ' ')
    if s:
        prev.append('- ' + s[:260])
print(base)
print('\nChanges of the following kinds have ALREADY been produced by others; produce three that are different from all of them (different code path or different mechanism):')
print('\n'.join(prev))
print('''
Make these three HARD TO FIND for an automated checker that compares the library against an independent reference model and already drives it with: exhaustive small inputs; boundary-value pools; seeded random inputs; LONG inputs (every size around the powers of two up to 4097, single inputs of 70 000 characters / tokens, a special character at every offset 0..300); rare Unicode code points (U+FFFD..U+FFFF, supplementary planes, characters whose low byte or low 16 bits alias ASCII, letters whose case mapping changes length or yields an ASCII letter, Unicode digits and spaces) in every context; long-lived instances used up to ~1400 times with rejected inputs in between; argument lists up to 257 and nesting up to 2000; extreme magnitudes and bit patterns of every numeric type; a handful of non-default configurations. Triggers of THOSE kinds will be caught. Look for something else that is still a plausible small developer mistake and genuinely violates the property as stated, for example: a combination of TWO specific features in one input where each alone is handled correctly; behaviour that depends on the ORDER in which configuration or registration calls were made, or on calling a getter/setter between two uses; an error path followed by a success path (or the reverse) on one instance; duplicated or equal elements / names; a particular combination of operand TYPES; particular calendar dates, times of day or durations; state that leaks between two DIFFERENT instances through a package-level variable; a value that is correct the first time it is read and wrong the second time; an off-by-one that shows only when two boundaries coincide. The change must keep the existing tests passing and must be small.''')
