#!/usr/bin/env python3
"""round-4 prompt: base prompt (paths /tmp/mut4, /tmp/mutout4) + summaries of all earlier changes for the property + what kinds of
triggers are by now well covered (the sub-agent still gets nothing from /verif itself)."""
import json, sys, glob, subprocess
pid = sys.argv[1]
base = subprocess.run([sys.executable, '/verif/tools/mutprompt.py', pid, '3'], capture_output=True, text=True).stdout
base = base.replace('/tmp/mut/', '/tmp/mut5/').replace('/tmp/mutout/', '/tmp/mutout5/')
prev = []
for m in sorted(glob.glob('/verif/seeded/%s-*/meta.json' % pid)):
    try:
        d = json.load(open(m))
    except Exception:
        continue
    s = (d.get('summary') or '').replace('\n', ' ')
    if s:
        prev.append('- ' + s[:260])
print(base)
print('\nChanges of the following kinds have ALREADY been produced by others; produce three that are different from all of them (different code path or different mechanism):')
print('\n'.join(prev))
print('''
Make these three HARD TO FIND for an automated checker that compares the library against an independent reference model. That checker already drives the library with: exhaustive small inputs; boundary-value pools; seeded random inputs; long inputs (every size around the powers of two up to 4097, single inputs of 70 000 characters / tokens, a special character at every offset 0..300); rare Unicode code points in every context; extreme magnitudes and bit patterns; argument lists up to 257 and nesting up to 2000; long-lived instances used up to ~1400 times with rejected inputs in between; SEVERAL INSTANCES ALIVE AT THE SAME TIME (so state shared through package-level variables is caught); results, lists and strings that were handed out earlier are RE-INSPECTED after later calls (so buffers reused between calls are caught); operands, maps and variables changed in place between two calls; options, operation managers, symbols and character ranges changed between two uses of one instance; rejected configuration calls in between; the same scanner reset and attached again; queries asked in every order; scripts of public calls over several calculators and templates; zones with daylight saving; typed nil pointers; a dozen non-default tokenizer configurations (custom symbols of any length, non-Latin separators and quotes, second quote states, symbols typed Unknown, overlapping ranges, caller-written states). Triggers of THOSE kinds will be caught. Look for something else that is still a plausible small developer mistake and genuinely violates the property as stated. Ideas: a rarely used but public entry point or accessor of the same feature that ordinary use never calls; a rule of the property that only matters for one specific pair of operand/argument TYPES or one specific function/operator; a tie-breaking or ordering rule (equal elements, first-versus-last occurrence); rounding and sign rules at exact halves, negative zero, NaN, infinities; an asymmetry between two code paths that should agree (direct call versus call through an expression, string entry versus token entry, double braces versus triple braces, type-safe versus type-unsafe manager); an interaction of exactly two options or two syntactic forms; an error that should be reported but is swallowed, or a value silently substituted for an error; something that depends on the spelling (letter case, quoting style, redundant parentheses or signs) of an otherwise equal input. The change must keep the existing tests passing and must be small.''')
