#!/usr/bin/env python3
"""prints the prompt given to a fresh sub-agent that seeds breaking changes for one property
(only the property text and its own worktree; nothing from /verif)."""
import json, sys
pid = sys.argv[1]
n = sys.argv[2] if len(sys.argv) > 2 else '3'
p = [json.loads(l) for l in open('/verif/properties.jsonl') if json.loads(l)['id'] == pid][0]
files = ', '.join(p['anchors']['files'])
print(f'''You are helping test a verification framework by producing realistic *breaking changes* (seeded bugs) for a Go library. Work ONLY inside the git worktree at /tmp/mut/{pid} (a checkout of the Go library pip-services3-expressions-gox: configurable tokenizers, expression parser/calculator over dynamic Variants, CSV tokenizer, Mustache engine). Do not touch /repo or /verif, and do not read anything under /verif.

Shell setup for every command: `export GOFLAGS=-mod=mod GOPROXY=off GOSUMDB=off GOTOOLCHAIN=local` (no network). Existing tests: `cd /tmp/mut/{pid} && go test -vet=off -count=1 ./...` (running this may add lines to go.sum - never include go.sum in a patch; `git checkout go.sum` before diffing).

The property that must hold of the library (this is all you are given about it):

"{p['title']}. {p['statement']}"
(Relevant code: {files}.)

Task: produce {n} different, independent changes to the library source (non-test files), each of which
 (a) still compiles and passes the complete existing test-suite unchanged,
 (b) breaks the property above, and
 (c) needs something specific to manifest - a particular multi-step sequence of operations, an unusual input, a particular configuration, or two cooperating edits that each look fine alone - NOT something ordinary use would expose at once. Make them look like plausible refactoring/optimisation mistakes a developer could make, each small (a few lines). Make them genuinely different in mechanism and located in different code paths.

For each change k = 1..{n} create the directory /tmp/mutout/{pid}/k/ containing:
 - patch.diff : `git diff` of the change against the worktree HEAD (apply-able with `git apply`), source files only;
 - demo_test.go : a self-contained Go test (importing the library by its module path github.com/pip-services3-gox/pip-services3-expressions-gox/...) that FAILS with the change applied and PASSES on the unchanged worktree; its FIRST line must be a comment of the form `// place in: test/<dir>/` naming an existing test directory of the repository whose package name the file uses (e.g. test/io/ with package test_io - look at the existing files there), and it must not clash with existing test names;
 - meta.json : {{"property":"{pid}","summary":"...what was changed...","needs":"...what is needed for it to manifest...","ran":"...the commands you ran and their outcome..."}}.
Verify (a) and (b) yourself: with the patch applied run the full existing suite (must pass) and the demo (must fail); with the patch reverted run the demo (must pass). Note: the library as checked out may contain other, unrelated defects; your demo must pass on the unchanged worktree, so choose inputs accordingly. Leave the worktree clean (git checkout -- . ; remove untracked files) when done. Finish with a short summary of the changes.''')
